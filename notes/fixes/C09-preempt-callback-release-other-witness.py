import sys
sys.path.insert(0,'/verif')
from hsverif.probe import quiet_library_logging
quiet_library_logging()
from happysimulator.core.simulation import Simulation
from happysimulator.core.event import Event
from happysimulator.core.entity import Entity
from happysimulator.core.temporal import Instant
from happysimulator.components.industrial.preemptible_resource import PreemptibleResource
res = PreemptibleResource("r", capacity=2)
log=[]
class W(Entity):
    def handle_event(self, ev):
        who = ev.context["metadata"]["who"]
        if who == "low":
            other = {}
            g1 = yield res.acquire(1, priority=5, preempt=False, on_preempt=lambda: other["g"].release())

            g2 = yield res.acquire(1, priority=5, preempt=False); other["g"] = g2
            log.append(("low holds 2", self.now.to_seconds()))
            yield 10.0
            g1.release(); g2.release()
        else:
            try:
                g = yield res.acquire(2, priority=1, preempt=True)
                log.append(("high granted", self.now.to_seconds()))
                yield 1.0
                g.release()
            except Exception as e:
                log.append(("high acquire raised", repr(e)))
w = W("w")
sim = Simulation(entities=[res, w])
sim.schedule(Event(time=Instant.from_seconds(0), event_type="go", target=w, context={"metadata":{"who":"low"}}))
sim.schedule(Event(time=Instant.from_seconds(1), event_type="go", target=w, context={"metadata":{"who":"high"}}))
try:
    sim.run()
except Exception as e:
    import traceback; traceback.print_exc()
print(log, "available", res.available)

#!/bin/sh
# tools/applyfix.sh <diff> <commit message file or string>   -- applies one fix to /repo as its own commit
set -e
D="$(realpath "$1")"; shift
cd /repo
git apply --3way "$D" || { echo "APPLY FAILED: $D"; git checkout -- . ; exit 1; }
git add -A
git commit -q -m "$1"
git log --oneline | head -1

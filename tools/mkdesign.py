#!/usr/bin/env python3
"""Assembles /verif/DESIGN.md from notes/design-head.md, notes/design-Cxx.md and the artefacts."""
import glob
import json
import os

HERE = os.path.dirname(os.path.dirname(os.path.abspath(__file__)))


def load(p, default=None):
    try:
        return json.load(open(p))
    except Exception:  # noqa: BLE001
        return default


def findings():
    out = []
    for p in [os.path.join(HERE, "known_findings.json")] + sorted(glob.glob(os.path.join(HERE, "known_findings.d", "*.json"))):
        data = load(p, [])
        out.extend(data if isinstance(data, list) else data.get("findings", []))
    return out


def main():
    props = [json.loads(l) for l in open(os.path.join(HERE, "properties.jsonl"))]
    parts = [open(os.path.join(HERE, "notes", "design-head.md")).read().rstrip(), ""]
    parts.append("--------------------------------------------------------------------------\n")
    parts.append("## 5. The properties, as built\n")
    parts.append(
        "One subsection per property, written by whoever built the check (the lead for C01-C04 and C20, one builder "
        "sub-agent per property otherwise, working from the plan in `notes/DESIGN-plan.md` and `notes/BUILDING.md`). "
        "Budgets quoted as *quick* are per `./check Cxx --tier quick` run; wall times were measured on a machine "
        "shared with up to 14 other builders and are upper bounds. The builders' notes were written while their proposed repairs were "
        "still diffs under `notes/fixes/`: where a note says *fix proposed* or *known finding*, section 6 gives the final "
        "disposition (almost all proposed repairs were applied to `/repo` as separate `fix:` commits after the whole "
        "repository suite had passed with them).\n"
    )
    for p in props:
        note = os.path.join(HERE, "notes", f"design-{p['id']}.md")
        parts.append(f"\n### {p['id']}  {p['title']}\n")
        if os.path.exists(note):
            text = open(note).read().strip()
            lines = text.splitlines()
            # drop a leading heading of the note itself, demote inner headings
            if lines and lines[0].startswith("#"):
                lines = lines[1:]
            body = []
            for l in lines:
                if l.startswith("#"):
                    l = "####" + l.lstrip("#")
                body.append(l)
            parts.append("\n".join(body).strip() + "\n")
        else:
            parts.append("(check under construction)\n")

    # ---- section 6: findings
    fs = findings()
    parts.append("\n--------------------------------------------------------------------------\n")
    parts.append("## 6. Findings on the unchanged tree and their disposition\n")
    parts.append(
        "Every entry below was first produced by the property's own check as a replayable witness against the real code. "
        "*fixed* = repaired in `/repo` by a separate `fix:` commit (diff + rationale in `notes/fixes/`), the check passes on "
        "the repaired tree without a KNOWN-FINDING line and reports the violation again if it returns. *known* = genuine "
        "defect for which no small safe repair was found; pinned witness + mechanism key in the known-findings file; "
        "a different violation of the same property is still reported.\n"
    )
    nfixed = sum(1 for f in fs if f.get("status") == "fixed")
    nknown = sum(1 for f in fs if f.get("status") == "known")
    parts.append(f"Totals: {nfixed} findings fixed, {nknown} recorded as known.\n")
    parts.append("\n### 6.1 Fixed\n")
    parts.append("| property | commit | what failed |\n|---|---|---|")
    for f in sorted(fs, key=lambda f: (f.get("property", ""), f.get("commit", ""))):
        if f.get("status") == "fixed":
            parts.append(f"| {f['property']} | `{f.get('commit','')}` | {f.get('what','').replace('|','/')} |")
    parts.append("\n### 6.2 Known (not repaired)\n")
    parts.append("| property | id | mechanism key (component / oracle / shape) | what fails |\n|---|---|---|---|")
    for f in sorted(fs, key=lambda f: (f.get("property", ""), f.get("id", ""))):
        if f.get("status") == "known":
            parts.append(
                f"| {f['property']} | {f['id']} | {f.get('component')} / {f.get('oracle')} / {f.get('shape')} | {f.get('what','').replace('|','/')} |"
            )
    extra = os.path.join(HERE, "notes", "design-findings-extra.md")
    if os.path.exists(extra):
        parts.append("\n" + open(extra).read().strip() + "\n")

    # ---- section 7: self-test and seeded
    parts.append("\n--------------------------------------------------------------------------\n")
    parts.append("## 7. Which checks catch which changes\n")
    parts.append("### 7.1 Self-tests (edits written by the builder of the check)\n")
    parts.append("| property | edit | caught | by (first keys) |\n|---|---|---|---|")
    for p in props:
        res = load(os.path.join(HERE, "selftest", p["id"], "results.json"), [])
        for r in res or []:
            if not isinstance(r, dict):
                continue
            by = r.get("by") or r.get("caught_by") or ""
            if isinstance(by, list):
                by = "; ".join(str(x)[:110] for x in by[:2])
            caught = r.get("caught")
            parts.append(f"| {p['id']} | {r.get('patch') or r.get('name')} | {'yes' if caught else 'NO'} | {str(by)[:240].replace('|','/')} |")
    parts.append("\n### 7.2 Independently seeded changes (written by sub-agents that saw only the property text)\n")
    parts.append(
        "`confirmed` = demo passes on the clean tree, fails with the patch, and the repository suite passes with the patch, all re-run here. "
        "`caught` = the quick tier of the listed check exits 1 with a VIOLATION line when pointed at a worktree with the patch.\n"
    )
    parts.append("| id | files | the change (title of the author's notes; full notes in seeded/<id>/notes.md) | confirmed | caught by | first key |\n|---|---|---|---|---|---|")
    metas = sorted(glob.glob(os.path.join(HERE, "seeded", "*", "meta.json")))
    ncaught = nconf = 0
    for m in metas:
        d = load(m, {})
        if not d:
            continue
        files = ", ".join(x.split("|")[0].strip().replace("happysimulator/", "") for x in d.get("files", []))
        keys = ""
        for v in (d.get("checks") or {}).values():
            if v.get("keys"):
                keys = v["keys"][0][:160]
                break
        needs = [l.strip("# ").strip() for l in (d.get("summary") or d.get("needs") or "").strip().splitlines() if l.strip()]
        needs = (needs[0] if needs else "")[:200].replace("|", "/")
        missed_first = any(not h.get("caught_by") for h in d.get("history", []) if h.get("confirmed") is not False)
        conf = d.get("confirmed")
        if conf:
            nconf += 1
            if d.get("caught_by"):
                ncaught += 1
        parts.append(
            f"| {d['id']} | {files} | {needs} | {'yes' if conf else 'no: ' + str(d.get('why_not_confirmed',''))[:60]} | {(', '.join(d.get('caught_by') or []) + (' (missed by the first version of the check; caught after it was strengthened)' if missed_first and d.get('caught_by') else '')) or ('-' if not conf else 'NOT CAUGHT')} | {keys.replace('|','/')} |"
        )
    parts.append(f"\nConfirmed changes: {nconf}; caught by the quick tier of a check: {ncaught}.\n")
    extra = os.path.join(HERE, "notes", "design-seeded-extra.md")
    if os.path.exists(extra):
        parts.append(open(extra).read().strip() + "\n")

    # ---- section 8: false alarms
    fa = os.path.join(HERE, "notes", "design-false-alarms.md")
    parts.append("\n--------------------------------------------------------------------------\n")
    parts.append("## 8. False alarms raised by our own machinery, and what was done\n")
    if os.path.exists(fa):
        parts.append(open(fa).read().strip() + "\n")
    open(os.path.join(HERE, "DESIGN.md"), "w").write("\n".join(parts) + "\n")
    print("DESIGN.md written:", sum(len(x) for x in parts), "chars")


if __name__ == "__main__":
    main()

#!/usr/bin/env python3
"""Regenerates /verif/MANIFEST.json from the table below (single source of truth)."""
import json
import os

HERE = os.path.dirname(os.path.dirname(os.path.abspath(__file__)))

CHECKS = {
    # pid: (level, design_ref, technique, level_text, level_note)
    "C01": (
        "exploration",
        "DESIGN.md 5/C01",
        "runtime monitoring: delivery log of generated programs in the real engine vs reference interpreter (history + executable model)",
        "Thousands of generated programs (ties on one nanosecond, daemon/cancelled events, end_time edges) executed by the real engine "
        "under delivery/emission probes; every delivery is compared with a reference interpreter of the documented semantics. Held means: "
        "no divergence on the programs explored; it is not a proof over all programs.",
        "Trusted: the reference interpreter (hsverif/progmodel.py, ~300 lines), the probe wrappers around Event.invoke / EventHeap._push_single, CPython.",
    ),
    "C02": (
        "exploration",
        "DESIGN.md 5/C02",
        "runtime monitoring: per-process resume/hook/finish logs of generated process scripts in the real engine vs reference interpreter",
        "Generated process scripts (three yield forms, yield from, futures resolved before/at/after the await, nested any_of/all_of, double "
        "resolves, completion hooks) executed by the real engine and by the reference interpreter; resume instants and values, hook firings "
        "and side-effect deliveries must match. Held on the scripts explored.",
        "Trusted: the reference interpreter (hsverif/progmodel.py) including its reading of Instant+float truncation; each future awaited by one process.",
    ),
    "C04": (
        "exploration",
        "DESIGN.md 5/C04",
        "runtime monitoring: differential delivery-log oracle (observed run vs unobserved run of the same model) plus step/breakpoint position monitors",
        "Each generated program and a library pipeline (Source -> QueuedResource -> Sink with probes) is run unobserved and under 8-10 observation "
        "modes (control, hooks, recorder, tracing, pause/step/resume scripts, five breakpoint kinds, combinations); logs, clocks, counters and "
        "component statistics must be identical; step(n) counts and breakpoint pause positions are checked against the harness's own delivery "
        "record; reset()+run() must repeat the sequence. Held on the (program, mode) pairs explored.",
        "Trusted: the unobserved run in the same process as baseline; harness event hook for the breakpoint-position oracle.",
    ),
    "C03": (
        "exploration",
        "DESIGN.md 5/C03",
        "runtime monitoring: differential run digests (delivery log + public stats) across fresh interpreters varying PYTHONHASHSEED, preceding activity and wall-clock behaviour",
        "Batches of scenarios from a 277-entry catalogue covering every component family are executed in four fresh interpreters (hash seeds 0/1/12345/random, "
        "different orders and repetitions, perturbed and backward-stepping wall clocks); all executions of one (scenario, seed) must produce the same digest; "
        "mismatches are diagnosed by controlled re-runs. Held on the (scenario, seed, parameter) triples explored.",
        "Trusted: scenario builders seed RNGs as a user would; digest covers the probe's delivery log and public attributes/properties of the scenario's components.",
    ),
    "C09": (
        "exploration",
        "DESIGN.md 5/C09",
        "runtime monitoring: client-boundary holder ledger + public counters sampled after every delivery and at the end of every instant, frozen-clock probe, fixpoint stranded-waiter check",
        "3 600 generated worker workloads per quick run against Resource, PreemptibleResource, Mutex, Semaphore, RWLock, Barrier, Condition, ConnectionPool, Bulkhead, ThreadPool, Server concurrency "
        "models: over-admission, held+available==capacity, ordered single wake-up, head-of-line waiter served when it fits, no frozen clock, no stranded waiter. 7 known findings on the Server/ThreadPool "
        "queue hand-off are pinned (shared with C08).",
        "Trusted: holder ledger written by harness workers at the client boundary; end-of-instant = time-advance hook.",
    ),
    "C10": (
        "exploration",
        "DESIGN.md 5/C10",
        "runtime monitoring: admitted-timestamp histories of the real policies vs exact interval bounds (integer ns / Fraction), truthfulness probes on clones, request ledgers in real simulations",
        "12 500 generated arrival sequences per quick run (exact window/refill boundaries, +-1 ns, inexact float windows) drive the real policy objects; interval bounds, "
        "time_until_available truthfulness and drain progress are decided exactly; 1 290 simulations check exactly-once / order / no frozen clock for the limiter entities.",
        "Trusted: the oracle's reading of each bound (tolerances in notes/design-C10.md); shallow clones agree with deepcopy (self-checked every case).",
    ),
    "C12": (
        "exploration",
        "DESIGN.md 5/C12",
        "runtime monitoring: per-event sampling of decided values / commit indices / leaders / fencing tokens under scripted adversarial delivery (ChaosLink), history oracles for agreement, validity, stability",
        "9 100 runs per quick tier of single-decree, Flexible and Multi-Paxos, leader election and lock strings on a scripted network (delays, reordering, loss, partitions); "
        "agreement / validity / stability / future-value / bounded liveness decided from histories of public state sampled after every delivery. 18 known findings (Multi/Flexible Paxos, LeaderElection) "
        "are pinned with mechanism labels computed from the observed wire history.",
        "Trusted: label computation for known findings (a new Multi/Flexible-Paxos agreement bug needing take-over could receive a known label while those findings are alive).",
    ),
    "C13": (
        "exploration",
        "DESIGN.md 5/C13",
        "runtime monitoring: every member's view of every peer sampled after every delivery under bounded scripted delays; phi monotonicity on increasing time grids",
        "3 000 cases per quick run: healthy clusters (no DEAD may appear), stop-for-good members (ALIVE reports must stop within (3N+10) probe intervals), scripted gossip peers (DEAD->ALIVE needs a higher incarnation), churn, "
        "and the phi detector alone on grids far into the tail.",
        "Trusted: the fixed detection bound B=(3N+10) intervals; message delays within 10% of the probe interval measured from the script log.",
    ),
    "C14": (
        "exploration",
        "DESIGN.md 5/C14",
        "runtime monitoring: client-boundary operation histories with unique values checked by a regular-register interval oracle, dict model for sync APIs, serial-order search for transactions",
        "2 100 histories per quick run over LSM (three compaction strategies, tiny memtables), B-tree, KV store; gets/scans judged per key by the interval rule; synchronous strings equal a dict; "
        "committed SERIALIZABLE transactions explained by a serial order (exact pruned search), SI reads by one committed state.",
        "Trusted: the interval oracle (hsverif/c14_oracle.py); FIFO compaction scoped as described in notes/design-C14.md.",
    ),
    "C15": (
        "fault_enumeration",
        "DESIGN.md 5/C15",
        "runtime monitoring with crash-point enumeration: workload re-run and crashed at event k (every k on the thorough tier), recovery state checked against the durable-op ledger",
        "Each workload is run to the end to count its E events; for sampled (quick) or all (thorough) k it is re-run, stepped k events, crashed, recovered (twice, and crashed again), and every key read; "
        "durable writes must be readable with their latest durable value or a later one, nothing resurrected or invented.",
        "Trusted: durability ledger from wal.synced_up_to and WAL sequence numbers taken at invocation; real-time order of same-key ops at the client boundary.",
    ),
    "C05": (
        "exploration",
        "DESIGN.md 5/C05",
        "runtime monitoring: differential per-entity delivery multisets (ParallelSimulation vs one sequential Simulation), time-travel discard probe, conservation of cross-partition events, GIL-schedule perturbation via sys.monitoring",
        "534 generated partitioned models per quick run (boundary-aimed event times, exact-minimum cross delays, idle partitions, far-from-epoch start times, latency links, independent partitions, config validation) each run "
        "sequentially, in parallel, and under K perturbed thread schedules (switch interval 1e-6 s, yields injected at LINE events of parallel/*.py and core/simulation.py); results must agree.",
        "Trusted: stateless script entities (so the permitted same-timestamp reordering cannot change behaviour); only GIL-level interleavings are reachable.",
    ),
    "C06": (
        "exploration",
        "DESIGN.md 5/C06",
        "runtime monitoring: activity log of targets and bystanders (handler entries, process steps, worker deliveries, emissions), probe traffic with per-message fate decided at send time, capacity/holder ledger, all judged by interval arithmetic over the generated fault schedule",
        "2 600 generated fault schedules per quick run (crash, pause, symmetric/asymmetric partition, latency, loss, capacity faults with overlapping / nested / adjacent / identical windows, handles cancelled before construction, "
        "before run and during run) against plain, generator, queue-fronted and Server targets. 1 known finding (QueuedResource internals keep working while crashed) is pinned.",
        "Trusted: observations on exact window-edge nanoseconds are skipped (tie with the fault's own event); cancelled-fault attribution by re-running the case without those faults.",
    ),
    "C07": (
        "exploration",
        "DESIGN.md 5/C07",
        "runtime monitoring: emission probe (event pushed with time < clock, attributed to the creating library frame), engine discard log, per-instant delivery counter, over a catalogue of hostile scenarios for every component family and the repository's own suite",
        "829 hostile scenario cases per quick run from 275 builders in 26 families (bursts on one ns, positive awkward latencies, capacity below the burst); coverage accounting shows 115 of 115 component / load / faults / "
        "instrumentation classes driven; thorough tier adds 30 parameter draws per builder and the repository's 3 002 tests under the same probes.",
        "Trusted: attribution of a stale event to the library frame that created it; frozen clock = more than max(20000, 200 x arrivals) deliveries at one instant under a finite workload.",
    ),
    "C08": (
        "exploration",
        "DESIGN.md 5/C08",
        "runtime monitoring: per-request ledger from harness source to sink, in-service sampling after every delivery, work-conservation check at the end of every instant, exact reference models for every queue policy",
        "13 500 cases per quick run: policy op strings against exact models (order, capacity, conservation) and tagged-request pipelines through Queue+Driver, QueuedResource, Server, ThreadPool, industrial variants and two-stage topologies "
        "with same-nanosecond bursts arriving through different hop counts. 1 known finding (DynamicConcurrency.set_limit does not poll) is pinned.",
        "Trusted: reference policy models in hsverif/c08_policy.py; a dequeued request dropped and counted in requests_rejected is read as rejected-and-counted.",
    ),
    "C11": (
        "exploration",
        "DESIGN.md 5/C11",
        "runtime monitoring: Raft node public state and a recording state machine sampled after every delivered event under scripted adversarial delivery, partitions and crash windows; history oracles for the five Raft safety properties plus bounded liveness",
        "4 400 runs per quick tier (7.5 M deliveries): chaos, duelling candidates, calm liveness, and two scripted adversaries (stale acknowledgements, figure-8). Election safety, log matching, leader completeness, commit monotonicity, "
        "state-machine safety, submit-future correctness decided from sampled histories.",
        "Trusted: CrashNode keeps node state (true restart with persistent-state reload is not expressible); mechanism classifier only labels, never suppresses unexplained roots.",
    ),
    "C16": (
        "exploration",
        "DESIGN.md 5/C16",
        "runtime monitoring: client-boundary histories with unique values through real caches, capacity / policy-key-set / dirty-set sampled after every step and delivery, interval-rule staleness oracle, write-back loss check after final flush",
        "6 800 histories per quick run over CachedStore x 9 eviction policies x write-through/back, MultiTierCache, SoftTTLCache, PageCache with overlapping miss-fills, writes, deletes, invalidations, flushes.",
        "Trusted: invalidate()/invalidate_all() on a dirty write-back key is an explicit discard (documented contract) and is skipped, counted in evidence.",
    ),
    "C17": (
        "exploration",
        "DESIGN.md 5/C17",
        "runtime monitoring: replica stores sampled after every delivery, ack oracles evaluated at the delivery that resolves the reply, convergence at detected quiescence / anti-entropy fixpoints, under scripted reordering",
        "7 600 runs per quick tier over primary-backup (three modes), chain replication with and without CRAQ, multi-leader with every resolver, ReplicatedStore; messages reorder freely on ChaosLinks.",
        "Trusted: fixpoint detection rule for multi-leader (notes/design-C17.md); no loss/crash in this property's workloads.",
    ),
    "C18": (
        "exploration",
        "DESIGN.md 5/C18",
        "runtime monitoring: generated message histories vs transitive happened-before; CRDT op/merge schedules vs op-based specification and algebraic laws on reachable states",
        "10 600 cases per quick run: 1.4 M event pairs compared for Lamport / vector / HLC clocks under skewed, drifting and backward physical clocks; CRDT value vs spec after every op, replica equality for equal update sets, "
        "merge laws, dict round trips, CRDTStore gossip fixpoints in real simulations.",
        "Trusted: harness happened-before closure and op-based specifications in hsverif/props/c18.py.",
    ),
    "C19": (
        "exploration",
        "DESIGN.md 5/C19",
        "runtime monitoring: per-message accounting at the end of every instant, dispatch/receipt logs of harness consumers in real simulations, offset/ownership invariants after every membership change",
        "3 900 cases per quick run: MessageQueue+DLQ op strings with reaction scripts (ack, late ack, reject, timeout), Topic fan-out/replay, EventLog offsets/retention/sharding, ConsumerGroup rebalances for every strategy, OutboxRelay + IdempotencyStore.",
        "Trusted: harness dispatch log matching deliveries to dispatches; stream-processor conservation is extra (not in the statement).",
    ),
    "C20": (
        "exploration",
        "DESIGN.md 5/C20",
        "runtime monitoring: real sketches vs exact Counter/set/sorted-list reference on generated streams (reference-model monitor)",
        "Generated streams (colliding, skewed, weighted, empty) fed to the real sketch classes and to exact models; one-sided guarantees, merge == "
        "concatenation over the whole universe plus probes, quantile monotonicity, Merkle diff coverage. Held on the streams explored.",
        "Trusted: exact reference computations in hsverif/props/c20.py; queries use the inserted objects themselves.",
    ),
}

NOT_YET = "check under construction in this session (not a claim of inapplicability)"


def main():
    props = [json.loads(l)["id"] for l in open(os.path.join(HERE, "properties.jsonl"))]
    checks = []
    for pid in props:
        if pid not in CHECKS:
            continue
        level, ref, tech, text, note = CHECKS[pid]
        checks.append(
            {
                "property_id": pid,
                "quick_cmd": f"./check {pid} --tier quick",
                "thorough_cmd": f"./check {pid} --tier thorough",
                "evidence_file": f"evidence/{pid}.json",
                "replay_cmd_template": f"./check {pid} --replay {{path}}",
                "engine": "hsverif",
                "level_claimed": {"category": level, "text": text, "design_ref": ref},
                "level_note": note,
                "technique": tech,
            }
        )
    manifest = {
        "version": 1,
        "setup_cmd": "./setup.sh",
        "hooks": {
            "guard": "HAPPYSIM_VERIF",
            "enable": "no repository hooks exist: checks import happysimulator from /repo's working tree (HS_REPO overrides) and install their probes in the harness process",
            "baseline_off_cmd": "cd /repo && /venv/bin/python -m pytest -q -p no:cacheprovider --timeout=900",
            "source_commits": [],
            "add_only": True,
        },
        "engines": [
            {
                "name": "hsverif",
                "path": "hsverif/",
                "serves_properties": sorted(CHECKS),
                "kind_free_text": "runtime-monitoring harness: seeded workload generators, engine probes (delivery / emission / discard / frozen-clock), "
                "reference-model and history oracles, sharded subprocess runner, mechanism-keyed known findings with pinned witnesses",
            }
        ],
        "checks": checks,
        "notes": "All checks: ./check <ID> --tier quick|thorough [--seed N]; VERIF_SEED / VERIF_TIER honoured. Evidence is rewritten by every full run. "
        "Known findings: known_findings.json + known_findings.d/*.json (never written at run time).",
        "not_applicable": [{"property_id": p, "reason": NOT_YET} for p in props if p not in CHECKS],
    }
    json.dump(manifest, open(os.path.join(HERE, "MANIFEST.json"), "w"), indent=1)
    print("checks:", [c["property_id"] for c in checks])


if __name__ == "__main__":
    main()

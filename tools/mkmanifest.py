#!/usr/bin/env python3
"""Regenerates /verif/MANIFEST.json from the table below (single source of truth)."""
import json
import os

HERE = os.path.dirname(os.path.dirname(os.path.abspath(__file__)))

CHECKS = {
    # pid: (level, design_ref, technique, level_text, level_note)
    "C01": (
        "exploration",
        "DESIGN.md 5/C01",
        "runtime monitoring: delivery log of generated programs in the real engine vs reference interpreter (history + executable model)",
        "Thousands of generated programs (ties on one nanosecond, daemon/cancelled events, end_time edges) executed by the real engine "
        "under delivery/emission probes; every delivery is compared with a reference interpreter of the documented semantics. Held means: "
        "no divergence on the programs explored; it is not a proof over all programs.",
        "Trusted: the reference interpreter (hsverif/progmodel.py, ~300 lines), the probe wrappers around Event.invoke / EventHeap._push_single, CPython.",
    ),
    "C02": (
        "exploration",
        "DESIGN.md 5/C02",
        "runtime monitoring: per-process resume/hook/finish logs of generated process scripts in the real engine vs reference interpreter",
        "Generated process scripts (three yield forms, yield from, futures resolved before/at/after the await, nested any_of/all_of, double "
        "resolves, completion hooks) executed by the real engine and by the reference interpreter; resume instants and values, hook firings "
        "and side-effect deliveries must match. Held on the scripts explored.",
        "Trusted: the reference interpreter (hsverif/progmodel.py) including its reading of Instant+float truncation; each future awaited by one process.",
    ),
    "C04": (
        "exploration",
        "DESIGN.md 5/C04",
        "runtime monitoring: differential delivery-log oracle (observed run vs unobserved run of the same model) plus step/breakpoint position monitors",
        "Each generated program and a library pipeline (Source -> QueuedResource -> Sink with probes) is run unobserved and under 8-10 observation "
        "modes (control, hooks, recorder, tracing, pause/step/resume scripts, five breakpoint kinds, combinations); logs, clocks, counters and "
        "component statistics must be identical; step(n) counts and breakpoint pause positions are checked against the harness's own delivery "
        "record; reset()+run() must repeat the sequence. Held on the (program, mode) pairs explored.",
        "Trusted: the unobserved run in the same process as baseline; harness event hook for the breakpoint-position oracle.",
    ),
    "C20": (
        "exploration",
        "DESIGN.md 5/C20",
        "runtime monitoring: real sketches vs exact Counter/set/sorted-list reference on generated streams (reference-model monitor)",
        "Generated streams (colliding, skewed, weighted, empty) fed to the real sketch classes and to exact models; one-sided guarantees, merge == "
        "concatenation over the whole universe plus probes, quantile monotonicity, Merkle diff coverage. Held on the streams explored.",
        "Trusted: exact reference computations in hsverif/props/c20.py; queries use the inserted objects themselves.",
    ),
}

NOT_YET = "check under construction in this session (not a claim of inapplicability)"


def main():
    props = [json.loads(l)["id"] for l in open(os.path.join(HERE, "properties.jsonl"))]
    checks = []
    for pid in props:
        if pid not in CHECKS:
            continue
        level, ref, tech, text, note = CHECKS[pid]
        checks.append(
            {
                "property_id": pid,
                "quick_cmd": f"./check {pid} --tier quick",
                "thorough_cmd": f"./check {pid} --tier thorough",
                "evidence_file": f"evidence/{pid}.json",
                "replay_cmd_template": f"./check {pid} --replay {{path}}",
                "engine": "hsverif",
                "level_claimed": {"category": level, "text": text, "design_ref": ref},
                "level_note": note,
                "technique": tech,
            }
        )
    manifest = {
        "version": 1,
        "setup_cmd": "./setup.sh",
        "hooks": {
            "guard": "HAPPYSIM_VERIF",
            "enable": "no repository hooks exist: checks import happysimulator from /repo's working tree (HS_REPO overrides) and install their probes in the harness process",
            "baseline_off_cmd": "cd /repo && /venv/bin/python -m pytest -q -p no:cacheprovider --timeout=900",
            "source_commits": [],
            "add_only": True,
        },
        "engines": [
            {
                "name": "hsverif",
                "path": "hsverif/",
                "serves_properties": sorted(CHECKS),
                "kind_free_text": "runtime-monitoring harness: seeded workload generators, engine probes (delivery / emission / discard / frozen-clock), "
                "reference-model and history oracles, sharded subprocess runner, mechanism-keyed known findings with pinned witnesses",
            }
        ],
        "checks": checks,
        "notes": "All checks: ./check <ID> --tier quick|thorough [--seed N]; VERIF_SEED / VERIF_TIER honoured. Evidence is rewritten by every full run. "
        "Known findings: known_findings.json + known_findings.d/*.json (never written at run time).",
        "not_applicable": [{"property_id": p, "reason": NOT_YET} for p in props if p not in CHECKS],
    }
    json.dump(manifest, open(os.path.join(HERE, "MANIFEST.json"), "w"), indent=1)
    print("checks:", [c["property_id"] for c in checks])


if __name__ == "__main__":
    main()

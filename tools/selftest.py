#!/usr/bin/env python3
"""Self-test driver: apply property-breaking edits to a scratch worktree and confirm the check fires.

    tools/selftest.py C01 [name ...]      runs the mutations listed in selftest/C01/mutations.json
    tools/selftest.py --diffs C05         runs every selftest/C05/*.diff instead

mutations.json: [{"name": "lt-ignores-sort-index", "file": "happysimulator/core/event.py",
                  "old": "...", "new": "...", "args": ["--families", "programs"]}]
Each mutation is saved as selftest/<PID>/<name>.diff; results go to selftest/<PID>/results.json.
The worktree lives under /tmp and is removed at the end.
"""
import glob
import json
import os
import subprocess
import sys
import time

HERE = os.path.dirname(os.path.dirname(os.path.abspath(__file__)))


def sh(cmd, **kw):
    return subprocess.run(cmd, shell=True, text=True, capture_output=True, **kw)


def main():
    args = sys.argv[1:]
    use_diffs = False
    if args and args[0] == "--diffs":
        use_diffs = True
        args = args[1:]
    pid = args[0].upper()
    only = set(args[1:])
    d = os.path.join(HERE, "selftest", pid)
    os.makedirs(d, exist_ok=True)
    wt = f"/tmp/st-{pid.lower()}-{os.getpid()}"
    r = sh(f"git -C /repo worktree add --detach {wt} HEAD")
    if r.returncode:
        print(r.stderr)
        return 2
    results = []
    try:
        if use_diffs:
            muts = [{"name": os.path.basename(p)[:-5], "diff": p} for p in sorted(glob.glob(os.path.join(d, "*.diff")))]
        else:
            muts = json.load(open(os.path.join(d, "mutations.json")))
        for m in muts:
            if only and m["name"] not in only:
                continue
            sh(f"git -C {wt} checkout -- .")
            if "diff" in m:
                a = sh(f"git -C {wt} apply {m['diff']}")
                if a.returncode:
                    results.append({"patch": m["name"], "applied": False, "error": a.stderr[-300:]})
                    print(m["name"], "DID NOT APPLY")
                    continue
            else:
                edits = m.get("edits") or [{"file": m["file"], "old": m["old"], "new": m["new"]}]
                ok = True
                for e in edits:
                    path = os.path.join(wt, e["file"])
                    s = open(path).read()
                    if s.count(e["old"]) != 1:
                        ok = False
                        results.append({"patch": m["name"], "applied": False, "error": f"pattern occurs {s.count(e['old'])} times in {e['file']}"})
                        print(m["name"], "PATTERN PROBLEM", s.count(e["old"]))
                        break
                    open(path, "w").write(s.replace(e["old"], e["new"]))
                if not ok:
                    continue
                diff = sh(f"git -C {wt} diff").stdout
                open(os.path.join(d, m["name"] + ".diff"), "w").write(diff)
            t0 = time.time()
            extra = " ".join(m.get("args", []))
            env = dict(os.environ, HS_REPO=wt)
            c = sh(f"cd {HERE} && ./check {pid} --tier quick --no-evidence --jobs {os.environ.get('ST_JOBS', '8')} {extra}", env=env)
            wall = time.time() - t0
            viol = [l for l in c.stdout.splitlines() if l.startswith("VIOLATION")]
            keys = [l.strip() for l in c.stdout.splitlines() if l.strip().startswith("key=")]
            caught = c.returncode == 1 and bool(viol)
            results.append(
                {
                    "patch": m["name"],
                    "applied": True,
                    "caught": caught,
                    "exit": c.returncode,
                    "by": [k[:160] for k in keys[:4]],
                    "quick_wall_s": round(wall, 1),
                    "intent": m.get("intent", ""),
                }
            )
            print(m["name"], "CAUGHT" if caught else f"MISSED (exit {c.returncode})", f"{wall:.0f}s", keys[:2])
            # remove replay files produced against the scratch copy
            for l in viol:
                p = l.split("replay=")[-1].strip()
                if os.path.exists(p):
                    os.remove(p)
    finally:
        sh(f"git -C /repo worktree remove --force {wt}")
    out = os.path.join(d, "results.json")
    prev = []
    if os.path.exists(out) and only:
        prev = [r_ for r_ in json.load(open(out)) if r_["patch"] not in {x["patch"] for x in results}]
    json.dump(prev + results, open(out, "w"), indent=1)
    return 0


if __name__ == "__main__":
    sys.exit(main())

#!/usr/bin/env python3
"""Prints the prompt for a fresh mutation sub-agent: tools/mutprompt.py C01 /tmp/mut-c01 /tmp/mutout-c01 [n]"""
import json, sys
pid, wt, out = sys.argv[1], sys.argv[2], sys.argv[3]
n = sys.argv[4] if len(sys.argv) > 4 else "3"
props = {json.loads(l)["id"]: json.loads(l) for l in open("/verif/properties.jsonl")}
p = props[pid]
print(f"""You are a careful adversarial tester working on the Python library adamfilli/happy-simulator (a pure-Python discrete-event simulation engine with a large library of simulated components). You have your own scratch git worktree of the repository at {wt} (Python: /venv/bin/python, 3.13; run things from inside the worktree with PYTHONPATH=. so that `import happysimulator` resolves to your copy: `cd {wt} && PYTHONPATH=. /venv/bin/python ...` (an editable install of another copy exists on this machine and wins otherwise); verify once with `python -c "import happysimulator; print(happysimulator.__file__)"`). Work ONLY inside {wt} and {out}. Do not read or list anything under /verif or /repo, and do not use the network.

Here is a semantic property the library is supposed to satisfy:

TITLE: {p['title']}
STATEMENT: {p['statement']}
QUANTIFIED OVER: {p['quantifier']['text']}
RELEVANT FILES (relative to the worktree): {', '.join(p['anchors']['files'])}

Your task: produce {n} DIFFERENT realistic changes to the library source (the kind of change a refactor, an optimisation or a well-meant bug fix could introduce) each of which BREAKS this property while the code still imports and the repository's existing test suite still passes. Prefer changes that need something specific to manifest — a particular interleaving or message order, a crash or fault at a particular point, a multi-step sequence of operations, an unusual input or boundary value, or two cooperating code sites that each look fine alone — NOT changes that ordinary use would expose at once. Each change should violate a different clause of the property or go through a different mechanism / component.

For each change i = 1..{n}, deliver a directory {out}/<i>/ containing:
  - patch.diff   : `git -C {wt} diff` of exactly that change relative to the worktree's HEAD (changes only under happysimulator/; one change per patch; patches must be independent, each applying to a clean HEAD)
  - demo.py      : a small stand-alone program (run as `cd <repo copy> && PYTHONPATH=. /venv/bin/python {out}/<i>/demo.py` -- the PYTHONPATH=. matters: without it an installed copy elsewhere would be imported; make demo.py print happysimulator.__file__ on its first line) that uses the public API, exits 0 and prints PASS on the unmodified library and exits 1 and prints FAIL (with the observed violation of the property) with your change applied. It must demonstrate a violation of the property statement above, not merely a difference in behaviour.
  - notes.md     : which clause of the property is broken, through what mechanism, what specific conditions are needed for it to manifest, and exactly what you ran.

Procedure for each change: start from a clean worktree (`git -C {wt} checkout -- .`), make the edit, confirm demo.py FAILS with it and PASSES without it (save the patch with `git diff > patch.diff`, `git checkout -- .` to remove it and `git apply patch.diff` to re-apply it; NEVER use `git stash`: it is shared with other worktrees used by other people), then confirm the existing tests still pass WITH the change: run at least the test files related to the files you touched, and finally the whole suite once per change: `cd {wt} && /venv/bin/python -m pytest -q -p no:cacheprovider --timeout=900 -x -n 4 > {out}/<i>/suite.log 2>&1; echo exit=$?` (exit 0 required; it takes 1-4 minutes; if a change makes a test fail, pick a subtler change). Write the patch with `git -C {wt} diff > {out}/<i>/patch.diff`, then restore the worktree to clean before the next change. At the end leave the worktree clean.

Final answer: a short table of the changes (files touched, clause broken, what is needed to manifest, demo result with/without, suite result).""")

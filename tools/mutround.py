#!/usr/bin/env python3
"""Prompt for a later-round mutation sub-agent: the base prompt plus the list of already explored changes.

    tools/mutround.py C05 /tmp/mut4-c05 /tmp/mutout4-c05 > /tmp/prompt4-c05.txt

The explored list is the title line + touched files of every seeded/<PID>-*/ change (nothing else from /verif
is shown to the agent).
"""
import glob
import json
import os
import subprocess
import sys

HERE = os.path.dirname(os.path.dirname(os.path.abspath(__file__)))
pid, wt, out = sys.argv[1], sys.argv[2], sys.argv[3]
base = subprocess.run([sys.executable, os.path.join(HERE, "tools", "mutprompt.py"), pid, wt, out], capture_output=True, text=True, check=True).stdout.rstrip()
lines = []
for m in sorted(glob.glob(os.path.join(HERE, "seeded", f"{pid}-*", "meta.json"))):
    d = json.load(open(m))
    title = ""
    for l in (d.get("needs") or d.get("summary") or "").splitlines():
        if l.strip():
            title = l.strip("# ").strip()
            break
    files = ", ".join(x.split("|")[0].strip() for x in d.get("files", []))
    lines.append(f"- {title} (files: {files})")
print(base)
print()
print(
    "\nOther testers have ALREADY explored the following changes for this property; do NOT repeat them or close variants, and prefer "
    "different functions, different components, different clauses of the property and different kinds of trigger (API usage patterns such "
    "as reuse after clear/reset/restart, objects shared between calls or between components, unusual but legal argument types and values, "
    "degenerate sizes (0, 1), operations issued at exactly the same instant or overlapping within one latency, a component used behind or "
    "in front of another library component, re-entrancy, subclassing / user-supplied callbacks and strategies, configuration changed while "
    "running, very long runs / large counts, numeric edge values (huge times, float precision, negative or zero durations)):"
)
print("\n".join(lines))
print(
    "\nNote: tests/unit/test_simulation_result.py::TestSweepResult::test_sweep_best_by and "
    "tests/integration/test_code_stepping.py::TestCodeSteppingIntegration::test_breakpoint_blocks_and_continues are flaky on the unmodified "
    "code; if a full-suite run stops only on one of them, re-run. Never use `git stash`."
)

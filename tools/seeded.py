#!/usr/bin/env python3
"""Confirm and evaluate independently written property-breaking changes.

    tools/seeded.py C14 /tmp/mutout-c14 [--no-suite] [--only 1,3] [--checks C14,C15]

For every <outdir>/<i>/ with patch.diff + demo.py:
  1. fresh scratch worktree of /repo HEAD (under /tmp, removed at the end)
  2. demo on the clean worktree must PASS (exit 0); with the patch applied must FAIL (exit != 0)
  3. the repository suite with the patch applied must pass (unless --no-suite)
  4. run ./check <PID> --tier quick with HS_REPO=<worktree>; record exit code and violation keys
  5. copy patch.diff, demo.py, notes.md to /verif/seeded/<PID>-<i>/ with meta.json
Nothing is ever applied to /repo itself.
"""
import json
import os
import shutil
import subprocess
import sys
import time

HERE = os.path.dirname(os.path.dirname(os.path.abspath(__file__)))


def sh(cmd, **kw):
    return subprocess.run(cmd, shell=True, text=True, capture_output=True, **kw)


def main():
    args = sys.argv[1:]
    pid = args[0].upper()
    outdir = args[1]
    no_suite = "--no-suite" in args
    only = None
    checks = [pid]
    tag = ""
    for i, a in enumerate(args):
        if a == "--only":
            only = set(args[i + 1].split(","))
        if a == "--checks":
            checks = args[i + 1].split(",")
        if a == "--tag":
            tag = args[i + 1]
    wt = f"/tmp/seed-{pid.lower()}-{os.getpid()}"
    r = sh(f"git -C /repo worktree add --detach {wt} HEAD")
    if r.returncode:
        print(r.stderr)
        return 2
    head = sh("git -C /repo log --format=%h -1").stdout.strip()
    try:
        for name in sorted(os.listdir(outdir)):
            d = os.path.join(outdir, name)
            if not os.path.isdir(d) or not os.path.exists(os.path.join(d, "patch.diff")):
                continue
            if only and name not in only:
                continue
            sid = f"{pid}-{tag}{name}"
            meta = {"id": sid, "property": pid, "repo_head": head, "source": "independent sub-agent given only the property text"}
            sh(f"git -C {wt} reset -q --hard && git -C {wt} clean -fdq")
            env = dict(os.environ, PYTHONPATH=wt)
            demo = os.path.join(d, "demo.py")
            c0 = sh(f"cd {wt} && /venv/bin/python {demo}", env=env, timeout=600)
            meta["demo_clean_exit"] = c0.returncode
            a = sh(f"git -C {wt} apply {os.path.join(d, 'patch.diff')}")
            if a.returncode:
                a = sh(f"git -C {wt} apply --3way {os.path.join(d, 'patch.diff')}")
            meta["patch_applies"] = a.returncode == 0
            if a.returncode:
                meta["apply_error"] = a.stderr[-400:]
                print(sid, "PATCH DOES NOT APPLY", a.stderr[-200:])
                _save(d, sid, meta)
                continue
            meta["files"] = sh(f"git -C {wt} diff --stat").stdout.strip().splitlines()[:-1]
            c1 = sh(f"cd {wt} && /venv/bin/python {demo}", env=env, timeout=600)
            meta["demo_patched_exit"] = c1.returncode
            meta["demo_patched_tail"] = (c1.stdout + c1.stderr)[-400:]
            if not no_suite:
                t0 = time.time()
                s = sh(f"cd {wt} && /venv/bin/python -m pytest -q -p no:cacheprovider --timeout=900 -x -n 8 --deselect tests/unit/test_simulation_result.py::TestSweepResult::test_sweep_best_by > {wt}.suite.log 2>&1; echo EXIT=$?; grep -E '^(FAILED|ERROR)' {wt}.suite.log | head -3; rm -f {wt}.suite.log", timeout=5400)
                meta["suite_with_patch"] = "passed" if "EXIT=0" in s.stdout else "failed"
                meta["suite_tail"] = s.stdout[-300:]
                meta["suite_wall_s"] = round(time.time() - t0)
            confirmed = meta["demo_clean_exit"] == 0 and meta["demo_patched_exit"] != 0 and meta.get("suite_with_patch", "passed") == "passed"
            meta["confirmed"] = confirmed
            results = {}
            for chk in checks:
                t0 = time.time()
                c = sh(
                    f"cd {HERE} && ./check {chk} --tier quick --no-evidence --jobs {os.environ.get('ST_JOBS', '10')}",
                    env=dict(os.environ, HS_REPO=wt),
                    timeout=7200,
                )
                viol = [l for l in c.stdout.splitlines() if l.startswith("VIOLATION")]
                keys = [l.strip()[:220] for l in c.stdout.splitlines() if l.strip().startswith("key=")]
                results[chk] = {"exit": c.returncode, "caught": c.returncode == 1 and bool(viol), "keys": keys[:5], "wall_s": round(time.time() - t0)}
                for l in viol:
                    p = l.split("replay=")[-1].strip()
                    if os.path.exists(p):
                        os.remove(p)
            meta["checks"] = results
            meta["caught_by"] = [k for k, v in results.items() if v["caught"]]
            print(sid, "confirmed" if confirmed else "NOT CONFIRMED", "| caught by", meta["caught_by"] or "NOTHING", "|", [v["keys"][:1] for v in results.values()])
            _save(d, sid, meta)
    finally:
        sh(f"git -C /repo worktree remove --force {wt}")
    return 0


def _save(d, sid, meta):
    dst = os.path.join(HERE, "seeded", sid)
    os.makedirs(dst, exist_ok=True)
    for f in ("patch.diff", "demo.py", "notes.md"):
        if os.path.exists(os.path.join(d, f)):
            shutil.copy(os.path.join(d, f), os.path.join(dst, f))
    old = os.path.join(dst, "meta.json")
    if os.path.exists(old):
        try:
            prev = json.load(open(old))
            hist = prev.get("history", [])
            if prev.get("checks"):
                hist.append({"repo_head": prev.get("repo_head"), "caught_by": prev.get("caught_by"), "checks": prev.get("checks"), "confirmed": prev.get("confirmed")})
            meta["history"] = hist
        except Exception:  # noqa: BLE001
            pass
    if os.path.exists(os.path.join(d, "notes.md")):
        meta["needs"] = open(os.path.join(d, "notes.md")).read()[:1500]
    json.dump(meta, open(os.path.join(dst, "meta.json"), "w"), indent=1)


if __name__ == "__main__":
    sys.exit(main())

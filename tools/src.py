#!/venv/bin/python
"""Print Python sources with docstrings and comments removed (for reading).  usage: src.py file..."""
import ast, sys
class Strip(ast.NodeTransformer):
    def _strip(self, node):
        self.generic_visit(node)
        b = node.body
        if b and isinstance(b[0], ast.Expr) and isinstance(getattr(b[0], "value", None), ast.Constant) and isinstance(b[0].value.value, str):
            node.body = b[1:] or [ast.Pass()]
        return node
    visit_FunctionDef = visit_AsyncFunctionDef = visit_ClassDef = visit_Module = _strip
for f in sys.argv[1:]:
    print(f"##### {f}")
    t = Strip().visit(ast.parse(open(f).read()))
    print(ast.unparse(t))

#!/usr/bin/env python3
"""tools/markfixed.py C17 <commit> [id-substring ...]   -- turn known entries into fixed entries (all, or those whose id/what contains a substring)"""
import json, sys, os
HERE = os.path.dirname(os.path.dirname(os.path.abspath(__file__)))
pid, commit, subs = sys.argv[1], sys.argv[2], sys.argv[3:]
p = os.path.join(HERE, "known_findings.d", f"{pid}.json")
data = json.load(open(p))
n = 0
for e in data:
    if e.get("status") != "known":
        continue
    if subs and not any(s in e["id"] or s in e.get("fix_proposed", "") for s in subs):
        continue
    e["status"] = "fixed"
    e["commit"] = commit
    e["line"] = f"fixed: property={pid} {commit} {e['what']}"
    n += 1
json.dump(data, open(p, "w"), indent=1)
print(pid, "marked fixed:", n, "remaining known:", sum(1 for e in data if e.get("status") == "known"))

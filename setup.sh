#!/bin/sh
# Offline setup: nothing to build (pure Python, no third-party dependency is required).
# Verifies the interpreter and that the repository imports from /repo's working tree.
set -e
cd "$(dirname "$0")"
PYTHONPATH="$PWD" /venv/bin/python -c "from hsverif.core import ensure_repo_on_path as e; print('repo:', e())"
mkdir -p evidence replays .work

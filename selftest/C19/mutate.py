#!/venv/bin/python
"""Apply one named property-breaking edit to a checkout (used to produce selftest/C19/*.diff)."""
import sys
root, name = sys.argv[1], sys.argv[2]
M = {
 "ack-leaves-in-flight": ("happysimulator/components/messaging/message_queue.py",
   "        self._in_flight.pop(message_id, None)\n        self._messages.pop(message_id, None)\n",
   "        self._messages.pop(message_id, None)\n"),
 "timeout-ignores-redelivery-limit": ("happysimulator/components/messaging/message_queue.py",
   "        if msg.delivery_count >= self._max_redeliveries:\n            # Dead letter\n",
   "        if False and msg.delivery_count >= self._max_redeliveries:\n            # Dead letter\n"),
 "poll-takes-newest-pending": ("happysimulator/components/messaging/message_queue.py",
   "        message_id = self._pending_queue[0]\n",
   "        message_id = self._pending_queue[-1]\n"),
 "topic-skips-subscriber-that-left-during-latency": ("happysimulator/components/messaging/topic.py",
   "        for subscription in active_subscribers:\n            delivery_event = Event(\n",
   "        for subscription in active_subscribers:\n            if not subscription.active:\n                continue  # left while the fan-out was in progress\n            delivery_event = Event(\n"),
 "rebalance-keeps-old-assignment": ("happysimulator/components/streaming/consumer_group.py",
   "        self._assignments = self._strategy.assign(partitions, consumer_names)\n",
   "        fresh = self._strategy.assign(partitions, consumer_names)\n        self._assignments = {**fresh, **{k: v for k, v in self._assignments.items() if k in fresh}}\n"),
 "join-resets-committed-offsets": ("happysimulator/components/streaming/consumer_group.py",
   "            if consumer_name not in self._committed_offsets:\n                self._committed_offsets[consumer_name] = {}\n            self._joins += 1\n",
   "            self._committed_offsets[consumer_name] = {}\n            self._joins += 1\n"),
 "offset-from-record-count": ("happysimulator/components/streaming/event_log.py",
   "            offset=partition.high_watermark,\n",
   "            offset=len(partition.records),\n"),
 "idempotency-ignores-in-flight": ("happysimulator/components/microservice/idempotency_store.py",
   "        if key in self._in_flight:\n",
   "        if False and key in self._in_flight:\n"),
 "session-merge-drops-records": ("happysimulator/components/streaming/stream_processor.py",
   "                last.end = max(last.end, w.end)\n                last.records.extend(w.records)\n",
   "                last.end = max(last.end, w.end)\n"),
}
path, old, new = M[name]
p = f"{root}/{path}"
s = open(p).read()
assert s.count(old) == 1, (name, s.count(old))
open(p, "w").write(s.replace(old, new))

#!/bin/sh
# usage: selftest/C16/run_selftest.sh /tmp/wt-c16-st   (a scratch worktree of /repo at HEAD)
# Applies each mutation, runs the quick tier against the worktree, prints exit code, wall time and violation keys.
WT="${1:-/tmp/wt-c16}"
HERE="$(cd "$(dirname "$0")" && pwd)"
cd "$HERE/../.." || exit 2
for d in "$HERE"/*.diff; do
  n=$(basename "$d" .diff)
  git -C "$WT" checkout -- . && git -C "$WT" apply "$d" || { echo "$n: patch does not apply"; continue; }
  t0=$(date +%s)
  out=$(HS_REPO="$WT" ./check C16 --tier quick --jobs "${JOBS:-6}" --no-evidence --keep-going 2>&1)
  rc=$?
  t1=$(date +%s)
  echo "== $n exit=$rc wall=$((t1-t0))s"
  echo "$out" | grep "key=" | sed 's/ detail=.*//' | sort -u
  git -C "$WT" checkout -- .
done

"""Self-test driver for C07: apply each property-breaking edit to a scratch worktree, run the quick check.

    /venv/bin/python /verif/selftest/C07/driver.py [/tmp/wt-c07] [--jobs N] [--suite] [--only a,b]

Expects the worktree to exist (`git -C /repo worktree add --detach /tmp/wt-c07 HEAD`) and to be clean.
Writes results.json next to this file.  --suite also runs the repository tests of the touched area
inside the worktree (to show that the suite stays green under the edit).
"""

import glob
import json
import os
import re
import subprocess
import sys
import time

HERE = os.path.dirname(os.path.abspath(__file__))
AREA = {
    "server-forward-arrival-time": "server",
    "database-waiter-zero-poll": "database",
    "client-retry-from-send-time": "client",
    "token-bucket-zero-wait-guard": "policy or rate_limit or token",
    "conveyor-arrival-stamp-before-transit": "conveyor",
    "split-merge-stamp-hoisted": "split_merge or industrial",
    "batch-processor-stamp-at-batch-start": "batch_processor or industrial",
    "api-gateway-forward-with-request-time": "gateway or microservice",
}


def main():
    args = [a for a in sys.argv[1:] if not a.startswith("--")]
    wt = args[0] if args else "/tmp/wt-c07"
    jobs = "8"
    if "--jobs" in sys.argv:
        jobs = sys.argv[sys.argv.index("--jobs") + 1]
    results = []
    only = None
    if "--only" in sys.argv:  # re-run a subset; other entries of results.json are kept
        only = set(sys.argv[sys.argv.index("--only") + 1].split(","))
        try:
            results = [r for r in json.load(open(os.path.join(HERE, "results.json"))) if r["patch"][:-5] not in only]
        except OSError:
            results = []
    for patch in sorted(glob.glob(os.path.join(HERE, "*.diff"))):
        name = os.path.basename(patch)[:-5]
        if only is not None and name not in only:
            continue
        subprocess.run(["git", "-C", wt, "checkout", "--", "."], check=True)
        subprocess.run(["git", "-C", wt, "apply", patch], check=True)
        suite = None
        if "--suite" in sys.argv:
            try:
                p = subprocess.run(
                    ["/venv/bin/python", "-m", "pytest", "tests", "-q", "-x", "-p", "no:cacheprovider", "-k", AREA.get(name, name)],
                    cwd=wt, capture_output=True, text=True, timeout=900,
                )
                failed = re.findall(r"^(?:FAILED|ERROR) (\S+)", p.stdout, flags=re.M)
                suite = {0: "green", 5: "no tests selected"}.get(p.returncode, f"red rc={p.returncode} {failed[:2]}")
            except subprocess.TimeoutExpired:
                suite = "hangs (>900 s): a repository test spins at a frozen clock"
        t0 = time.monotonic()
        env = dict(os.environ, HS_REPO=wt)
        p = subprocess.run(
            ["/verif/check", "C07", "--tier", "quick", "--jobs", jobs, "--no-evidence"],
            cwd="/verif", env=env, capture_output=True, text=True,
        )
        wall = time.monotonic() - t0
        keys = re.findall(r"key=\(([^)]*)\)", p.stdout)
        fams = set()
        for rp in re.findall(r"VIOLATION property=C07 replay=(\S+)", p.stdout):
            try:
                fams.add(json.load(open(rp))["family"])
            except Exception:  # noqa: BLE001
                pass
        results.append(
            {
                "repo_head": subprocess.run(["git", "-C", wt, "rev-parse", "--short", "HEAD"], capture_output=True, text=True).stdout.strip(),
                "patch": os.path.basename(patch),
                "caught": p.returncode == 1 and bool(keys),
                "exit": p.returncode,
                "by": sorted({k.replace("'", "") for k in keys}),
                "families": sorted(fams),
                "quick_wall_s": round(wall, 1),
                "repo_tests_of_area": suite,
            }
        )
        print(json.dumps(results[-1]))
        sys.stdout.flush()
        subprocess.run(["git", "-C", wt, "checkout", "--", "."], check=True)
    results.sort(key=lambda r: r["patch"])
    json.dump(results, open(os.path.join(HERE, "results.json"), "w"), indent=1)


if __name__ == "__main__":
    main()

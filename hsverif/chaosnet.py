"""Adversarial network: per-message delays, loss and holds taken from a JSON delay script.

`ChaosLink` is a harness subclass of the public `NetworkLink` dataclass.  It
only overrides the one place where the link turns a message into a delay
(`_calculate_delay`) and adds scripted loss in front of the real
`handle_event`; forwarding is done by the library code.

A *delay script* is a JSON dict:

    {"seed": 7,
     "family": "uniform" | "bimodal" | "asym" | "fixed",
     "base": [lo, hi],              seconds, the common case
     "slow": [lo, hi], "p_slow": 0.1,       bimodal tail
     "asym": {"n1>n2": 5.0, ...},   per-directed-link multiplier
     "loss": 0.0,                    iid loss probability
     "rules": [ {"src": "n1"|null, "dst": "n2"|null, "type": "RaftRequestVote"|null,
                 "nth": 3|null,       (per (src,dst,type) sequence number)
                 "delay": 1.4 | null, "drop": true|false} ... ]   first match wins
    }

Delays are a pure function of (seed, src, dst, type, per-link sequence number),
so a script replays exactly and does not depend on global RNG state.
"""

from __future__ import annotations

import random
from dataclasses import dataclass, field
from typing import Any

from hsverif.core import ensure_repo_on_path

ensure_repo_on_path()

from happysimulator.components.network.link import NetworkLink  # noqa: E402
from happysimulator.components.network.network import Network  # noqa: E402
from happysimulator.distributions.constant import ConstantLatency  # noqa: E402


class DelayScript:
    def __init__(self, spec: dict):
        self.spec = spec
        self.seed = spec.get("seed", 0)
        self.family = spec.get("family", "uniform")
        self.base = spec.get("base", [0.001, 0.02])
        self.slow = spec.get("slow", [0.2, 1.5])
        self.p_slow = spec.get("p_slow", 0.1)
        self.asym = spec.get("asym", {})
        self.loss = spec.get("loss", 0.0)
        self.rules = spec.get("rules", [])
        self.seq: dict[tuple, int] = {}
        self.type_seq: dict[tuple, int] = {}
        self.log: list[tuple] = []  # (send_ns, src, dst, type, seq, delay|None)
        self.keep_log = spec.get("keep_log", True)

    def decide(self, now_ns: int, src: str, dst: str, etype: str) -> tuple[bool, float]:
        """Returns (drop, delay_seconds) and advances the per-link counters."""
        k = (src, dst)
        n = self.seq.get(k, 0)
        self.seq[k] = n + 1
        kt = (src, dst, etype)
        nt = self.type_seq.get(kt, 0)
        self.type_seq[kt] = nt + 1
        rng = random.Random(f"{self.seed}/{src}/{dst}/{n}")
        drop = False
        delay = None
        for r in self.rules:
            if r.get("src") not in (None, src) or r.get("dst") not in (None, dst):
                continue
            if r.get("type") not in (None, etype):
                continue
            if r.get("nth") is not None and r["nth"] != nt:
                continue
            if r.get("after") is not None and now_ns < r["after"] * 1e9:
                continue
            if r.get("before") is not None and now_ns >= r["before"] * 1e9:
                continue
            drop = bool(r.get("drop", False))
            delay = r.get("delay")
            break
        if delay is None:
            u = rng.random()
            if self.family == "fixed":
                delay = self.base[0]
            elif self.family == "bimodal" and u < self.p_slow:
                delay = rng.uniform(*self.slow)
            else:
                delay = rng.uniform(*self.base)
            if self.family == "asym" or self.asym:
                delay *= self.asym.get(f"{src}>{dst}", 1.0)
        if not drop and self.loss and rng.random() < self.loss:
            drop = True
        if self.keep_log:
            self.log.append((now_ns, src, dst, etype, n, None if drop else delay))
        return drop, delay


@dataclass
class ChaosLink(NetworkLink):
    script: Any = None
    src_name: str = ""
    dst_name: str = ""
    _pending_delay: float = field(default=0.0, init=False)

    def handle_event(self, event):
        drop, delay = self.script.decide(self.now.nanoseconds, self.src_name, self.dst_name, event.event_type)
        if drop:
            self.packets_dropped += 1
            return None
        self._pending_delay = delay
        return super().handle_event(event)

    def _calculate_delay(self, event) -> float:
        return self._pending_delay


def build_network(nodes: list, script: DelayScript, name: str = "net") -> Network:
    """Full mesh of ChaosLinks between the given entities (by .name)."""
    net = Network(name=name)
    for a in nodes:
        for b in nodes:
            if a is b:
                continue
            link = ChaosLink(
                name=f"{a.name}>{b.name}",
                latency=ConstantLatency(0.0),
                script=script,
                src_name=a.name,
                dst_name=b.name,
            )
            net.add_link(a, b, link)
    return net


def random_script(rng: random.Random, nodes: list[str], msg_types: list[str], timeout_scale: float = 1.0, allow_loss=True) -> dict:
    """A generated delay script. `timeout_scale` ~ the protocol's timeout in seconds."""
    fam = rng.choice(["uniform", "bimodal", "bimodal", "asym", "targeted"])
    t = timeout_scale
    spec: dict = {
        "seed": rng.randrange(1 << 30),
        "family": "bimodal" if fam == "targeted" else fam,
        "base": [0.001 * t, rng.choice([0.02, 0.05, 0.2]) * t],
        "slow": [0.2 * t, rng.choice([1.0, 1.5, 3.0]) * t],
        "p_slow": rng.choice([0.02, 0.1, 0.2, 0.35]),
        "loss": rng.choice([0.0, 0.0, 0.0, 0.05, 0.15, 0.3]) if allow_loss else 0.0,
        "rules": [],
    }
    if fam == "asym":
        spec["asym"] = {f"{a}>{b}": rng.choice([1, 1, 3, 10, 30]) for a in nodes for b in nodes if a != b}
    if fam == "targeted" and msg_types:
        for _ in range(rng.randrange(1, 5)):
            spec["rules"].append(
                {
                    "src": rng.choice(nodes + [None]),
                    "dst": rng.choice(nodes + [None]),
                    "type": rng.choice(msg_types),
                    "nth": rng.choice([None, 0, 1, 2, 3]),
                    "delay": rng.choice([0.5, 1.0, 1.4, 2.5]) * t,
                    "drop": rng.random() < 0.15,
                }
            )
    return spec

"""Shared pieces of the C12 harness: driver events, partitions, run wrapper, script generation."""

from __future__ import annotations

import random

from hsverif.core import Result, ensure_repo_on_path

ensure_repo_on_path()

from happysimulator.core.event import Event  # noqa: E402
from happysimulator.core.simulation import Simulation  # noqa: E402
from happysimulator.core.temporal import Instant  # noqa: E402

from hsverif.chaosnet import DelayScript, build_network, random_script  # noqa: E402,F401
from hsverif.probe import EngineProbe  # noqa: E402


def at(t: float, label: str, fn) -> Event:
    """Driver event: calls fn(event) at simulated time t (non-daemon)."""
    return Event.once(time=Instant.from_seconds(t), event_type=label, fn=fn)


def schedule_partitions(sim, net, by_name: dict, partitions: list[dict]):
    """partitions: [{"at": t, "heal_at": t2|None, "a": [names], "b": [names], "asym": bool}]"""
    for i, p in enumerate(partitions):
        box: dict = {}

        def cut(ev, p=p, box=box):
            box["p"] = net.partition(
                [by_name[x] for x in p["a"]], [by_name[x] for x in p["b"]], asymmetric=bool(p.get("asym"))
            )

        def heal(ev, box=box):
            if "p" in box:
                box["p"].heal()

        sim.schedule(at(p["at"], f"drv-partition-{i}", cut))
        if p.get("heal_at") is not None:
            sim.schedule(at(p["heal_at"], f"drv-heal-{i}", heal))


def gen_partitions(rng: random.Random, names: list[str], t0: float, span: float, pmax: int = 2) -> list[dict]:
    out = []
    for _ in range(rng.choice([0, 0, 0, 1, 1, 2][: 4 + pmax])):
        k = rng.randrange(1, len(names))
        a = rng.sample(names, k)
        b = [x for x in names if x not in a]
        start = round(t0 + rng.uniform(0, span), 6)
        out.append(
            {
                "at": start,
                "heal_at": round(start + rng.uniform(0.05, 0.6) * span, 6) if rng.random() < 0.8 else None,
                "a": sorted(a),
                "b": sorted(b),
                "asym": rng.random() < 0.25,
            }
        )
    return out


def new_network(name: str = "net"):
    from happysimulator.components.network.network import Network

    return Network(name=name)


def mesh(net, nodes: list, script) -> None:
    """Full mesh of ChaosLinks (hsverif.chaosnet) on an existing Network."""
    from happysimulator.distributions.constant import ConstantLatency

    from hsverif.chaosnet import ChaosLink

    for a in nodes:
        for b in nodes:
            if a is not b:
                net.add_link(
                    a,
                    b,
                    ChaosLink(
                        name=f"{a.name}>{b.name}",
                        latency=ConstantLatency(0.0),
                        script=script,
                        src_name=a.name,
                        dst_name=b.name,
                    ),
                )


def fault_free_script(rng: random.Random, lo: float, hi: float) -> dict:
    """Loss-free bounded-delay network: every message takes between lo and hi seconds."""
    return {"seed": rng.randrange(1 << 30), "family": "uniform", "base": [lo, hi], "loss": 0.0, "rules": []}


def run_sim(sim: Simulation, res: Result, instant_cap: int = 20000, total_cap: int = 400000) -> str:
    """Run under the engine probe. Sets res.inconclusive on spin / budget."""
    with EngineProbe(log_deliveries=False, instant_cap=instant_cap, total_cap=total_cap, record_emissions=False) as p:
        status = p.run(sim)
    res.count("events_monitored", p.n_deliveries)
    if status == "spin":
        res.inconclusive = f"frozen clock: {p.spin}"
    elif status == "budget":
        res.inconclusive = "delivery budget exceeded while time was advancing"
    return status


def jsonable(v):
    if isinstance(v, (str, int, float, bool)) or v is None:
        return v
    if isinstance(v, (list, tuple)):
        return [jsonable(x) for x in v]
    if isinstance(v, dict):
        return {str(k): jsonable(x) for k, x in v.items()}
    return repr(v)

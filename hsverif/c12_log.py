"""C12 log-based Paxos (FlexiblePaxosNode, MultiPaxosNode): generator, harness, oracles.

A slot s is *decided at node n* when s <= n.log.commit_index; its value is n.log.get(s).command.
"""

from __future__ import annotations

import random

from hsverif.c12_common import (
    DelayScript,
    Instant,
    Simulation,
    at,
    fault_free_script,
    gen_partitions,
    mesh,
    new_network,
    random_script,
    run_sim,
    schedule_partitions,
)
from hsverif.core import Result

from happysimulator.components.consensus.flexible_paxos import FlexiblePaxosNode
from happysimulator.components.consensus.multi_paxos import MultiPaxosNode
from happysimulator.components.consensus.raft_state_machine import KVStateMachine
from happysimulator.core.event import Event, ProcessContinuation

PREFIX = {"multi": "MultiPaxos", "flex": "FlexPaxos"}
CLASSNAME = {"multi": "MultiPaxosNode", "flex": "FlexiblePaxosNode"}
FALSY = [0, "", False, 0.0, [], {}]
LIVE_HEARTBEATS = 3  # bounded liveness: decided+applied everywhere within this many heartbeat intervals (+ 6 message delays)


class RecordingSM:
    """StateMachine (public constructor argument) that logs every apply; delegates to the real KVStateMachine."""

    def __init__(self, name, applies):
        self.inner = KVStateMachine()
        self.name = name
        self.applies = applies

    def apply(self, command):
        self.applies.append(LogMonitor.cid(command))
        if isinstance(command, dict) and "op" in command:
            return self.inner.apply(command)
        return None  # opaque (e.g. falsy) command: recorded only

    def snapshot(self):
        return self.inner.snapshot()

    def restore(self, snapshot):
        return self.inner.restore(snapshot)


def _msgs(kind):
    p = PREFIX[kind]
    return [p + x for x in ("Prepare", "Promise", "Accept", "Accepted", "Heartbeat", "Nack")]


def quorum_pairs(n: int) -> list[tuple[int, int]]:
    return [(q1, q2) for q1 in range(1, n + 1) for q2 in range(1, n + 1) if q1 + q2 > n]


def gen_log(kind: str):
    def gen(rng: random.Random, tier: str) -> dict:
        n = rng.choice([3, 3, 4, 5, 5])
        names = [f"n{i}" for i in range(n)]
        hb = rng.choice([0.2, 0.5, 1.0])
        case: dict = {"kind": kind, "n": n, "hb": hb, "gseed": rng.randrange(1 << 30)}
        if kind == "flex":
            q1, q2 = rng.choice(quorum_pairs(n))
            case["q1"], case["q2"] = q1, q2
        r_live = rng.random()
        if r_live < 0.10:
            # fault-free hand-over chain on FIFO links (constant delay): leader -> deposed -> (tick while deposed) ->
            # possibly re-elected; each leadership starts only after everything before it is committed everywhere, so the
            # new leader holds the full log (the regime in which the log protocols are not already broken by known findings).
            # Replication is driven like examples/distributed/flexible_paxos_quorums.py (submit + _replicate_slot).
            hi = rng.choice([0.001, 0.01])
            a, b = rng.sample(names, 2)
            c = rng.choice([x for x in names if x not in (a, b)])
            chain = rng.choice([[a, b, a], [a, b, a], [a, b, c, a], [a, b, a, b], [a, b], [a, b, c]])
            t = 0.1
            starts, submits = [], []
            for li, leader in enumerate(chain):
                starts.append({"node": leader, "at": round(t, 6)})
                t += 4 * hi + 0.05 * hb
                k = rng.randrange(0, 3) if li < len(chain) - 1 else rng.randrange(1, 3)
                for _ in range(k):
                    t += rng.uniform(0.2 * hb, 1.2 * hb)
                    submits.append({"to": leader, "at": round(t, 6), "id": f"c{len(submits)}", "kick": True})
                t += 2.5 * hb + rng.uniform(0, hb)
            if submits and rng.random() < 0.3:
                rng.choice(submits)["falsy"] = rng.choice(FALSY)
            case.update(
                mode="live",
                variant="handover",
                script={"seed": rng.randrange(1 << 30), "family": "fixed", "base": [hi, hi], "loss": 0.0, "rules": []},
                max_delay=hi,
                starts=starts,
                submits=submits,
                pre_submits=0,
                partitions=[],
                end=round(t + (LIVE_HEARTBEATS + 3) * hb + 1.0, 6),
            )
            return case
        if r_live < 0.25:
            # fault-free: one leader, commands submitted to the established leader
            hi = rng.choice([0.001, 0.01, 0.02])
            leader = rng.choice(names)
            k = rng.randrange(1, 5)
            t_est = 0.1 + 4 * hi
            kick = rng.random() < 0.6  # driver triggers replication the way the repository's own example does
            case.update(
                mode="live",
                script=fault_free_script(rng, hi / 10, hi),
                max_delay=hi,
                starts=[{"node": leader, "at": 0.1}],
                submits=[
                    {"to": leader, "at": round(t_est + rng.uniform(0, 0.5 * hb) + 0.01 * i, 6), "id": f"c{i}", "kick": kick}
                    for i in range(k)
                ],
                pre_submits=rng.choice([0, 0, 1]),
                partitions=[],
                end=round(t_est + 0.5 * hb + (LIVE_HEARTBEATS + 3) * hb + 1.0, 6),
            )
            if case["pre_submits"]:
                # one command handed to the node before it starts phase 1 (queued, assigned when it becomes leader)
                case["submits"].insert(0, {"to": leader, "at": 0.05, "id": "cpre", "kick": False})
            return case
        t = hb
        script = random_script(rng, names, _msgs(kind), timeout_scale=t * rng.choice([0.1, 0.3, 1.0]))
        nstarts = rng.choice([1, 2, 2, 3, 3, 4])
        starts = []
        for _ in range(nstarts):
            starts.append({"node": rng.choice(names), "at": round(0.1 + rng.choice([0.0, rng.uniform(0, 0.1 * t), rng.uniform(0, 4 * t)]), 6)})
        nsub = rng.randrange(1, 9)
        kick = rng.random() < 0.7  # driver triggers replication the way the repository's own example does
        submits = []
        for i in range(nsub):
            submits.append(
                {
                    "to": rng.choice(["@leader", "@leader", "@leader", rng.choice(names)]),
                    "fallback": rng.choice(names),
                    "at": round(0.05 + rng.uniform(0, 5 * t), 6),
                    "id": f"c{i}",
                    "kick": kick,
                }
            )
        submits.sort(key=lambda s: s["at"])
        if rng.random() < 0.3:
            rng.choice(submits)["falsy"] = rng.choice(FALSY)
        case.update(
            mode="chaos",
            script=script,
            starts=sorted(starts, key=lambda s: s["at"]),
            submits=submits,
            partitions=gen_partitions(rng, names, 0.1, 4 * t) if rng.random() < 0.4 else [],
            end=round(0.1 + 9 * t, 6),
        )
        return case

    return gen


def gen_handover(rng: random.Random, tier: str) -> dict:
    """Fault-free Multi-Paxos leader hand-over with client commands swept across the hand-over round trip.

    Constant-delay (FIFO) loss-free links.  `old` is the established leader with slot 1 committed everywhere; `new`
    campaigns at T with a command of its own (queued before start(), or forwarded to it right after its election);
    1-3 client commands are forwarded (MultiPaxosForward) to the OLD leader at offsets between -1.5 and +4.5 link delays
    around T (Prepare arrives at +1, the new leader's first heartbeat at +3), plus one well before and one well after."""
    n = rng.choice([3, 3, 5])
    names = [f"n{i}" for i in range(n)]
    d = rng.choice([0.005, 0.01, 0.02])
    hb = rng.choice([0.2, 0.5])
    old, new = rng.sample(names, 2)
    T = round(0.1 + 3 * hb + rng.uniform(0, hb), 6)
    submits = [{"to": old, "at": 0.05, "id": "c-first", "kick": False}]
    own = rng.choice(["queued", "queued", "forward-after-election"])
    if own == "queued":
        submits.append({"to": new, "at": round(T - 1e-4, 6), "id": "c-new", "kick": False})
    else:
        submits.append({"to": new, "at": round(T + 2 * d + rng.uniform(0.0, 1.5 * d), 6), "id": "c-new", "kick": False, "via": "forward"})
    k = rng.choice([1, 1, 2, 3])
    for i in range(k):
        off = rng.uniform(-1.5, 4.5) * d
        submits.append({"to": old, "at": round(T + off, 6), "id": f"c-old{i}", "kick": False, "via": "forward"})
    if rng.random() < 0.5:
        submits.append({"to": old, "at": round(T - rng.uniform(10 * d, 0.9 * hb), 6), "id": "c-early", "kick": False, "via": "forward"})
    if rng.random() < 0.5:
        submits.append({"to": rng.choice([old, new]), "at": round(T + rng.uniform(8 * d, 2 * hb), 6), "id": "c-late", "kick": False, "via": "forward"})
    if rng.random() < 0.2:
        rng.choice(submits)["falsy"] = rng.choice(FALSY)
    submits.sort(key=lambda s_: s_["at"])
    return {
        "kind": "multi",
        "mode": "handover",
        "n": n,
        "hb": hb,
        "gseed": rng.randrange(1 << 30),
        "script": {"seed": rng.randrange(1 << 30), "family": "fixed", "base": [d, d], "loss": 0.0, "rules": []},
        "max_delay": d,
        "old": old,
        "new": new,
        "starts": [{"node": old, "at": 0.1}, {"node": new, "at": T}],
        "submits": submits,
        "partitions": [],
        "end": round(T + 4 * hb + 1.0, 6),
    }


class LogMonitor:
    def __init__(self, res: Result, kind: str, nodes, net, applies):
        self.res = res
        self.kind = kind
        self.comp = CLASSNAME[kind]
        self.p = PREFIX[kind]
        self.nodes = nodes
        self.net = net
        self.by_id = {id(n): n for n in nodes}
        self.applies = applies  # node name -> list of applied command ids
        self.applied_seen = {n.name: 0 for n in nodes}
        self.canon_applies: list = []
        self.submitted: dict = {}  # cmd id -> (time, node)
        self.futures: list = []
        self.reported: dict = {n.name: {} for n in nodes}  # node -> slot -> cmd id
        self.prev_ci = {n.name: 0 for n in nodes}
        self.prev_len = {n.name: 0 for n in nodes}
        self.prev_leader = {n.name: False for n in nodes}
        self.decided: dict = {}  # slot -> (time, node, cmd id)
        self.trace: list = []
        self.flagged: set = set()
        self.n_samples = 0
        self.leader_changes = 0
        self.leaders_seen: set = set()
        # precursors (labels only)
        self.misplaced: dict = {}  # (node, index) -> (slot in message, cmd id)
        self.self_demoted: list = []
        self.promised_entries: dict = {}  # leader name -> {slot: set(cmd ids reported in promises delivered to it)}
        self.commit_trigger: dict = {}  # (node, slot) -> (event type, source)
        self.accepted_from: dict = {}  # (leader, slot) -> [sources]
        self.accept_sent: dict = {}  # (leader, slot) -> [(ballot number, cmd id)]
        self.accept_sent_at: dict = {}  # (leader, slot) -> [(time, ballot number)]
        self.pending_prepare: dict = {}  # node -> (was leader before, is leader after, time) of the last Prepare it handled
        self.led_through_promise: dict = {}  # node -> (time, promised ballot number): still is_leader after answering a Prepare with a Promise
        self.prepare_at: dict = {}  # node -> time a Prepare of another node was first delivered to it while it was leader
        self.first_hb_at: dict = {}  # (node, from) -> time of the first heartbeat of `from` delivered to node
        self.forward_at: list = []  # (time, node, was leader) of MultiPaxosForward deliveries
        self.apply_time: dict = {}  # (node, cmd id) -> time of the apply
        self.withdrawn: dict = {}  # (node, slot) -> event type that made commit_index fall below slot

    @staticmethod
    def cid(command):
        if isinstance(command, dict) and "value" in command:
            return command["value"]
        return "falsy:" + repr(command)  # opaque command (0, "", False, 0.0, [], {}): at most one per case

    def flag(self, oracle, shape, detail, extra=None):
        k = (oracle, shape)
        if k in self.flagged:
            return
        if oracle in ("apply-prefix", "future-value") and ("agreement", shape) in self.flagged and shape != "no-known-precursor":
            # consequence of a decision conflict already reported in this run under the same label
            return
        self.flagged.add(k)
        self.res.add(oracle, self.comp, shape, detail, {"trace": self.trace[-200:], **(extra or {})})

    # ------------------------------------------------------------------
    def on_event(self, ev):
        if isinstance(ev, ProcessContinuation):
            self.sample(ev, None, None)
            return
        tgt = ev.target
        et = ev.event_type
        md = ev.context.get("metadata", {}) if isinstance(ev.context, dict) else {}
        if tgt is self.net:
            if len(self.trace) < 900 and et.startswith(self.p):
                self.trace.append(self._row(ev, "send", md, md.get("destination")))
            if et == self.p + "Accept":
                self.accept_sent.setdefault((md.get("source"), md.get("slot")), []).append(
                    (md.get("ballot_number"), self.cid(md.get("command")))
                )
                self.accept_sent_at.setdefault((md.get("source"), md.get("slot")), []).append(
                    (ev.time.to_seconds(), md.get("ballot_number"))
                )
            elif et == self.p + "Promise":
                pp = self.pending_prepare.pop(md.get("source"), None)
                if pp is not None and pp[0] and pp[1]:
                    # precursor (never a verdict): the node was leader, answered a Prepare with a Promise and is still is_leader
                    self.led_through_promise.setdefault(md.get("source"), (pp[2], md.get("ballot_number")))
            elif et == self.p + "Nack":
                self.pending_prepare.pop(md.get("source"), None)
            self.sample(ev, None, md)
            return
        node = self.by_id.get(id(tgt))
        if node is not None:
            if len(self.trace) < 900:
                self.trace.append(self._row(ev, "recv", md, node.name))
            if et == self.p + "Prepare":
                self.pending_prepare[node.name] = (self.prev_leader[node.name], node.is_leader, ev.time.to_seconds())
                if self.prev_leader[node.name]:
                    self.prepare_at.setdefault(node.name, ev.time.to_seconds())
            elif et == self.p + "Heartbeat" and not md.get("self_heartbeat"):
                self.first_hb_at.setdefault((node.name, md.get("source")), ev.time.to_seconds())
            elif et == self.p + "Forward":
                self.forward_at.append((ev.time.to_seconds(), node.name, self.prev_leader[node.name]))
            if et == self.p + "Promise":
                d = self.promised_entries.setdefault(node.name, {})
                for e in md.get("log_entries", []) or []:
                    d.setdefault(e["index"], set()).add(self.cid(e["command"]))
            elif et == self.p + "Accepted":
                self.accepted_from.setdefault((node.name, md.get("slot")), []).append(md.get("source"))
            elif et == self.p + "Accept":
                slot = md.get("slot")
                before = self.prev_len[node.name]
                after = node.log.last_index
                if slot is not None and slot > before + 1 and after == before + 1:
                    self.misplaced[(node.name, after)] = (slot, self.cid(md.get("command")))
        self.sample(ev, node, md)

    def _row(self, ev, kind, md, dst):
        return [
            round(ev.time.to_seconds(), 6),
            kind,
            ev.event_type[len(self.p):] if ev.event_type.startswith(self.p) else ev.event_type,
            md.get("source"),
            dst,
            md.get("ballot_number"),
            md.get("slot"),
            self.cid(md["command"]) if "command" in md else None,
            md.get("commit_index"),
            "self" if md.get("self_heartbeat") else None,
        ]

    # ------------------------------------------------------------------
    def sample(self, ev, target_node, md):
        self.n_samples += 1
        now = ev.time.to_seconds()
        for n in self.nodes:
            name = n.name
            log = n.log
            ci = log.commit_index
            lead = n.is_leader
            if lead != self.prev_leader[name]:
                if lead:
                    self.leader_changes += 1
                    self.leaders_seen.add(name)
                elif md is not None and target_node is n and md.get("self_heartbeat"):
                    self.self_demoted.append((now, name))
                self.prev_leader[name] = lead
            self.prev_len[name] = log.last_index
            rep = self.reported[name]
            if ci < self.prev_ci[name]:
                for s_ in range(ci + 1, self.prev_ci[name] + 1):
                    self.withdrawn.setdefault((name, s_), ev.event_type)
                self.flag(
                    "stability",
                    self.label_stability(name, ci + 1, ev, md),
                    f"{name}: commit_index went back from {self.prev_ci[name]} to {ci} at t={now} (slots {ci + 1}..{self.prev_ci[name]} were reported decided: "
                    f"{[rep.get(s) for s in range(ci + 1, self.prev_ci[name] + 1)]})",
                )
            if ci == self.prev_ci[name] and not rep:
                continue
            for s in range(1, ci + 1):
                e = log.get(s)
                c = self.cid(e.command) if e is not None else None
                old = rep.get(s)
                if old is None and s not in rep:
                    rep[s] = c
                    self.res.count("decisions_checked")
                    self.commit_trigger[(name, s)] = (ev.event_type, md.get("source") if md else None)
                    if c not in self.submitted:
                        self.flag("validity", "unsubmitted-command", f"{name} reports slot {s} decided with {c!r}, never submitted")
                    g = self.decided.get(s)
                    if g is None:
                        self.decided[s] = (now, name, c)
                    elif g[2] != c:
                        self.flag(
                            "agreement",
                            self.label_agreement(s, g[1], name),
                            f"slot {s}: {g[1]} decided {g[2]!r} at t={g[0]}, {name} decided {c!r} at t={now}",
                            {"slot": s},
                        )
                elif old != c:
                    self.flag(
                        "stability",
                        self.label_stability(name, s, ev, md),
                        f"{name}: slot {s} was reported decided with {old!r}, now holds {c!r} (t={now})",
                    )
                    rep[s] = c
            self.prev_ci[name] = ci
        # apply sequences must be prefixes of one another
        for name, seq in self.applies.items():
            k = self.applied_seen[name]
            while k < len(seq):
                self.res.count("applies_checked")
                self.apply_time.setdefault((name, seq[k]), now)
                if k < len(self.canon_applies):
                    if self.canon_applies[k][0] != seq[k]:
                        self.flag(
                            "apply-prefix",
                            self.label_apply(name, seq[k], self.canon_applies[k][1], self.canon_applies[k][0]),
                            f"{name} applied {seq[k]!r} as its apply #{k + 1}; {self.canon_applies[k][1]} applied {self.canon_applies[k][0]!r} there",
                            {"applies": {a: list(b) for a, b in self.applies.items()}},
                        )
                else:
                    self.canon_applies.append((seq[k], name))
                k += 1
            self.applied_seen[name] = k
        for rec in self.futures:
            node, cmd, fut, done = rec
            if done[0]:
                continue
            if len(done) == 1:
                for e in node.log.entries_after(0):
                    if self.cid(e.command) == cmd:
                        done.append(e.index)  # slot the node assigned to this command
                        break
            if not fut.is_resolved:
                continue
            done[0] = True
            self.res.count("futures_checked")
            val = fut.value
            ok = isinstance(val, tuple) and len(val) == 2 and isinstance(val[0], int)
            if ok:
                idx = val[0]
                e = node.log.get(idx)
                if idx > node.log.commit_index or e is None or self.cid(e.command) != cmd:
                    self.flag(
                        "future-value",
                        "future-kept-for-slot-overwritten-by-other-leader"
                        if len(done) > 1 and done[1] == idx and e is not None
                        else "future-slot-does-not-hold-own-command",
                        f"submit({cmd!r}) on {node.name} resolved with {val!r}; slot {idx} holds "
                        f"{self.cid(e.command) if e else None!r}, commit_index={node.log.commit_index}",
                    )
                else:
                    g = self.decided.get(idx)
                    if g is not None and g[2] != cmd:
                        self.flag(
                            "future-value",
                            self.label_agreement(idx, g[1], node.name),
                            f"submit({cmd!r}) on {node.name} resolved with slot {idx}, but {g[1]} decided {g[2]!r} in that slot",
                        )
            else:
                self.flag("future-value", "future-not-(slot,result)", f"submit({cmd!r}) resolved with {val!r}")

    # ------------------------------------------------------------------
    # labels: structural precondition of the witness, computed from the observed history
    def label_agreement(self, slot, a, b) -> str:
        # a node that stayed leader through its own Promise and afterwards sent an Accept for this slot under a ballot
        # not above the one it promised (0 occurrences of the precursor on the unchanged tree)
        for (leader, s), sent in self.accept_sent_at.items():
            lp = self.led_through_promise.get(leader)
            if s == slot and lp is not None and any(t >= lp[0] and (bn is None or lp[1] is None or bn <= lp[1]) for t, bn in sent):
                return "leader-kept-leading-after-promising-higher-ballot"
        for x in (a, b):
            if (x, slot) in self.misplaced:
                return "accept-for-later-slot-appended-at-log-end"
        # did a leader send its own command for a slot for which a promise it received reported another command?
        for (leader, s), sent in self.accept_sent.items():
            if s != slot:
                continue
            rep = self.promised_entries.get(leader, {}).get(slot, set())
            for _, c in sent:
                if rep and c not in rep:
                    return "new-leader-overwrites-slot-reported-in-promise"
        for x in (a, b):
            tr = self.commit_trigger.get((x, slot))
            if tr and tr[0] in (self.p + "Heartbeat", self.p + "Accept") and tr[1] not in (None, x):
                return "follower-commit-index-advanced-over-divergent-entry"
        vals = {c for (ld, s), sent in self.accept_sent.items() if s == slot for _, c in sent}
        if len(vals) >= 2:
            return "two-leaders-proposed-different-commands-for-slot"
        return "no-known-precursor"

    def label_stability(self, name, slot, ev, md) -> str:
        if ev.event_type == self.p + "Accept" and md is not None:
            return "committed-entry-truncated-by-accept-of-other-ballot"
        if self.withdrawn.get((name, slot)) == self.p + "Accept":
            # the slot was un-committed by a truncating Accept earlier and is now committed again with another command
            return "committed-entry-truncated-by-accept-of-other-ballot"
        return "no-known-precursor"

    def label_apply(self, name, cmd, other, other_cmd) -> str:
        """Label of the decision conflict behind two diverging apply sequences."""
        slots = [s for s, c in self.reported[name].items() if c == cmd] + [
            s for s, c in self.reported[other].items() if c == other_cmd
        ]
        for s in slots:
            lab = self.label_agreement(s, name, other)
            if lab != "no-known-precursor":
                return lab
        for s in slots:
            for x in (name, other):
                if self.withdrawn.get((x, s)) == self.p + "Accept":
                    return "committed-entry-truncated-by-accept-of-other-ballot"
        return "no-known-precursor"


def run_log(kind: str):
    cls = MultiPaxosNode if kind == "multi" else FlexiblePaxosNode
    comp = CLASSNAME[kind]

    def run(case: dict) -> Result:
        res = Result()
        random.seed(case["gseed"])
        n = case["n"]
        script = DelayScript({**case["script"], "keep_log": False})
        net = new_network()
        applies: dict = {}
        nodes = []
        for i in range(n):
            name = f"n{i}"
            applies[name] = []
            kw = dict(name=name, network=net, state_machine=RecordingSM(name, applies[name]), heartbeat_interval=case["hb"])
            if kind == "flex":
                kw.update(phase1_quorum=case["q1"], phase2_quorum=case["q2"])
            nodes.append(cls(**kw))
        mesh(net, nodes, script)
        for nd in nodes:
            nd.set_peers(nodes)
        by_name = {nd.name: nd for nd in nodes}
        sim = Simulation(entities=[net, *nodes], end_time=Instant.from_seconds(case["end"]))
        mon = LogMonitor(res, kind, nodes, net, applies)

        for s in case["starts"]:
            sim.schedule(at(s["at"], "drv-start", lambda ev, nd=by_name[s["node"]]: nd.start()))
        submit_info = []
        for sub in case["submits"]:

            def do(ev, sub=sub):
                if sub["to"] == "@leader":
                    node = next((nd for nd in nodes if nd.is_leader), None) or by_name[sub["fallback"]]
                else:
                    node = by_name[sub["to"]]
                if "falsy" in sub:
                    cmd = sub["falsy"]  # a falsy command object (legal: submit(command: Any), state machine is the user's)
                    sub = {**sub, "id": LogMonitor.cid(cmd)}
                else:
                    cmd = {"op": "set", "key": f"k{len(mon.submitted) % 3}", "value": sub["id"]}
                mon.submitted[sub["id"]] = (ev.time.to_seconds(), node.name)
                if sub.get("via") == "forward":
                    # client command handed to a node as a MultiPaxosForward event (the component's own event interface;
                    # a leader assigns a slot and replicates it, a non-leader ignores it); no future is exposed on this path
                    return [Event(time=ev.time, event_type="MultiPaxosForward", target=node, context={"metadata": {"command": cmd}})]
                was_leader = node.is_leader
                fut = node.submit(cmd)
                mon.futures.append((node, sub["id"], fut, [False]))
                submit_info.append((sub["id"], node.name, was_leader, ev.time.to_seconds()))
                if sub.get("kick") and was_leader:
                    # what examples/distributed/flexible_paxos_quorums.py does after submit()
                    return node._replicate_slot(node.log.last_index)
                return None

            sim.schedule(at(sub["at"], "drv-submit", do))
        schedule_partitions(sim, net, by_name, case.get("partitions", []))
        sim.control.on_event(mon.on_event)
        status = run_sim(sim, res)
        res.count("samples", mon.n_samples)
        res.count("leader_changes", mon.leader_changes)
        if status != "completed":
            return res
        if mon.decided:
            res.count("runs_with_decision")
        if mon.led_through_promise:
            res.count("precursor_leader_kept_leading_after_promise", len(mon.led_through_promise))
        if case["mode"] == "handover":
            res.count("handover_runs")
            old = case["old"]
            t_prep = mon.prepare_at.get(old)
            t_hb = mon.first_hb_at.get((old, case["new"]))
            in_window = [f for f in mon.forward_at if f[1] == old and t_prep is not None and t_prep <= f[0] and (t_hb is None or f[0] <= t_hb)]
            if in_window:
                res.count("forwards_inside_handover_window", len(in_window))
            # non-trivial: the hand-over happened and a client command reached the old leader between the Prepare it
            # answered and the new leader's first heartbeat
            res.nontrivial = len(mon.leaders_seen) >= 2 and bool(in_window) and bool(mon.decided)
            return res
        if case["mode"] == "live":
            res.count("liveness_runs")
            if case.get("variant") == "handover":
                res.count("handover_liveness_runs")
                if len(mon.leaders_seen) < len(set(s["node"] for s in case["starts"])):
                    res.inconclusive = "hand-over case: a scheduled leader never became leader"
                    return res
            hi = case["max_delay"]
            missing = []
            for cid_, node_name, was_leader, t_sub in submit_info:
                if cid_ == "cpre":
                    continue
                if not was_leader:
                    res.inconclusive = "liveness case: target was not leader at submit time"
                    return res
                bound = t_sub + LIVE_HEARTBEATS * case["hb"] + 6 * hi
                for nd in nodes:
                    t_ap = mon.apply_time.get((nd.name, cid_))
                    if t_ap is None or t_ap > bound + 1e-9:
                        missing.append((cid_, nd.name, t_ap))
            by_shape: dict = {}
            for cid_, nname, t_ap in missing:
                sent = any(c == cid_ for v in mon.accept_sent.values() for _, c in v)
                if not sent:
                    shape = "submit-to-established-leader-never-replicated"
                elif any(k[0] == nname for k in mon.misplaced):
                    shape = "accept-for-later-slot-appended-at-log-end"
                elif mon.self_demoted:
                    shape = "leader-demoted-by-own-heartbeat"
                else:
                    shape = "no-known-precursor"
                by_shape.setdefault(shape, []).append((cid_, nname, t_ap))
            for shape, miss in by_shape.items():
                res.add(
                    "bounded-liveness",
                    comp,
                    shape,
                    f"commands submitted to the established leader not applied (command, node, apply time) {miss[:8]} within "
                    f"{LIVE_HEARTBEATS} heartbeat intervals + 6 message delays on a loss-free network (max delay {hi}s); "
                    f"self-demotions={mon.self_demoted[:2]}",
                    {"trace": mon.trace[-80:], "submits": submit_info},
                )
            if not missing:
                res.count("liveness_held")
            res.nontrivial = bool(mon.decided)
        else:
            res.nontrivial = len(mon.leaders_seen) >= 2 and bool(mon.decided)
            if len(mon.leaders_seen) >= 2:
                res.count("runs_with_leader_takeover")
        return res

    return run

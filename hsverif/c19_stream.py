"""C19 / EventLog and ConsumerGroup inside real simulations, plus direct calls of the assignment strategies."""

from __future__ import annotations

import random

from hsverif.core import Result, ensure_repo_on_path

ensure_repo_on_path()

from happysimulator.components.datastore.sharded_store import ConsistentHashSharding, HashSharding, RangeSharding  # noqa: E402
from happysimulator.components.streaming import (  # noqa: E402
    ConsumerGroup,
    EventLog,
    RangeAssignment,
    RoundRobinAssignment,
    SizeRetention,
    StickyAssignment,
    TimeRetention,
)
from happysimulator.core.entity import Entity  # noqa: E402
from happysimulator.core.event import Event  # noqa: E402
from happysimulator.core.simulation import Simulation  # noqa: E402
from happysimulator.core.temporal import Duration, Instant  # noqa: E402

from hsverif.probe import EngineProbe  # noqa: E402

MS = 1_000_000


def _sharding(name):
    if name == "range":
        return RangeSharding()
    if name == "consistent":
        return ConsistentHashSharding()
    return HashSharding()


def _keys(rng, n):
    style = rng.choice(["short", "user", "mixed", "same"])
    out = []
    for i in range(n):
        if style == "short":
            out.append(chr(97 + rng.randrange(26)) * rng.randint(1, 2))
        elif style == "user":
            out.append(f"user-{rng.randrange(1000)}")
        elif style == "same":
            out.append("only-key")
        else:
            out.append(rng.choice(["", "a", "Z", "zz", "0", "key/1", "ключ", f"k{i}"]))
    return sorted(set(out))


# ==========================================================================
# EventLog


def gen_eventlog(rng: random.Random, tier: str) -> dict:
    nparts = rng.randint(1, 8)
    keys = _keys(rng, rng.randint(1, 10))
    retention = rng.choice([None, None, ["size", rng.choice([1, 2, 5])], ["time", rng.choice([0.02, 0.1, 0.5])]])
    ops = []
    t = 1
    val = 0
    for _ in range(rng.choice([3, 10, 30, 60])):
        t += rng.choice([0, 0, 1, 2, 10, 50, 200])
        if rng.random() < 0.7:
            ops.append({"t": t, "op": "append", "key": rng.choice(keys), "val": val})
            val += 1
        else:
            ops.append(
                {"t": t, "op": "read", "p": rng.randrange(nparts + 1) - (1 if rng.random() < 0.1 else 0), "off": rng.choice([0, 0, 1, 2, 5, 50]), "max": rng.choice([1, 2, 5, 100])}
            )
    return {
        "num_partitions": nparts,
        "sharding": rng.choice(["hash", "hash", "range", "consistent"]),
        "retention": retention,
        "retention_check_interval": rng.choice([0.01, 0.05, 0.3]),
        "append_latency": rng.choice([0.0, 0.001, 0.02]),
        "read_latency": rng.choice([0.0, 0.0005, 0.03]),
        "ops": ops,
    }


class _LogClient(Entity):
    def __init__(self, name, ctx):
        super().__init__(name)
        self.ctx = ctx

    def handle_event(self, event):
        op = event.context["op"]
        log = self.ctx["log"]
        t0 = self.now.nanoseconds
        if op["op"] == "append":
            rec = yield from log.append(op["key"], op["val"])
            self.ctx["appends"].append({"t0": t0, "t1": self.now.nanoseconds, "key": op["key"], "val": op["val"], "rec": rec})
        else:
            recs = yield from log.read(op["p"], op["off"], op["max"])
            self.ctx["reads"].append({"t0": t0, "t1": self.now.nanoseconds, "op": op, "recs": recs})
        return None


def run_eventlog(case: dict) -> Result:
    res = Result()
    comp = "EventLog"
    ret = case.get("retention")
    policy = None
    if ret and ret[0] == "size":
        policy = SizeRetention(int(ret[1]))
    elif ret and ret[0] == "time":
        policy = TimeRetention(float(ret[1]))
    nparts = int(case["num_partitions"])
    interval = float(case["retention_check_interval"])
    log = EventLog(
        "log",
        num_partitions=nparts,
        sharding_strategy=_sharding(case["sharding"]),
        retention_policy=policy,
        append_latency=float(case["append_latency"]),
        read_latency=float(case["read_latency"]),
        retention_check_interval=interval,
    )
    ctx = {"log": log, "appends": [], "reads": []}
    cl = _LogClient("client", ctx)
    ops = sorted(case["ops"], key=lambda o: o["t"])
    t_last = ops[-1]["t"] if ops else 1
    end_ms = t_last + 100 + int(3 * interval * 1000)
    sim = Simulation(entities=[log, cl], end_time=Instant(end_ms * MS))
    for op in ops:
        sim.schedule(Event(time=Instant(op["t"] * MS), event_type="op", target=cl, context={"op": op}))

    shape_ret = "retention=" + (ret[0] if ret else "none")
    mon = {"prev_t": 0, "snaps": [], "hw": [0] * nparts, "reported": set()}

    def report(oracle, shape, detail):
        if (oracle, shape) in mon["reported"]:
            return
        mon["reported"].add((oracle, shape))
        res.add(oracle, comp, shape, detail)

    def end_of_instant(t):
        snap = []
        for part in log.partitions:
            offs = [r.offset for r in part.records]
            hw = log.high_watermark(part.id)
            res.count("partition_snapshots")
            if offs and (offs != list(range(offs[0], offs[0] + len(offs))) or offs[-1] != hw - 1):
                report("offsets-not-gap-free", shape_ret, f"t={t}ns partition {part.id} holds offsets {offs[:30]} with high watermark {hw}")
            if hw < mon["hw"][part.id]:
                report("high-watermark-decreased", shape_ret, f"partition {part.id}: {mon['hw'][part.id]} -> {hw} at {t}ns")
            mon["hw"][part.id] = hw
            snap.append({"offs": offs, "ts": {r.offset: r.timestamp for r in part.records}, "hw": hw})
        mon["snaps"].append((t, snap))

    def on_advance(new_time):
        end_of_instant(mon["prev_t"])
        mon["prev_t"] = new_time.nanoseconds

    sim.control.on_time_advance(on_advance)
    with EngineProbe(instant_cap=20000, total_cap=300000) as p:
        status = p.run(sim)
    if status != "completed":
        res.inconclusive = f"run status {status}"
        return res
    end_of_instant(mon["prev_t"])
    res.count("events_monitored", p.n_deliveries)

    # ---- what append returned: offsets 0,1,2,... per partition in completion order; key -> one partition
    appends = sorted(ctx["appends"], key=lambda a: a["t1"])
    per_part = {}
    key_part = {}
    by_po = {}
    for a in appends:
        r = a["rec"]
        res.count("appends_checked")
        if r.key != a["key"] or r.value != a["val"]:
            report("append-returned-other-record", shape_ret, f"appended ({a['key']},{a['val']}) got {r}")
        if not 0 <= r.partition < nparts:
            report("partition-out-of-range", "sharding=" + case["sharding"], f"{r}")
        key_part.setdefault(r.key, set()).add(r.partition)
        per_part.setdefault(r.partition, []).append(r.offset)
        by_po[(r.partition, r.offset)] = r
    for k, ps in key_part.items():
        if len(ps) > 1:
            report("key-maps-to-two-partitions", "sharding=" + case["sharding"], f"key {k!r} -> partitions {sorted(ps)}")
    for pid, offs in per_part.items():
        if offs != list(range(len(offs))):
            report("append-offsets-not-0-1-2", shape_ret, f"partition {pid}: appends completed with offsets {offs[:40]}")
        if log.high_watermark(pid) != len(offs):
            report("high-watermark-differs-from-appends", shape_ret, f"partition {pid}: hw {log.high_watermark(pid)} after {len(offs)} appends")
    n_unfinished = sum(1 for o in ops if o["op"] == "append") - len(appends)
    if n_unfinished:
        report("append-never-completed", shape_ret, f"{n_unfinished} appends did not return before end_time")

    # ---- reads
    snaps = mon["snaps"]
    idx_of = {t: i for i, (t, _) in enumerate(snaps)}
    for rd in ctx["reads"]:
        op, recs = rd["op"], rd["recs"]
        res.count("reads_checked")
        offs = [r.offset for r in recs]
        pid = op["p"]
        if not 0 <= pid < nparts:
            if recs:
                report("read-of-unknown-partition-returned-records", shape_ret, f"{op} -> {offs}")
            continue
        if len(recs) > op["max"]:
            report("read-exceeds-max-records", shape_ret, f"{op} -> {len(recs)} records")
        if offs and offs != list(range(offs[0], offs[0] + len(offs))):
            report("read-not-in-offset-order", shape_ret, f"{op} -> offsets {offs}")
        if offs and offs[0] < op["off"]:
            report("read-below-requested-offset", shape_ret, f"{op} -> offsets {offs}")
        for r in recs:
            if r.partition != pid:
                report("read-returned-other-partition", shape_ret, f"{op} -> {r}")
            known = by_po.get((r.partition, r.offset))
            if known is not None and (known.key != r.key or known.value != r.value):
                report("read-differs-from-append", shape_ret, f"{op}: {r} vs appended {known}")
        i = idx_of.get(rd["t1"])
        if i is not None and i > 0:
            before = [o for o in snaps[i - 1][1][pid]["offs"] if o >= op["off"]]
            after = [o for o in snaps[i][1][pid]["offs"] if o >= op["off"]]
            stable = [o for o in before if o in after]
            if stable and after and stable[0] == after[0] and before and before[0] == stable[0]:
                want = stable[: op["max"]]
                if offs[: len(want)] != want:
                    report("read-skips-record", shape_ret, f"{op} at {rd['t1']}ns -> offsets {offs}, partition held {stable[:20]}")

    # ---- retention: only eligible records disappear; after a sweep nothing eligible remains
    if ret:
        kind = ret[0]
        done_at = {}
        for a in appends:
            done_at.setdefault(a["t1"], {}).setdefault(a["rec"].partition, 0)
            done_at[a["t1"]][a["rec"].partition] += 1
        first_done = appends[0]["t1"] if appends else None
        int_ns = Duration.from_seconds(interval).nanoseconds
        for i in range(1, len(snaps)):
            t, snap = snaps[i]
            _, prev = snaps[i - 1]
            is_sweep = first_done is not None and t >= first_done and (t - first_done) % int_ns == 0
            now_s = t / 1e9
            for pid in range(nparts):
                gone = [o for o in prev[pid]["offs"] if o not in snap[pid]["offs"]]
                remaining = snap[pid]["offs"]
                new_here = done_at.get(t, {}).get(pid, 0)
                res.count("retention_checks")
                if kind == "size":
                    m = int(ret[1])
                    if gone and len(remaining) < m:
                        report("retention-removed-too-much", shape_ret, f"partition {pid} at {t}ns: removed {gone}, {len(remaining)} < max_records {m} left")
                    if is_sweep and len(remaining) > m + new_here:
                        report("retention-not-applied", shape_ret, f"partition {pid} at sweep {t}ns holds {len(remaining)} > max_records {m}")
                else:
                    age = float(ret[1])
                    for o in gone:
                        ts = prev[pid]["ts"][o]
                        if now_s - ts < age - 1e-9:
                            report("retention-removed-young-record", shape_ret, f"partition {pid} offset {o} aged {now_s - ts:.6f}s < {age}s removed at {t}ns")
                    if is_sweep:
                        old = [o for o in remaining if now_s - snap[pid]["ts"][o] >= age + 1e-9]
                        if old:
                            report("retention-not-applied", shape_ret, f"partition {pid} at sweep {t}ns still holds expired offsets {old[:10]}")
        res.count("records_expired", log.stats.records_expired)
    res.nontrivial = len(appends) >= 3 and max((len(v) for v in per_part.values()), default=0) >= 2
    return res


# ==========================================================================
# ConsumerGroup


class _SparseFirstMember:
    """Round 8: a user-supplied assignment strategy (the protocol is public).  Every partition goes to the first member
    in name order and members that get nothing are left out of the mapping, which the group tolerates
    (`assignments.get(name, [])`).  A member that loses everything in a rebalance must then own nothing (C19-r8-1:
    `_rebalance` merged the new table into the old one, so the omitted member kept its partitions and every partition
    had two owners)."""

    def assign(self, partitions, consumers):
        if not consumers:
            return {}
        return {sorted(consumers)[0]: sorted(partitions)}


STRATS = {"range": RangeAssignment, "roundrobin": RoundRobinAssignment, "sticky": StickyAssignment, "user_sparse": _SparseFirstMember}


def gen_group(rng: random.Random, tier: str) -> dict:
    nparts = rng.randint(1, 8)
    nmem = rng.randint(1, 4)
    keys = _keys(rng, rng.randint(1, 10))
    rebalance_delay = rng.choice([0.0, 0.001, 0.05, 0.5])
    ops = []
    t = 1
    val = 0
    for _ in range(rng.choice([4, 10, 25, 50])):
        t += rng.choice([0, 1, 5, 20, 100, int(rebalance_delay * 1000)])
        kind = rng.choices(
            ["join", "leave", "poll", "commit", "append", "stale_commit", "seek", "co_commit", "restart"], weights=[3, 2, 4, 3, 5, 1, 1, 2, 2]
        )[0]
        if kind == "append":
            ops.append({"t": t, "op": "append", "key": rng.choice(keys), "val": val})
            val += 1
        elif kind == "poll":
            ops.append({"t": t, "op": "poll", "m": rng.randrange(nmem), "max": rng.choice([1, 2, 5, 100])})
        elif kind == "restart":
            # a consumer restart: the old instance's leave is still in progress (sent by another entity) when the new
            # instance joins again under the SAME name, `gap_ms` later (inside the rebalance delay, at its end, or after it)
            rd_ms = int(rebalance_delay * 1000)
            ops.append({"t": t, "op": "restart", "m": rng.randrange(nmem), "gap_ms": rng.choice([0, 0, 1, rd_ms // 2, rd_ms, rd_ms + 1])})
        elif kind == "co_commit":
            # 2-3 worker entities commit for the same member at the same nanosecond (one partition each, or one partition twice)
            ops.append({"t": t, "op": "co_commit", "m": rng.randrange(nmem), "k": rng.choice([2, 2, 3]), "mode": rng.choice(["split", "split", "same"])})
        elif kind == "seek":
            # purely local: the member rewinds / clears its own read positions, nothing is committed
            ops.append({"t": t, "op": "seek", "m": rng.randrange(nmem), "mode": rng.choice(["rewind", "clear", "drop"])})
        else:
            ops.append({"t": t, "op": kind, "m": rng.randrange(nmem)})
    calls = []
    names = [f"m{i}" for i in range(6)]
    for _ in range(rng.randint(1, 8)):
        calls.append([sorted(rng.sample(range(10), rng.randint(0, 10))), sorted(rng.sample(names, rng.randint(0, 6)))])
    return {
        "num_partitions": nparts,
        "n_members": nmem,
        "strategy": rng.choice(sorted(STRATS)),
        "rebalance_delay": rebalance_delay,
        "poll_latency": rng.choice([0.0, 0.001, 0.02]),
        "ops": ops,
        "strategy_calls": calls,
        # members that hand their live `position` dict to commit() (and keep mutating it afterwards)
        "live_dict_members": [i for i in range(nmem) if rng.random() < 0.5],
    }


class _Member(Entity):
    """A sequential group member: one operation at a time, commits only move forward."""

    def __init__(self, name, ctx):
        super().__init__(name)
        self.ctx = ctx
        self.busy = False
        self.backlog = []
        self.position = {}  # partition -> next offset (from what it polled)
        self.committed = {}  # partition -> highest offset it committed
        self.live_dict = False

    def handle_event(self, event):
        op = event.context["op"]
        if self.busy:
            self.backlog.append(op)
            return None
        return self._work(op)

    def _work(self, op):
        self.busy = True
        group = self.ctx["group"]
        hist = self.ctx["hist"]
        while op is not None:
            t0 = self.now.nanoseconds
            kind = op["op"]
            if kind == "join":
                assigned = yield from group.join(self.name, self)
                hist.append({"op": "join", "m": self.name, "t0": t0, "t1": self.now.nanoseconds, "assigned": list(assigned)})
            elif kind == "leave":
                yield from group.leave(self.name)
                hist.append({"op": "leave", "m": self.name, "t0": t0, "t1": self.now.nanoseconds})
            elif kind == "poll":
                recs = yield from group.poll(self.name, max_records=op["max"])
                hist.append(
                    {
                        "op": "poll",
                        "m": self.name,
                        "t0": t0,
                        "t1": self.now.nanoseconds,
                        "max": op["max"],
                        "recs": [(r.partition, r.offset, r.value) for r in recs],
                        "committed": dict(self.committed),
                    }
                )
                for r in recs:
                    self.position[r.partition] = max(self.position.get(r.partition, 0), r.offset + 1)
            elif kind == "commit" and self.live_dict:
                # commits its live positions dict (the object itself, as `commit(name, self.positions)` does);
                # entries below what was committed before are stale and must be ignored by the group
                if self.position:
                    sent = dict(self.position)
                    yield from group.commit(self.name, self.position)
                    for p_, o_ in sent.items():
                        self.committed[p_] = max(self.committed.get(p_, 0), o_)
                    self.ctx["live_dict_commits"] = self.ctx.get("live_dict_commits", 0) + 1
                    hist.append({"op": "live_commit", "m": self.name, "t0": t0, "t1": self.now.nanoseconds, "offsets": sent})
            elif kind == "commit":
                offs = {p: o for p, o in self.position.items() if o > self.committed.get(p, 0)}
                if offs:
                    yield from group.commit(self.name, dict(offs))
                    self.committed.update(offs)
                    hist.append({"op": "commit", "m": self.name, "t0": t0, "t1": self.now.nanoseconds, "offsets": dict(offs)})
            elif kind == "restart":
                worker = self.ctx["committers"][0]
                leave_ev = Event(time=self.now, event_type="do_leave", target=worker, context={"name": self.name})
                self.ctx["restarts"] = self.ctx.get("restarts", 0) + 1
                yield op.get("gap_ms", 0) / 1000.0, [leave_ev]
                assigned = yield from group.join(self.name, self)
                hist.append({"op": "join", "m": self.name, "t0": t0, "t1": self.now.nanoseconds, "assigned": list(assigned), "restart": True})
            elif kind == "co_commit":
                # per-partition workers of this member commit at the same instant, each through its own entity
                todo = {p_: o_ for p_, o_ in self.position.items() if o_ > 0}
                if todo:
                    workers = self.ctx["committers"]
                    k = min(int(op.get("k", 2)), len(workers))
                    parts = [dict() for _ in range(k)]
                    if op.get("mode") == "same" or len(todo) == 1:
                        top = max(todo, key=lambda p_: todo[p_])
                        for j in range(k):
                            parts[j][top] = max(0, todo[top] - j)  # the same partition, newest offset first
                        todo = {top: todo[top]}
                    else:
                        for j, p_ in enumerate(sorted(todo)):
                            parts[j % k][p_] = todo[p_]
                    evs = [
                        Event(time=self.now, event_type="do_commit", target=workers[j], context={"name": self.name, "offsets": parts[j]})
                        for j in range(k)
                        if parts[j]
                    ]
                    for p_, o_ in todo.items():
                        self.committed[p_] = max(self.committed.get(p_, 0), o_)
                    self.ctx["last_risky"][self.name] = "concurrent-commits"
                    self.ctx["co_commits"] = self.ctx.get("co_commits", 0) + len(evs)
                    hist.append({"op": "co_commit", "m": self.name, "t0": t0, "t1": t0, "parts": parts})
                    yield 1e-6, evs  # the member itself goes on one microsecond later, when all of them are done
            elif kind == "seek":
                # local only: no commit is sent, the group's committed offsets must not move
                if self.position:
                    mode = op.get("mode", "rewind")
                    if mode == "clear":
                        self.position.clear()
                    else:
                        top = max(self.position, key=lambda p_: self.position[p_])
                        if mode == "drop":
                            del self.position[top]
                        else:
                            self.position[top] = self.position[top] // 3
                    self.ctx["local_seeks"] = self.ctx.get("local_seeks", 0) + 1
                    self.ctx["last_risky"][self.name] = "local-seek"
                    hist.append({"op": "seek", "m": self.name, "t0": t0, "t1": t0, "mode": mode})
            elif kind == "stale_commit":
                # a late / duplicated commit of an older position (e.g. overtaken on the way): must be ignored
                offs = {p: max(0, o - 1) for p, o in self.committed.items() if o > 0}
                if offs:
                    self.ctx["stale_commit_sent"] = True
                    self.ctx["last_risky"][self.name] = "stale-commit"
                    yield from group.commit(self.name, dict(offs))
                    hist.append({"op": "stale_commit", "m": self.name, "t0": t0, "t1": self.now.nanoseconds, "offsets": dict(offs)})
            op = self.backlog.pop(0) if self.backlog else None
        self.busy = False
        return None


class _Committer(Entity):
    """A worker that commits offsets on behalf of a group member (its own entity, its own handler)."""

    def __init__(self, name, ctx):
        super().__init__(name)
        self.ctx = ctx

    def handle_event(self, event):
        if event.event_type == "do_leave":
            t0 = self.now.nanoseconds
            yield from self.ctx["group"].leave(event.context["name"])
            self.ctx["hist"].append({"op": "leave", "m": event.context["name"], "t0": t0, "t1": self.now.nanoseconds, "by_worker": True})
            return None
        yield from self.ctx["group"].commit(event.context["name"], dict(event.context["offsets"]))
        return None


class _Producer(Entity):
    def __init__(self, name, ctx):
        super().__init__(name)
        self.ctx = ctx

    def handle_event(self, event):
        op = event.context["op"]
        rec = yield from self.ctx["log"].append(op["key"], op["val"])
        self.ctx["appended"].append(rec)
        return None


def _check_assignment(res, comp, shape, assignment, partitions, members, where):
    """Every partition owned by exactly one of `members` (when there are any)."""
    owners = {}
    for m, parts in assignment.items():
        for pid in parts:
            owners.setdefault(pid, []).append(m)
    bad = False
    for pid, ms in owners.items():
        if len(ms) > 1:
            res.add("partition-owned-twice", comp, shape, f"{where}: partition {pid} owned by {ms}; assignment {assignment}")
            bad = True
    strangers = sorted(set(assignment) - set(members))
    if any(assignment[m] for m in strangers):
        res.add("partition-owned-by-non-member", comp, shape, f"{where}: {strangers} own partitions; members {sorted(members)}; assignment {assignment}")
        bad = True
    if members:
        unowned = sorted(set(partitions) - set(owners))
        extra = sorted(set(owners) - set(partitions))
        if unowned:
            res.add("partition-unowned-after-rebalance", comp, shape, f"{where}: partitions {unowned} have no owner; members {sorted(members)}; assignment {assignment}")
            bad = True
        if extra:
            res.add("unknown-partition-assigned", comp, shape, f"{where}: {extra}")
            bad = True
    return not bad


def run_group(case: dict) -> Result:
    res = Result()
    comp = "ConsumerGroup"
    nparts = int(case["num_partitions"])
    strat_name = case["strategy"]
    shape = "strategy=" + strat_name
    log = EventLog("log", num_partitions=nparts, append_latency=0.0005)
    group = ConsumerGroup(
        "group",
        event_log=log,
        assignment_strategy=STRATS[strat_name](),
        rebalance_delay=float(case["rebalance_delay"]),
        poll_latency=float(case["poll_latency"]),
    )
    ctx = {"group": group, "log": log, "hist": [], "appended": []}
    members = [_Member(f"m{i}", ctx) for i in range(case["n_members"])]
    ctx["last_risky"] = {}
    ctx["committers"] = [_Committer(f"w{j}", ctx) for j in range(3)]
    for i in case.get("live_dict_members", []):
        if i < len(members):
            members[i].live_dict = True
    prod = _Producer("producer", ctx)
    ops = sorted(case["ops"], key=lambda o: o["t"])
    t_last = ops[-1]["t"] if ops else 1
    per_op_ms = int(1000 * (case["rebalance_delay"] + case["poll_latency"])) + 2
    end_ms = t_last + per_op_ms * (len(ops) + sum(1 for o in ops if o["op"] == "restart") + 2) + 100
    sim = Simulation(entities=[log, group, prod, *members, *ctx["committers"]], end_time=Instant(end_ms * MS))
    for op in ops:
        target = prod if op["op"] == "append" else members[op["m"]]
        sim.schedule(Event(time=Instant(op["t"] * MS), event_type="op", target=target, context={"op": op}))

    mon = {"regressed": set(), "inst_union": {}, "gen": group.generation, "prev_t": 0, "committed": {}, "assign_snaps": [], "rebalances": 0, "ok": True}
    parts = list(range(nparts))

    def sample_committed(t, asg):
        """Committed offset per (member, owned partition) = high watermark - consumer_lag; must never decrease."""
        for m in asg:
            lag = group.consumer_lag(m)
            for pid, lg in lag.items():
                c = log.high_watermark(pid) - lg
                key = (m, pid)
                res.count("committed_offsets_sampled")
                if key in mon["committed"] and c < mon["committed"][key][0] and key not in mon["regressed"]:
                    mon["regressed"].add(key)
                    risky = ctx["last_risky"].get(m)
                    if risky == "local-seek":
                        shp = "after-local-change-of-the-dict-passed-to-commit/no-commit-sent"
                    elif risky == "concurrent-commits":
                        shp = "after-several-commits-of-one-member-at-one-instant"
                    elif ctx.get("stale_commit_sent"):
                        shp = "after-stale-or-duplicated-commit"
                    else:
                        shp = shape
                    res.add(
                        "committed-offset-regressed",
                        comp,
                        shp,
                        f"member {m} partition {pid}: committed {mon['committed'][key][0]} (seen {mon['committed'][key][1]}ns) -> {c} at {t}ns "
                        f"(last risky client action of {m}: {risky}; commits that carry a lower offset must be ignored)",
                    )
                mon["committed"][key] = (max(c, mon["committed"].get(key, (0, 0))[0]), t)

    def after_event(_event):
        cur_asg = group.assignments
        sample_committed(group.now.nanoseconds, cur_asg)
        for m_, ps_ in cur_asg.items():
            mon["inst_union"].setdefault(m_, set()).update(ps_)
        g = group.generation
        if g != mon["gen"]:
            mon["gen"] = g
            mon["rebalances"] += 1
            res.count("rebalances_checked")
            good = _check_assignment(res, comp, shape, group.assignments, parts, group.consumers, f"after rebalance #{g} at {group.now.nanoseconds}ns")
            mon["ok"] = mon["ok"] and good

    def end_of_instant(t):
        asg = group.assignments
        # what each member owned at any point of this instant (join, poll and leave can share one instant)
        seen_now = {m_: sorted(ps_ | set(asg.get(m_, []))) for m_, ps_ in mon["inst_union"].items()}
        for m_, ps_ in asg.items():
            seen_now.setdefault(m_, list(ps_))
        mon["inst_union"] = {}
        mon["assign_snaps"].append((t, seen_now))
        owners = {}
        for m, ps in asg.items():
            for pid in ps:
                owners.setdefault(pid, []).append(m)
        for pid, ms in owners.items():
            if len(ms) > 1 and mon["ok"]:
                res.add("partition-owned-twice", comp, shape, f"t={t}ns partition {pid} owned by {ms}")
                mon["ok"] = False
        sample_committed(t, asg)

    def on_advance(new_time):
        end_of_instant(mon["prev_t"])
        mon["prev_t"] = new_time.nanoseconds

    sim.control.on_event(after_event)
    sim.control.on_time_advance(on_advance)
    with EngineProbe(instant_cap=20000, total_cap=300000) as p:
        status = p.run(sim)
    if status != "completed":
        res.inconclusive = f"run status {status}"
        return res
    end_of_instant(mon["prev_t"])
    res.count("events_monitored", p.n_deliveries)

    # ---- member-side history
    snaps = mon["assign_snaps"]
    idx_of = {t: i for i, (t, _) in enumerate(snaps)}
    last_commit = {}
    n_polled = 0
    for hrec in ctx["hist"]:
        m = hrec["m"]
        if hrec["op"] == "commit":
            for pid, o in hrec["offsets"].items():
                if o < last_commit.get((m, pid), 0):
                    res.inconclusive = "harness committed a lower offset"
                last_commit[(m, pid)] = o
        elif hrec["op"] == "join":
            i = idx_of.get(hrec["t1"])
            if i is not None:
                now_asg = snaps[i][1].get(m, [])
                prev_asg = snaps[i - 1][1].get(m, []) if i > 0 else []
                if sorted(hrec["assigned"]) not in (sorted(now_asg), sorted(prev_asg)) and m in group.consumers:
                    res.count("join_reply_differs_from_assignment")
        elif hrec["op"] == "poll":
            res.count("polls_checked")
            i = idx_of.get(hrec["t1"])
            allowed = set()
            if i is not None:
                allowed |= set(snaps[i][1].get(m, []))
                if i > 0:
                    allowed |= set(snaps[i - 1][1].get(m, []))
            per = {}
            for pid, off, _val in hrec["recs"]:
                per.setdefault(pid, []).append(off)
            n_polled += len(hrec["recs"])
            if len(hrec["recs"]) > hrec["max"]:
                res.add("poll-exceeds-max-records", comp, shape, f"{m} asked {hrec['max']} got {len(hrec['recs'])}")
            for pid, offs in per.items():
                if i is not None and pid not in allowed:
                    res.add("polled-unassigned-partition", comp, shape, f"{m} polled partition {pid} at {hrec['t1']}ns; its assignment {sorted(allowed)}")
                if offs != list(range(offs[0], offs[0] + len(offs))):
                    res.add("poll-not-in-offset-order", comp, shape, f"{m} partition {pid}: offsets {offs}")
                want = hrec["committed"].get(pid, 0)
                if offs[0] != want and (m, pid) not in mon["regressed"] and not (ctx.get("stale_commit_sent") and offs[0] < want):  # root cause reported as committed-offset-regressed
                    res.add(
                        "poll-not-from-committed-offset",
                        comp,
                        shape,
                        f"{m} partition {pid}: committed {want}, poll at {hrec['t1']}ns returned offsets {offs[:10]}",
                    )
    unfinished = sum(2 if o["op"] == "restart" else 1 for o in ops if o["op"] in ("join", "leave", "poll", "restart")) - sum(
        1 for x in ctx["hist"] if x["op"] in ("join", "leave", "poll")
    )
    if unfinished:
        res.add("group-operation-never-completed", comp, shape, f"{unfinished} join/leave/poll calls did not return before end_time")

    # ---- the strategies called directly (sticky keeps state between calls)
    strat = STRATS[strat_name]()
    for k, (ps, ms) in enumerate(case.get("strategy_calls", [])):
        out = strat.assign(list(ps), list(ms))
        res.count("strategy_calls_checked")
        _check_assignment(res, type(strat).__name__, "direct-call", out, ps, ms, f"call #{k} assign({ps}, {ms})")
        if ms and sorted(out) != sorted(ms) and strat_name != "user_sparse":
            res.add("assignment-keys-differ-from-members", type(strat).__name__, "direct-call", f"call #{k}: members {ms}, result keys {sorted(out)}")

    res.count("records_polled", n_polled)
    res.count("rebalances", mon["rebalances"])
    joins = sum(1 for x in ctx["hist"] if x["op"] == "join")
    leaves = sum(1 for x in ctx["hist"] if x["op"] == "leave")
    res.nontrivial = mon["rebalances"] >= 2 and joins >= 1 and leaves >= 1
    res.seen("strategies", strat_name)
    return res


# ==========================================================================
# StreamProcessor: every record fed in is emitted in a window result or accounted as late


def gen_stream(rng: random.Random, tier: str) -> dict:
    wkind = rng.choice(["tumbling", "tumbling", "sliding", "session"])
    size = rng.choice([0.05, 0.2, 1.0])
    recs = []
    t = 1
    for i in range(rng.choice([1, 4, 12, 40])):
        # event time = processing time minus a lag (sometimes large: late events); sessions get
        # denser, more out-of-order event times so that open sessions are bridged and merged
        if wkind == "session":
            t += rng.choice([0, 1, 5, 30, 80])
            lag = rng.choice([0, 0, 10, 40, 90, 200, 1500])
        else:
            t += rng.choice([0, 1, 5, 30, 200, 700])
            lag = rng.choice([0, 0, 0, 2, 50, 400, 1500])
        recs.append({"t": t, "key": rng.choice(["a", "b", "c"]), "val": i, "et_ms": max(0, t - lag)})
    gap = rng.choice([0.03, 0.1, 0.3])
    if wkind == "session" and rng.random() < 0.5:
        # two open sessions of one key, then a record whose event time bridges them
        g = int(gap * 1000)
        t += rng.choice([1, 50, 2000])
        k = rng.choice(["a", "b"])
        n0 = len(recs)
        recs.append({"t": t, "key": k, "val": n0, "et_ms": t})
        recs.append({"t": t + 1, "key": k, "val": n0 + 1, "et_ms": t + g + g // 2})
        recs.append({"t": t + 2, "key": k, "val": n0 + 2, "et_ms": t + (3 * g) // 4})
    return {
        "window": wkind,
        "size": size,
        "slide": rng.choice([size, size / 2, size / 4]),
        "gap": gap,
        "lateness": rng.choice([0.0, 0.0, 0.1, 1.0]),
        "policy": rng.choice(["drop", "side_output", "update"]),
        "watermark_interval": rng.choice([0.05, 0.25, 1.0]),
        "records": recs,
    }


class _Collector(Entity):
    def __init__(self, name, log):
        super().__init__(name)
        self.log = log

    def handle_event(self, event):
        self.log.append((self.now.nanoseconds, event.event_type, dict(event.context)))
        return None


def run_stream(case: dict) -> Result:
    from happysimulator.components.streaming import LateEventPolicy, SessionWindow, SlidingWindow, StreamProcessor, TumblingWindow

    res = Result()
    comp = "StreamProcessor"
    wk = case["window"]
    if wk == "tumbling":
        win = TumblingWindow(float(case["size"]))
        span = float(case["size"])
    elif wk == "sliding":
        win = SlidingWindow(float(case["size"]), float(case["slide"]))
        span = float(case["size"])
    else:
        win = SessionWindow(float(case["gap"]))
        span = float(case["gap"])
    policy = {"drop": LateEventPolicy.DROP, "side_output": LateEventPolicy.SIDE_OUTPUT, "update": LateEventPolicy.UPDATE}[case["policy"]]
    out_log, side_log = [], []
    out = _Collector("out", out_log)
    side = _Collector("side", side_log)
    wi = float(case["watermark_interval"])
    sp = StreamProcessor(
        "sp",
        window_type=win,
        aggregate_fn=lambda recs: list(recs),
        downstream=out,
        allowed_lateness_s=float(case["lateness"]),
        late_event_policy=policy,
        side_output=side,
        watermark_interval_s=wi,
    )
    recs = sorted(case["records"], key=lambda r: r["t"])
    t_last = recs[-1]["t"] if recs else 1
    n_sessions = len(recs) + 1
    end_ms = t_last + int(1000 * (span * (n_sessions if wk == "session" else 1) + 4 * wi)) + 100
    sim = Simulation(entities=[sp, out, side], end_time=Instant(end_ms * MS))
    for r in recs:
        sim.schedule(
            Event(
                time=Instant(r["t"] * MS),
                event_type="Process",
                target=sp,
                context={"key": r["key"], "value": r["val"], "event_time_s": r["et_ms"] / 1000.0},
            )
        )
    with EngineProbe(instant_cap=20000, total_cap=300000) as p:
        status = p.run(sim)
    if status != "completed":
        res.inconclusive = f"run status {status}"
        return res
    res.count("events_monitored", p.n_deliveries)
    shape = f"window={wk}/policy={case['policy']}"
    in_results = {}
    for t, typ, c in out_log:
        if typ != "WindowResult":
            continue
        res.count("window_results")
        if c.get("record_count") != len(c.get("result", [])):
            res.add("record-count-differs-from-result", comp, shape, f"{c}")
        for v in c["result"]:
            in_results.setdefault(v, []).append((t, c["key"], c["window_start"], c["window_end"]))
    side_vals = [c["value"] for _, typ, c in side_log if typ == "LateEvent"]
    st = sp.stats
    n = len(recs)
    res.count("records_checked", n)
    if st.events_processed != n:
        res.add("processed-count", comp, shape, f"{st.events_processed} processed, {n} fed")
    lost = []
    boundary_lost = []
    for r in recs:
        v = r["val"]
        k = len(in_results.get(v, [])) + side_vals.count(v)
        if k == 0:
            et = r["et_ms"] / 1000.0
            if wk == "sliding" and abs(et / float(case["slide"]) - round(et / float(case["slide"]))) < 1e-6:
                # SlidingWindow.assign_windows returns no window for some event times that are float
                # multiples of the slide (3.5 // 0.05 == 69.0): the record is silently dropped.  Real, but
                # window assignment is not a clause of C19 -> counted, reported in the notes, not a violation.
                res.count("sliding_window_boundary_records_in_no_window")
                boundary_lost.append(v)
                continue
            lost.append(v)
        if v in in_results and any(key != r["key"] for _, key, _, _ in in_results[v]):
            res.add("record-emitted-under-other-key", comp, shape, f"value {v} key {r['key']}: {in_results[v]}")
        if wk != "sliding" and case["policy"] != "update":
            wins = {(a, b) for _, _, a, b in in_results.get(v, [])}
            if len(in_results.get(v, [])) + side_vals.count(v) > 1:
                res.add("record-emitted-twice", comp, shape, f"value {v}: results {in_results.get(v)}, side output {side_vals.count(v)}; windows {sorted(wins)}")
    accounted_late = st.late_events_dropped + (st.late_events_side_output if case["policy"] == "side_output" else 0)
    silently = len(lost) - (st.late_events_dropped if case["policy"] == "drop" else 0)
    if case["policy"] == "side_output" and len(side_vals) != st.late_events_side_output:
        res.add("late-event-not-sent-to-side-output", comp, shape, f"stats say {st.late_events_side_output}, side output received {len(side_vals)}")
    if silently > 0 and sp.active_windows == 0:
        res.add(
            "record-in-no-window-result",
            comp,
            shape,
            f"{len(lost)} of {n} records ({lost[:8]}) are in no window result and no side output; only {accounted_late} were counted late; no window is still open",
        )
    elif silently > 0:
        res.inconclusive = f"{sp.active_windows} windows still open at end_time"
    res.count("late_events", st.late_events)
    res.nontrivial = n >= 2 and st.windows_emitted >= 1
    return res


# ==========================================================================
# Several EventLogs with pluggable sharding strategies, optionally ONE strategy object shared by all of them


def gen_sharedlog(rng: random.Random, tier: str) -> dict:
    n_logs = rng.choice([1, 2, 2, 2, 3])
    sizes = [rng.randint(1, 8) for _ in range(n_logs)]
    if n_logs > 1 and rng.random() < 0.6:
        sizes = rng.sample(range(1, 9), n_logs)  # all different
    kind = rng.choice(["hash", "range", "range_bounds", "consistent", "consistent", "consistent_seed", "consistent_seed"])
    strat = {"kind": kind}
    if kind == "range_bounds":
        strat["boundaries"] = sorted(rng.sample(["b", "f", "k", "m", "user-3", "user-7", "z"], min(sizes) - 1)) if min(sizes) > 1 else []
    if kind.startswith("consistent"):
        strat["vnodes"] = rng.choice([3, 20, 100])
        if kind == "consistent_seed":
            strat["seed"] = rng.choice([0, 7, 12345])
    style = rng.choice(["users", "users", "short"])
    if style == "users":
        keys = [f"user-{i}" for i in range(rng.randint(1, 12))]
    else:
        keys = _keys(rng, rng.randint(1, 10))
    ops = []
    t = 1
    val = 0
    pattern = rng.choice(["rounds", "rounds", "random", "ping-pong"])
    if pattern == "rounds":
        # every key to log 0, then every key to log 1, ... repeated
        for _ in range(rng.randint(1, 4)):
            for li in range(n_logs):
                for k in keys:
                    t += rng.choice([0, 1, 2])
                    ops.append({"t": t, "log": li, "key": k, "val": val})
                    val += 1
    elif pattern == "ping-pong":
        for _ in range(rng.randint(2, 30)):
            k = rng.choice(keys)
            for li in range(n_logs):
                t += rng.choice([0, 1, 3])
                ops.append({"t": t, "log": li, "key": k, "val": val})
                val += 1
    else:
        for _ in range(rng.choice([3, 10, 40, 80])):
            t += rng.choice([0, 1, 5, 20])
            ops.append({"t": t, "log": rng.randrange(n_logs), "key": rng.choice(keys), "val": val})
            val += 1
    return {
        "sizes": sizes,
        "strategy": strat,
        "shared": rng.random() < 0.7,
        "append_latency": rng.choice([0.0, 0.001, 0.004]),
        "ops": ops,
    }


def _make_strategy(spec):
    k = spec["kind"]
    if k == "hash":
        return HashSharding()
    if k == "range":
        return RangeSharding()
    if k == "range_bounds":
        return RangeSharding(boundaries=list(spec.get("boundaries", [])) or None)
    return ConsistentHashSharding(virtual_nodes=int(spec.get("vnodes", 100)), seed=spec.get("seed"))


class _MultiLogClient(Entity):
    def __init__(self, name, logs, out):
        super().__init__(name)
        self.logs = logs
        self.out = out

    def handle_event(self, event):
        op = event.context["op"]
        log = self.logs[op["log"]]
        rec = yield from log.append(op["key"], op["val"])
        self.out.append({"log": op["log"], "key": op["key"], "val": op["val"], "rec": rec, "t1": self.now.nanoseconds})
        return None


def run_sharedlog(case: dict) -> Result:
    res = Result()
    comp = "EventLog"
    sizes = [int(x) for x in case["sizes"]]
    spec = case["strategy"]
    shared = bool(case["shared"]) and len(sizes) > 1
    one = _make_strategy(spec)
    logs = []
    for i, n in enumerate(sizes):
        logs.append(
            EventLog(
                f"log{i}",
                num_partitions=n,
                sharding_strategy=one if shared else _make_strategy(spec),
                append_latency=float(case["append_latency"]),
            )
        )
    distinct_sizes = len(set(sizes)) > 1
    shape = "sharding=" + spec["kind"].replace("_seed", "") + ("/one-strategy-object-shared-by-logs-of-different-size" if shared and distinct_sizes else "/shared-same-size" if shared else "/strategy-per-log")
    out = []
    cl = _MultiLogClient("client", logs, out)
    ops = sorted(case["ops"], key=lambda o: o["t"])
    t_last = ops[-1]["t"] if ops else 1
    sim = Simulation(entities=[*logs, cl], end_time=Instant((t_last + 200) * MS))
    for op in ops:
        sim.schedule(Event(time=Instant(op["t"] * MS), event_type="op", target=cl, context={"op": op}))
    with EngineProbe(instant_cap=20000, total_cap=300000) as p:
        try:
            status = p.run(sim)
        except IndexError as exc:
            res.add("append-raised-partition-out-of-range", comp, shape, f"IndexError during an append: {exc}; sizes {sizes}")
            res.count("shared_appends_checked", len(out))
            return res
    if status != "completed":
        res.inconclusive = f"run status {status}"
        return res
    res.count("events_monitored", p.n_deliveries)
    out.sort(key=lambda a: a["t1"])
    key_parts = {}
    offs = {}
    for a in out:
        r = a["rec"]
        res.count("shared_appends_checked")
        if not 0 <= r.partition < sizes[a["log"]]:
            res.add("partition-out-of-range", comp, shape, f"log{a['log']} ({sizes[a['log']]} partitions): {r}")
        key_parts.setdefault((a["log"], r.key), []).append(r.partition)
        offs.setdefault((a["log"], r.partition), []).append(r.offset)
    moved = {k: v for k, v in key_parts.items() if len(set(v)) > 1}
    if moved:
        (li, key), parts = sorted(moved.items())[0]
        res.add(
            "key-maps-to-two-partitions",
            comp,
            shape,
            f"{len(moved)} of {len(key_parts)} (log, key) pairs changed partition, e.g. log{li} ({sizes[li]} partitions) key {key!r} -> {parts[:8]}; sizes {sizes}",
        )
    # the same through the logs' own contents: records of one key sit in one partition
    for li, log in enumerate(logs):
        where = {}
        for part in log.partitions:
            for r in part.records:
                where.setdefault(r.key, set()).add(part.id)
        for key, ps in where.items():
            res.count("stored_keys_checked")
            if len(ps) > 1 and (li, key) not in moved:
                res.add("key-stored-in-two-partitions", comp, shape, f"log{li} key {key!r} in partitions {sorted(ps)}")
    for (li, pid), o in offs.items():
        if o != list(range(len(o))):
            res.add("append-offsets-not-0-1-2", comp, shape, f"log{li} partition {pid}: {o[:30]}")
    if len(out) != len(ops):
        res.add("append-never-completed", comp, shape, f"{len(ops) - len(out)} appends did not return")
    switches = sum(1 for a, b in zip(ops, ops[1:]) if a["log"] != b["log"])
    res.count("log_switches", switches)
    if shared and distinct_sizes:
        res.count("cases_shared_strategy_different_sizes")
    res.nontrivial = len(out) >= 4 and any(len(v) >= 2 for v in key_parts.values()) and (len(sizes) == 1 or switches >= 3)
    res.seen("sharding_kinds", spec["kind"])
    return res

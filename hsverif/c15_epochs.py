"""C15 multi-epoch histories: use -> crash -> recover -> more use (retries, overwrites, deletes of
pre-crash keys, flushes, compactions, put_sync and put() mixed) -> crash -> recover -> ...

Each epoch runs in a fresh Simulation over the *same* LSMTree / WriteAheadLog objects (a power failure kills
the operations in progress: the interrupted simulation is abandoned).  Simulated time continues across epochs.
The durability oracle is applied to the get_sync sweep after every recovery and to every ordinary read
between crashes.

Case: {"store", "keys", "epochs": [{"pre": [[op, key], ...], "clients": [{start, ops}]}],
       "schedules": [[k_or_"end" per epoch], ...]}
"""

from __future__ import annotations

import gc
import random

from hsverif.c14_harness import (
    Event,
    History,
    Instant,
    Sampler,
    Simulation,
    StoreClient,
    build_store,
    gen_burst_clients,
    gen_client_ops,
    gen_keys,
    gen_lsm_cfg,
    gen_think,
)
from hsverif.c14_oracle import before
from hsverif.core import Result
from hsverif.probe import EngineProbe

MIX = {"put": 0.5, "delete": 0.24, "get": 0.14, "put_sync": 0.06, "get_sync": 0.06}
RESTART_GAP_NS = 1_000_000


# --------------------------------------------------------------------------
# generation


def gen_epochs(rng: random.Random, tier: str) -> dict:
    kind = rng.choice(["size_tiered", "leveled"])
    # pile-up mode (a third of the cases): tiny memtables, a sync policy that leaves an unsynced tail, put_sync from
    # inside the simulation and bursts in every epoch, so that several memtables are in flight at once, one flush
    # call installs more than one SSTable, and crashes at quiescence find operations that were flushed but never synced
    mode = rng.random()
    pile_up = mode < 0.34
    # sync-into-compaction mode (a fifth of the cases): calm generator writers whose flushes start compactions
    # (threshold 2) plus clients that write batches of put_sync, so that a synchronous flush + compaction falls
    # inside the write latency of a running generator compaction and overwrites keys among its inputs
    sync_compact = 0.34 <= mode < 0.56
    policy = rng.choice(["batch", "batch", "periodic"]) if pile_up else rng.choice(["every", "batch", "batch", "periodic"])
    cfg = gen_lsm_cfg(rng, kind, wal=True, wal_policy=policy)
    if rng.random() < 0.15:
        # round 8: one level only, so every compaction rewrites L0 in place while flushes keep installing newer
        # tables into the same level (C15-r8-2: merged table appended behind them, stale value durable after a crash)
        cfg["max_levels"] = 1
    cfg["memtable_size"] = rng.choice([1, 1, 2]) if pile_up else rng.choice([1, 2, 3, 3, 4, 10])
    if sync_compact:
        cfg["memtable_size"] = rng.choice([1, 2, 3])
    if kind == "size_tiered":
        cfg["strategy"]["min_sstables"] = rng.choice([2, 3, 4, 6, 50])
    else:
        cfg["strategy"]["level_0_max"] = rng.choice([2, 3, 4, 6, 50])
    if sync_compact:
        cfg["strategy"]["min_sstables" if kind == "size_tiered" else "level_0_max"] = 2
    keys = gen_keys(rng, 2, 6)
    scale = cfg["sstable_write_latency"]
    mix = dict(MIX)
    if pile_up:
        mix.update(put_sync=0.16, put=0.4)
    elif rng.random() < 0.67:
        mix["put"] += mix.pop("put_sync")  # put_sync from inside the simulation only in a third of the cases
    epochs = []
    for e in range(rng.choice([2, 3, 3, 4])):
        pre = []
        if rng.random() < (0.55 if e == 0 else 0.25):
            for _ in range(rng.randint(2, 14)):
                pre.append([rng.choices(["put_sync", "get_sync"], [0.85, 0.15])[0], rng.choice(keys)])
        clients = []
        n_clients = rng.randint(1, 4)
        total = rng.choice([4, 8, 16, 28])
        for _ in range(n_clients):
            clients.append(
                {"start": gen_think(rng, 2 * scale), "ops": gen_client_ops(rng, keys, max(1, total // n_clients), scale, mix, scans=False)}
            )
        if sync_compact:
            for _ in range(rng.randint(1, 2)):
                ops = []
                for _ in range(rng.randint(2, 5)):
                    batch = [[0.0, "put_sync", rng.choice(keys)] for _ in range(rng.randint(1, 4))]
                    batch[0][0] = gen_think(rng, scale)
                    ops += batch
                    if rng.random() < 0.5:
                        ops.append([gen_think(rng, scale), rng.choice(["get", "get_sync"]), rng.choice(keys)])
                clients.append({"start": gen_think(rng, 2 * scale), "ops": ops})
        if pile_up or rng.random() < 0.4:
            clients += gen_burst_clients(rng, keys, scale, mix, scans=False, max_clients=6)
        if e > 0 and rng.random() < 0.6:
            # a client that re-issues the tail of a previous-epoch program (retry of operations the crash may have lost)
            src = rng.choice(epochs[-1]["clients"])["ops"]
            tail = [[gen_think(rng, scale / 4), *op[1:]] for op in src[-rng.randint(1, 4) :] if op[1] in ("put", "delete")]
            if tail:
                clients.append({"start": 0.0, "ops": tail + [[0.0, "get", tail[-1][2]]]})
        epochs.append({"pre": pre, "clients": clients})
    n_sched = 10 if tier == "quick" else 40
    schedules = []
    for _ in range(n_sched):
        sch = []
        for ep in epochs:
            n_ops = sum(len(c["ops"]) for c in ep["clients"])
            sch.append("end" if rng.random() < (0.6 if pile_up else 0.3) else rng.randrange(0, 5 * n_ops + 3))
        schedules.append(sch)
    return {"store": cfg, "keys": keys, "epochs": epochs, "schedules": schedules}


# --------------------------------------------------------------------------
# oracle


def _bef(a: dict, b: dict) -> bool:
    """a completed (or died in a crash) before b began."""
    if a["epoch"] != b["epoch"]:
        return a["epoch"] < b["epoch"]
    return before(a, b)


def judge(read: dict, writes: list[dict]):
    """Returns (clause | None, admissible values, superseding write | None) for one read of one key."""

    def certain(w):
        if w["epoch"] < read["epoch"]:
            return bool(w["durable"])
        return w["t1"] is not None

    sure = [w for w in writes if certain(w) and _bef(w, read)]
    adm = [] if sure else [None]
    for w in writes:
        if _bef(read, w):
            continue
        if not any(_bef(w, w2) for w2 in sure):
            adm.append(w["val"])
    got = read["res"]
    if got in adm:
        return None, adm, None
    src = [w for w in writes if w["op"] == "put" and w["val"] == got]
    if got is not None and not src:
        return "never-written-value", adm, None
    if got is None:
        return "acknowledged-write-lost", adm, max(sure, key=lambda w: (w["epoch"], w["t0"]))
    sup = [w2 for w2 in sure if _bef(src[0], w2)]
    if not sup:
        return "value-from-the-future", adm, None
    last = max(sup, key=lambda w: (w["epoch"], w["t0"]))
    return ("deleted-value-resurrected" if last["op"] == "delete" else "overwritten-value-resurrected"), adm, last


# --------------------------------------------------------------------------
# execution


def _run_schedule(case: dict, schedule: list, res: Result) -> None:
    cfg = case["store"]
    store, wal = build_store(cfg)
    writes: dict[str, list[dict]] = {}
    now_ns = 0
    crashes = 0
    max_synced = [0]
    policy = cfg["wal"]["policy"]["kind"]
    sync_during_flush = [False]  # sticky: the L0 order it leaves behind survives crashes
    base_path = int(round((cfg["wal"]["write_latency"] + cfg["wal"]["sync_latency"] + 1e-5) * 1e9))

    def report(read, key, clause, adm, sup, sweep):
        src_epoch = next((w["epoch"] for w in writes.get(key, []) if w["val"] == read["res"] and read["res"] is not None), None)
        if sup is None:
            rel = "no-superseding-op"
        elif sup["epoch"] == read["epoch"]:
            rel = "superseded-by-op-acknowledged-after-the-last-recovery"
        else:
            rel = "superseded-by-op-durable-at-an-earlier-crash"
        origin = "absent" if read["res"] is None else ("value-from-before-a-crash" if src_epoch is not None and sup is not None and src_epoch < sup["epoch"] else "value-from-same-epoch")
        if sync_during_flush[0]:
            # put_sync made the memtable flush synchronously while a generator flush of an older memtable was in flight
            shape = "after-put_sync-flush-during-a-generator-flush"
        else:
            shape = f"{'recovery-sweep' if sweep else 'read-between-crashes'}-after-{min(crashes, 2)}{'+' if crashes >= 2 else ''}-crashes-{origin}-{rel}"
        res.add(
            "never-written-value" if clause == "never-written-value" else "acknowledged-or-durable-op-not-reflected",
            "LSMTree",
            shape,
            f"{clause}: epoch {read['epoch']} ({crashes} crashes so far), {'get_sync sweep after recovery' if sweep else 'read'} of {key!r} "
            f"returned {read['res']!r}; admissible {adm}; superseding op: "
            f"{(sup['epoch'], sup['op'], sup['val'], 'durable' if sup.get('durable') else 'acknowledged') if sup else None}",
            {"schedule": schedule, "key": key, "read": read, "writes_to_key": writes.get(key, [])[-10:]},
        )

    for e, ep in enumerate(case["epochs"]):
        hist = History()

        def ledger_factory():
            def ledger(rec):
                rec["seq"] = wal.stats.writes + 1

            return ledger

        # ---- synchronous preamble (bulk load / probes with the latency-free API, no simulation running)
        for i, (op, key) in enumerate(ep["pre"]):
            if op == "put_sync":
                rec = hist.begin(f"pre{e}", i, "put", now_ns, key=key, val=f"p{e}_{i}", sync=True)
                rec["seq"] = wal.stats.writes + 1
                store.put_sync(key, rec["val"])
                hist.end(rec, now_ns)
            else:
                rec = hist.begin(f"pre{e}", i, "get", now_ns, key=key, sync=True)
                hist.end(rec, now_ns, store.get_sync(key))
        base_ns = now_ns + 1000

        # ---- the epoch's simulation
        clients = [StoreClient(e * 100 + j, store, cl["ops"], hist, ledger_factory()) for j, cl in enumerate(ep["clients"])]
        sim = Simulation(start_time=Instant(base_ns), entities=[store, *clients])
        for cl, spec in zip(clients, ep["clients"]):
            sim.schedule(Event(time=Instant(base_ns + int(round(spec["start"] * 1e9))), event_type="go", target=cl))
        sampler = Sampler(store, cfg)
        sampler.hist = hist
        sampler._hist_seen = len(hist.recs)
        sampler.watch_wal(wal)
        sampler.now_ns = base_ns
        sim.control.on_event(sampler.on_event)
        k = schedule[e]
        with EngineProbe(instant_cap=20000, total_cap=50_000, record_emissions=False) as p:

            def drive(sim_=sim, k_=k):
                sim_.control.pause()
                sim_.run()
                if k_ == "end":
                    sim_.control.resume()
                elif k_ > 0:
                    sim_.control.step(k_)

            status = p.run(sim, drive)
        if status != "completed":
            res.count("schedules_abandoned")
            return
        res.count("events_monitored", sampler.events)
        res.count("flush_calls_installing_two_or_more_sstables", sampler.multi_install_events)
        crash_ns = max(sampler.now_ns, base_ns)

        # ---- judge the epoch's ordinary reads, then fix durability of its writes at the crash
        for r in hist.recs:
            r["epoch"] = e
            if r["op"] in ("put", "delete"):
                r["durable"] = None
                writes.setdefault(r["key"], []).append(r)
        for s_ in hist.recs:
            if s_["op"] == "put" and s_.get("sync") and not str(s_["c"]).startswith("pre"):
                for w in hist.recs:
                    if w["op"] in ("put", "delete") and not w.get("sync") and w["t0"] + base_path < s_["t0"] and (w["t1"] is None or w["t1"] >= s_["t0"]):
                        sync_during_flush[0] = True
        for r in hist.recs:
            if r["op"] == "get" and r["t1"] is not None:
                res.count("reads_between_crashes_checked")
                clause, adm, sup = judge(r, writes.get(r["key"], []))
                if clause:
                    report(r, r["key"], clause, adm, sup, sweep=False)
        sampler.observe_wal(crash_ns, "at-crash")
        max_synced[0] = max(max_synced[0], sampler.max_synced)
        synced = max_synced[0]  # highest watermark ever observed, never the value read at crash time
        if wal.stats.writes > synced:
            res.count("crashes_with_unsynced_entries")
        for r in hist.recs:
            if r["op"] in ("put", "delete"):
                r["durable"] = r["seq"] <= synced or (policy == "every" and r["t1"] is not None and not r.get("sync"))
                res.count("durable_ops_at_crash" if r["durable"] else "non_durable_ops_at_crash")
        del sim, clients, drive
        gc.collect()  # closes the abandoned generators (their finally blocks run now, not at a random later time)

        # ---- crash, recover, sweep
        writes_open = any(r["op"] in ("put", "delete") and r["t1"] is None for r in hist.recs)
        state0 = {key: store.get_sync(key) for key in case["keys"]}
        lost = store.crash()
        store.recover_from_crash()
        crashes += 1
        sampler.observe_wal(crash_ns, "across-crash-and-recovery")
        res.count("watermark_observations", sampler.events + 2)
        for d in sampler.synced_decreases[:1]:
            where = d["where"]
            if where == "after-delivery":
                where = "in-a-delivery-that-installed-a-flush" if d["t"] in sampler.flushes else "in-a-delivery-without-flush-install"
            res.add(
                "durable-watermark-decreased",
                "WriteAheadLog",
                where,
                f"epoch {e}: wal.synced_up_to went from {d['from']} to {d['to']} at t={d['t']}ns ({d['where']})",
                {"schedule": schedule, "decreases": sampler.synced_decreases[:5]},
            )
        nothing_volatile = not writes_open and lost["memtable_entries_lost"] == 0 and lost["immutable_memtable_entries_lost"] == 0
        res.count("crash_points_checked")
        now_ns = crash_ns + RESTART_GAP_NS
        state1 = {}
        for key in case["keys"]:
            res.count("keys_checked")
            got = store.get_sync(key)
            state1[key] = got
            read = {"epoch": e + 1, "c": "sweep", "op": "get", "key": key, "t0": now_ns, "s0": 0, "t1": now_ns, "s1": 0, "res": got}
            clause, adm, sup = judge(read, writes.get(key, []))
            if clause:
                report(read, key, clause, adm, sup, sweep=True)
            if nothing_volatile:
                res.count("keys_checked_at_crashes_with_nothing_volatile")
                if got != state0[key]:
                    res.add(
                        "crash-with-nothing-volatile-changes-state",
                        "LSMTree",
                        f"no-write-in-flight-memtables-empty-policy-{cfg['wal']['policy']['kind']}",
                        f"epoch {e}: no write was in flight and crash() reported 0 memtable / immutable-memtable entries lost, i.e. "
                        f"everything visible was in installed SSTables; get_sync({key!r}) was {state0[key]!r} before the crash and is "
                        f"{got!r} after crash+recovery (log replay resurrected or hid something)",
                        {"schedule": schedule, "key": key, "before": state0[key], "after": got, "crash_report": lost, "writes_to_key": writes.get(key, [])[-8:]},
                    )
        store.recover_from_crash()
        for key in case["keys"]:
            if store.get_sync(key) != state1[key]:
                res.add("second-recovery-changes-state", "LSMTree", f"recover-called-twice-after-{min(crashes, 2)}-crashes", f"epoch {e}: {key!r} changed on a second recover_from_crash()", {"schedule": schedule})
        now_ns += 1000
    if crashes >= 2:
        res.nontrivial = True
        res.count("schedules_with_two_or_more_crashes")


def run_epochs(case: dict) -> Result:
    res = Result()
    for sch in case["schedules"]:
        res.count("schedules_run")
        _run_schedule(case, sch, res)
    res.count("workloads_run")
    if not res.obs.get("crash_points_checked"):
        res.inconclusive = "no crash executed"
    return res


def shrink_epochs(case: dict, still_fails) -> dict:
    """Keep one failing schedule, then drop trailing epochs."""
    best = case
    for sch in case["schedules"]:
        c2 = dict(case)
        c2["schedules"] = [sch]
        if still_fails(c2):
            best = c2
            break
    while len(best["epochs"]) > 1:
        c3 = dict(best)
        c3["epochs"] = best["epochs"][:-1]
        c3["schedules"] = [s[:-1] for s in best["schedules"]]
        if still_fails(c3):
            best = c3
        else:
            break
    return best

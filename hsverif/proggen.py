"""Seeded generators (and a shrinker) for the programs of hsverif.progmodel."""

from __future__ import annotations

import copy
import random

from hsverif.core import ddmin
from hsverif.progmodel import NS, InvalidProgram, delay_ns, run_reference

TYPES = ["T0", "T1", "T2", "T3", "T4"]
DT = [0, 0, 0, 1, 999, 1_000_000, NS]
DELAYS = [0.0, 0, 1e-9, 9.99e-7, 1e-3, 1.0, 0.0, 1e-9]
DELAYS_C02 = [0.0, 0, 3e-10, 1e-9, 0.1 + 0.2, 1e-3, 1.0, 1e6, 2.5e-9, 0.7]
BASE_TIMES = [0, 1, 1000, 10**6, 10**9, 10**9 + 1, 2 * 10**9, 10**9 - 1]


def _evspec(rng, n_ent, min_type, handles, allow_past=True, hooks=False, hook_ids=None):
    ti = rng.randrange(min_type, len(TYPES))
    dt = rng.choice(DT)
    if allow_past and rng.random() < 0.04:
        dt = -rng.choice([1, 1000])
    spec = {"dt": dt, "ent": rng.randrange(n_ent), "type": TYPES[ti], "daemon": rng.random() < 0.15, "handle": None}
    if rng.random() < 0.25:
        h = f"h{rng.randrange(6)}"
        spec["handle"] = h
        handles.add(h)
    if hooks and rng.random() < 0.3:
        spec["hooks"] = [_hook(rng, n_ent, min(ti + 1, len(TYPES) - 1), handles, hook_ids) for _ in range(rng.randrange(1, 3))]
    return spec


def _hook(rng, n_ent, min_type, handles, hook_ids):
    hid = hook_ids[0]
    hook_ids[0] += 1
    evs = []
    if min_type < len(TYPES) and rng.random() < 0.5:
        evs = [_evspec(rng, n_ent, min_type, handles, allow_past=False) for _ in range(rng.randrange(1, 3))]
    return {"id": hid, "events": evs}


def gen_program(rng: random.Random, *, futures: bool = False, hooks: bool = False, max_pre: int = 40) -> dict:
    """A finite program: handlers only emit events of strictly higher type index."""
    for _attempt in range(50):
        prog = _gen_program_once(rng, futures=futures, hooks=hooks, max_pre=max_pre)
        try:
            ref = run_reference(prog, max_deliveries=3000)
            if prog.get("end_ns") is not None:
                # the engine delivers one event beyond end_time: the program must be valid then too
                run_reference(prog, max_deliveries=3000, exact_overshoot=True)
        except InvalidProgram:
            continue
        except RuntimeError:
            continue
        if len(ref.log) <= 1200:
            return prog
    return prog


def _gen_program_once(rng, *, futures, hooks, max_pre):
    n_ent = rng.randrange(1, 7)
    handles: set[str] = set()
    hook_ids = [0]
    fut_names = [f"f{i}" for i in range(rng.randrange(1, 9))] if futures else []
    awaited: set[str] = set()
    in_combinators: set[str] = set()  # names used as combinator inputs: may be shared between combinators
    direct: set[str] = set()  # names yielded directly by a process
    value_ids = [100]
    delays = DELAYS_C02 if futures else DELAYS

    def new_value():
        value_ids[0] += 1
        if rng.random() < 0.2:
            # any object is a legal value: falsy ones, None, containers, an exception instance used as data
            kinds = [None, 0, "", False, [], [value_ids[0], [1]], ["<exc>", "TimeoutError", f"t/o {value_ids[0]}"], ["<exc>", "KeyError", "k"]]
            if fut_names:
                # another future object handed over as a plain value (a reply-to future in a mailbox)
                kinds.append(["<fut>", rng.choice(fut_names)])
            return rng.choice(kinds)
        return value_ids[0]

    def fexpr(depth=0):
        # a future may be yielded directly by one process only, but be an input of any number of combinators
        # (also while a process is parked on it: a worker waits on `done`, a watchdog on any_of(done, abort))
        free = [f for f in fut_names if f not in awaited]
        if depth > 0 and (in_combinators or direct) and rng.random() < 0.5:
            f = rng.choice(sorted(in_combinators | direct))
            in_combinators.add(f)
            return f
        if depth == 0 and in_combinators - direct and rng.random() < 0.5:
            f = rng.choice(sorted(in_combinators - direct))
            direct.add(f)
            return f
        if not free:
            return None
        if depth < 3 and len(free) >= 2 and rng.random() < 0.45:
            k = rng.randrange(2, min(4, len(free)) + 1)
            parts = []
            for _ in range(k):
                sub = fexpr(depth + 1)
                if sub is None:
                    break
                parts.append(sub)
            if len(parts) >= 2:
                return {rng.choice(["any", "all"]): parts}
            if parts:
                return parts[0]
            return None
        f = rng.choice(free)
        awaited.add(f)
        if depth > 0:
            in_combinators.add(f)
        else:
            direct.add(f)
        return f

    def body(ti, depth=0):
        out = []
        for _ in range(rng.randrange(0 if depth else 1, 4)):
            r = rng.random()
            if futures and r < 0.3:
                fx = fexpr()
                if fx is not None:
                    out.append({"op": "await", "f": fx})
                    continue
            if futures and r < 0.45 and fut_names:
                out.append({"op": "resolve", "f": rng.choice(fut_names), "v": new_value()})
                continue
            if r < 0.52 and handles:
                out.append({"op": "cancel", "h": [rng.choice(sorted(handles))]})
                continue
            if futures and depth < 3 and r < 0.62:
                out.append({"op": "sub", "body": body(ti, depth + 1)})
                continue
            if hooks and r < 0.70:
                out.append({"op": "add_hook", "hook": _hook(rng, n_ent, min(ti + 1, len(TYPES) - 1), handles, hook_ids)})
                continue
            side = None
            if ti + 1 < len(TYPES) and rng.random() < 0.4:
                side = [_evspec(rng, n_ent, ti + 1, handles, hooks=hooks, hook_ids=hook_ids) for _ in range(rng.randrange(0, 3))]
            style = rng.choice(["list", "list", "single", "none", "iter"])
            if not side and rng.random() < (0.5 if futures else 0.3):
                side, style = [], "shared"
            st = {"op": "delay", "d": rng.choice(delays), "side": side, "side_style": style}
            if side is None and rng.random() < 0.2:
                st["d_kind"] = rng.choice(["np", "sub"])  # numpy.float64 / a float subclass as the yielded delay
            out.append(st)
        return out

    table = {}
    for e in range(n_ent):
        for ti, t in enumerate(TYPES):
            r = rng.random()
            can_emit = ti + 1 < len(TYPES)
            if r < 0.3:
                continue
            if r < 0.65 or (not can_emit and r < 0.8 and not futures):
                evs = []
                if can_emit:
                    evs = [_evspec(rng, n_ent, ti + 1, handles, hooks=hooks, hook_ids=hook_ids) for _ in range(rng.randrange(0, 4))]
                act = {
                    "kind": "emit",
                    "events": evs,
                    "cancel": [f"h{rng.randrange(6)}"] if rng.random() < 0.2 else [],
                    "resolve": [],
                    "style": rng.choice(["list", "list", "single", "none"]),
                }
                if futures and fut_names and rng.random() < 0.5:
                    act["resolve"] = [[rng.choice(fut_names), new_value()] for _ in range(rng.randrange(1, 3))]
                if hooks and rng.random() < 0.15:
                    act["add_hooks"] = [_hook(rng, n_ent, min(ti + 1, len(TYPES) - 1), handles, hook_ids)]
                table[f"{e}:{t}"] = act
            else:
                ret = []
                if can_emit and rng.random() < 0.6:
                    ret = [_evspec(rng, n_ent, ti + 1, handles, hooks=hooks, hook_ids=hook_ids) for _ in range(rng.randrange(0, 3))]
                table[f"{e}:{t}"] = {
                    "kind": "gen",
                    "body": body(ti),
                    "ret": ret,
                    "style": rng.choice(["list", "list", "single", "none"]),
                    # the handler may hand back any collections.abc.Generator, not only a native generator object
                    "wrapped": rng.random() < 0.2,
                }
    # pre-run events on a tiny set of timestamps so that ties are the norm
    times = rng.sample(BASE_TIMES, rng.randrange(1, 4))
    n_pre = rng.choice([0, 1, 2, 3, 5, 8, 12, 20, max_pre])
    n_before = rng.randrange(0, n_pre + 1) if rng.random() < 0.4 else 0
    pre = []
    for i in range(n_pre):
        spec = {
            "t": rng.choice(times),
            "dt": 0,
            "ent": rng.randrange(n_ent),
            "type": TYPES[min(len(TYPES) - 1, int(rng.expovariate(1.2)))],
            "daemon": rng.random() < 0.2,
            "handle": None,
            "phase": "before" if i < n_before else "after",
            "cancel_pre": rng.random() < 0.1,
        }
        if rng.random() < 0.2:
            h = f"h{rng.randrange(6)}"
            spec["handle"] = h
            handles.add(h)
        if hooks and rng.random() < 0.3:
            spec["hooks"] = [_hook(rng, n_ent, 1, handles, hook_ids) for _ in range(rng.randrange(1, 3))]
        pre.append(spec)
    order = list(range(n_pre))
    if rng.random() < 0.3:
        rng.shuffle(order)
    r = rng.random()
    if r < 0.4 or not times:
        end = None
    else:
        base = rng.choice(times + [t + d for t in times for d in (1, 999, 1_000_000, NS)])
        end = max(0, base + rng.choice([0, 0, -1, 1, 5 * NS]))
    prog = {"n_ent": n_ent, "end_ns": end, "pre": pre, "sched_order": order, "table": table}
    if futures and fut_names and times and rng.random() < 0.25:
        # watchdogs: futures resolved from a control.on_time_advance hook once the clock passes a deadline
        prog["watch"] = [
            {"t": rng.choice(times) + rng.choice([0, 1, 999, 1000, 10**6, NS]), "f": rng.choice(fut_names), "v": new_value()}
            for _ in range(rng.randrange(1, 4))
        ]
    # a start_time other than the epoch (also far from it, where float seconds lose nanosecond resolution);
    # a few pre-run events then lie before the start and are not live
    # ... and beyond 2**53 ns (104 days), where nanoseconds no longer fit a float exactly (a Unix-epoch start_time)
    start = rng.choice([0, 0, 0, 0, 10**9, 5 * 10**8 + 1, 10**15 + 12345, 2**53 + 1, 1_700_000_000 * 10**9 + 123])
    if start:
        prog["start_ns"] = start
        for spec in pre:
            spec["t"] += start if rng.random() < 0.93 else 0
        if end is not None:
            prog["end_ns"] = end + start
        for w in prog.get("watch") or []:
            w["t"] += start
    if prog["end_ns"] is None and rng.random() < 0.3:
        prog["explicit_infinity"] = True  # end_time=Instant.Infinity written out (the documented default)
    # the horizon given as Simulation(duration=seconds) instead of end_time=Instant (also with a start_time)
    if prog["end_ns"] is not None and prog["end_ns"] >= start and rng.random() < 0.3:
        prog["use_duration"] = True
        prog["end_ns"] = start + delay_ns((prog["end_ns"] - start) / NS)  # Instant + float seconds truncates to whole nanoseconds
    return prog


# --------------------------------------------------------------------------
# shrinking


def shrink_program(prog: dict, still_fails) -> dict:
    cur = copy.deepcopy(prog)

    def with_pre(keep_idx):
        c = copy.deepcopy(cur)
        remap = {old: new for new, old in enumerate(keep_idx)}
        c["pre"] = [cur["pre"][i] for i in keep_idx]
        # "before" events must stay a prefix: order is preserved by ddmin, fine
        c["sched_order"] = [remap[i] for i in cur["sched_order"] if i in remap]
        return c

    idx = list(range(len(cur["pre"])))
    if len(idx) > 1:
        kept = ddmin(idx, lambda ks: still_fails(with_pre(ks)), max_tests=150)
        cur = with_pre(kept)
    keys = sorted(cur["table"])
    if len(keys) > 1:

        def with_keys(ks):
            c = copy.deepcopy(cur)
            c["table"] = {k: cur["table"][k] for k in ks}
            return c

        kept = ddmin(keys, lambda ks: still_fails(with_keys(ks)), max_tests=150)
        cur = with_keys(kept)
    # identity schedule order if possible
    c = copy.deepcopy(cur)
    c["sched_order"] = list(range(len(c["pre"])))
    if still_fails(c):
        cur = c
    return cur

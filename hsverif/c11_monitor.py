"""C11 helper: build a real RaftNode cluster from a JSON case and watch it.

Everything the oracles use is read from *public* surface only:

    node.state / current_term / is_leader / log.last_index / log.get(i) /
    log.entries_after(i) / log.commit_index          (sampled after every delivery)
    StateMachine.apply(command)                       (a recording state machine we pass in)
    SimFuture.is_resolved / .value                    (what submit() returned)
    the messages themselves (events delivered to the Network entity and to nodes)

The message history is used only to *name the mechanism* of a violation
(shape of the key); verdicts come from the state oracles.
"""

from __future__ import annotations

import random
from collections import deque

from hsverif.core import Result, ensure_repo_on_path

ensure_repo_on_path()

from hsverif.chaosnet import ChaosLink, DelayScript  # noqa: E402
from hsverif.probe import EngineProbe  # noqa: E402

from happysimulator.components.consensus.raft import RaftNode, RaftState  # noqa: E402
from happysimulator.components.network.network import Network  # noqa: E402
from happysimulator.core.entity import Entity  # noqa: E402
from happysimulator.core.event import Event, ProcessContinuation  # noqa: E402
from happysimulator.core.simulation import Simulation  # noqa: E402
from happysimulator.core.temporal import Instant  # noqa: E402
from happysimulator.distributions.constant import ConstantLatency  # noqa: E402
from happysimulator.faults import CrashNode, FaultSchedule, NetworkPartition  # noqa: E402

LEADER = RaftState.LEADER
CANDIDATE = RaftState.CANDIDATE
FOLLOWER = RaftState.FOLLOWER

COMPONENT = "RaftNode"
_TYPE_CODE = {
    "RaftElectionTimeout": 1,
    "RaftRequestVote": 2,
    "RaftVoteResponse": 3,
    "RaftAppendEntries": 4,
    "RaftAppendEntriesResponse": 5,
    "RaftHeartbeat": 6,
}


class RecordingSM:
    """StateMachine protocol implementation that reports every apply to the monitor."""

    def __init__(self, mon: "Monitor", i: int):
        self.mon = mon
        self.i = i
        self.applied: list = []

    def apply(self, command):
        self.applied.append(command)
        self.mon.on_apply(self.i, len(self.applied), command)
        return ["applied", command]

    def snapshot(self):
        return list(self.applied)

    def restore(self, snapshot):
        self.applied = list(snapshot)


class CommitRec:
    __slots__ = ("index", "term", "cmd", "chain", "by", "commit_term", "seq", "t")

    def __init__(self, index, term, cmd, chain, by, commit_term, seq, t):
        self.index = index
        self.term = term
        self.cmd = cmd
        self.chain = chain
        self.by = by
        self.commit_term = commit_term
        self.seq = seq
        self.t = t


class Monitor:
    def __init__(self, names: list[str], res: Result):
        self.names = names
        self.n = len(names)
        self.quorum = self.n // 2 + 1
        self.res = res
        self.idx = {nm: i for i, nm in enumerate(names)}
        self.nodes: list[RaftNode] = []
        self.sms: list[RecordingSM] = []
        self.net = None
        self.node_idx: dict[int, int] = {}
        self.crashed = [False] * self.n
        self.seq = 0  # global delivery counter (logical time for classification)
        self.now_ns = 0
        self.n_samples = 0
        self.order_hash = 0
        self.reported: set[tuple] = set()
        self.root_first: dict[str, object] = {}
        self.consequent = 0
        # --- shadow logs
        self.shadow: list[list] = [[] for _ in names]  # LogEntry objects
        self.chains: list[list[int]] = [[] for _ in names]  # prefix ids, parallel to shadow
        self.chain_ids: dict[tuple, int] = {}
        self.live: dict[tuple, dict[int, int]] = {}  # (index, term) -> {prefix id: holders}
        self.full_scans = 0
        self.truncations = 0
        # --- node state cache (exact: a node's state changes only in its own deliveries / our submit)
        self.cur_state = [FOLLOWER] * self.n
        self.cur_term = [0] * self.n
        self.commit_seen = [0] * self.n
        # --- election history
        self.leader_of: dict[int, int] = {}
        self.double_leader_terms: set[int] = set()
        self.grants: dict[tuple, list] = {}  # (voter idx, term) -> [(seq, candidate name)]
        self.double_votes: dict[int, dict[str, str]] = {}  # term -> {voter: kind}
        self.last_ae_seq: dict[tuple, int] = {}  # (node idx, msg term) -> seq of last delivery
        self.candidacies: set[tuple] = set()
        # --- commit / apply history
        self.committed: dict[int, CommitRec] = {}
        self.commit_list: list[CommitRec] = []
        self.unsound_at: dict[int, set[str]] = {}
        self.unsound_terms: dict[int, set[int]] = {}
        self.oldterm_commit: set[int] = set()
        self.beyond_compared: set[int] = set()  # indices a follower committed past prev_log_index+len(entries)
        self.cur_ae_verified = None  # set while the sampled delivery is an AppendEntries
        self.pending_div: list = []  # divergent applies seen inside a handler, named after the sample
        self.applied_at: dict[int, tuple] = {}
        self.n_applies = 0
        self.dirty = False
        # --- AppendEntries bookkeeping for mechanism naming
        self.ae_q: list[deque] = [deque() for _ in names]
        self.resp_tag: dict[int, tuple] = {}
        self.acked: list[dict] = [{} for _ in names]
        self.overclaims = 0
        self.stale_term_acks = 0
        # --- client
        self.futures: list[dict] = []
        self.futures_resolved = 0
        self.restarts_with_start = 0
        self.last_start_seq: dict[int, int] = {}
        self.timeline: list = []

    # ------------------------------------------------------------------ util
    def violate(self, oracle: str, shape: str, detail: str, witness=None, root: str | None = None):
        """Report one refuting observation.

        `root` names the mechanism the classifier blames.  Once a violation blamed on a root
        has been reported in this run, later violations blamed on the same root are its
        consequences (two leaders in a term -> diverging logs -> diverging applies ...): they
        are attached to the first one instead of being reported under further keys.
        """
        if root is not None and root != "unexplained":
            first = self.root_first.get(root)
            if first is not None:
                self.consequent += 1
                cons = first.witness.setdefault("consequences", [])
                if len(cons) < 12 and not any(c["oracle"] == oracle for c in cons):
                    cons.append({"oracle": oracle, "shape": shape, "t": self.now_ns / 1e9, "detail": detail[:400]})
                return
        key = (oracle, shape)
        if key in self.reported:
            return
        self.reported.add(key)
        w = {"t": self.now_ns / 1e9, "seq": self.seq, "timeline_tail": self.timeline[-40:]}
        if witness:
            w.update(witness)
        self.res.add(oracle, COMPONENT, shape, detail, w)
        if root is not None and root != "unexplained":
            self.root_first[root] = self.res.violations[-1]

    def note(self, *what):
        self.timeline.append([round(self.now_ns / 1e9, 6), *what])
        if len(self.timeline) > 600:
            del self.timeline[:200]

    # --------------------------------------------------------------- hooks
    def on_event(self, ev):
        self.seq += 1
        tgt = ev.target
        i = self.node_idx.get(id(tgt))
        if i is not None:
            self.now_ns = ev.time.nanoseconds
            if self.crashed[i]:
                return
            et = ev.event_type
            self.order_hash = (self.order_hash * 1000003 + i * 7 + _TYPE_CODE.get(et, 0)) & 0xFFFFFFFFFFFF
            self.cur_ae_verified = None
            if et == "RaftAppendEntries":
                md = ev.context["metadata"]
                t = md["term"]
                self.last_ae_seq[(i, t)] = self.seq
                self.cur_ae_verified = md.get("prev_log_index", 0) + len(md.get("entries", ()))
                self.ae_q[i].append((self.cur_ae_verified, t))
            elif et == "RaftAppendEntriesResponse":
                md = ev.context["metadata"]
                tag = self.resp_tag.pop(id(md), None)
                if md["success"]:
                    over, verified = (tag[1], tag[2]) if tag else (False, None)
                    self.acked[i][md["from"]] = (md["match_index"], md["term"], over, verified)
            self.sample(i)
            self.cur_ae_verified = None
            return
        if tgt is self.net:
            if isinstance(ev, ProcessContinuation):
                return
            et = ev.event_type
            md = ev.context["metadata"]
            if et == "RaftVoteResponse":
                if md["vote_granted"]:
                    self._grant(self.idx[md["source"]], md["term"], md["destination"])
            elif et == "RaftRequestVote":
                src = md["source"]
                self._grant(self.idx[src], md["term"], src)
            elif et == "RaftAppendEntriesResponse":
                j = self.idx[md["source"]]
                q = self.ae_q[j]
                if q:
                    verified, _t = q.popleft()
                    over = bool(md["success"]) and md["match_index"] > verified
                    if over:
                        self.overclaims += 1
                    self.resp_tag[id(md)] = (md, over, verified)
            return
        et = ev.event_type
        if et.startswith("fault."):
            self.now_ns = ev.time.nanoseconds
            if et.startswith("fault.crash:"):
                self.crashed[self.idx[et[12:]]] = True
                self.note("crash", et[12:])
            elif et.startswith("fault.restart:"):
                self.crashed[self.idx[et[14:]]] = False
                self.note("restart", et[14:])
            elif et.startswith("fault.partition"):
                self.note(et)

    def _grant(self, v: int, term: int, cand: str):
        g = self.grants.get((v, term))
        if g is None:
            self.grants[(v, term)] = [(self.seq, cand)]
            if cand == self.names[v]:
                self.candidacies.add((v, term))
            return
        for _, c in g:
            if c == cand:
                return
        if self.last_start_seq.get(v, -1) > g[0][0]:
            kind = "after-restart-with-start"  # start() was called again on the voter between the two grants
        elif self.last_ae_seq.get((v, term), -1) > g[0][0]:
            kind = "after-same-term-append-entries"
        else:
            kind = "plain"
        self.double_votes.setdefault(term, {})[self.names[v]] = kind
        g.append((self.seq, cand))
        if cand == self.names[v]:
            self.candidacies.add((v, term))
        self.note("second-vote", self.names[v], term, [c for _, c in g], kind)

    # -------------------------------------------------------------- sampling
    def sample(self, i: int, full: bool = False):
        self.n_samples += 1
        node = self.nodes[i]
        st = node.state
        term = node.current_term
        log = node.log
        li = log.last_index
        sh = self.shadow[i]
        if full or (self.n_samples & 511) == 0:
            self._full_scan(i, log, li)
        elif li != len(sh) or (li and log.get(li) is not sh[-1]):
            self._resync(i, log, li, st)
        if st is LEADER and (self.cur_state[i] is not LEADER or self.cur_term[i] != term):
            self.cur_state[i] = st
            self.cur_term[i] = term
            self._new_leader(i, term)
        else:
            self.cur_state[i] = st
            self.cur_term[i] = term
        ci = log.commit_index
        if ci != self.commit_seen[i]:
            self._commit_changed(i, ci, st, term)
        if self.pending_div:
            self._flush_divergent()
        if self.dirty:
            self._poll_futures()

    def _chain(self, prev: int, term: int, cmd) -> int:
        k = (prev, term, cmd)
        c = self.chain_ids.get(k)
        if c is None:
            c = len(self.chain_ids) + 1
            self.chain_ids[k] = c
        return c

    def _full_scan(self, i, log, li):
        """Compare the whole public log against the shadow (insurance for the incremental diff)."""
        self.full_scans += 1
        sh = self.shadow[i]
        k = 0
        m = min(li, len(sh))
        while k < m and log.get(k + 1) is sh[k]:
            k += 1
        if k != len(sh) or k != li:
            self._replace_suffix(i, k, log.entries_after(k), self.cur_state[i])

    def _resync(self, i, log, li, st):
        sh = self.shadow[i]
        k = min(li, len(sh))
        while k > 0 and log.get(k) is not sh[k - 1]:
            k -= 1
        self._replace_suffix(i, k, log.entries_after(k), st)

    def _replace_suffix(self, i, keep: int, added: list, st):
        sh = self.shadow[i]
        ch = self.chains[i]
        live = self.live
        removed = len(sh) - keep
        if removed:
            self.truncations += 1
            for k in range(keep, len(sh)):
                e = sh[k]
                d = live.get((k + 1, e.term))
                if d is not None:
                    c = ch[k]
                    left = d.get(c, 0) - 1
                    if left <= 0:
                        d.pop(c, None)
                        if not d:
                            del live[(k + 1, e.term)]
                    else:
                        d[c] = left
            self.note("truncate", self.names[i], keep + 1, len(sh))
            del sh[keep:]
            del ch[keep:]
        prev = ch[-1] if ch else 0
        for e in added:
            k = len(sh) + 1
            prev = self._chain(prev, e.term, e.command)
            sh.append(e)
            ch.append(prev)
            key = (k, e.term)
            d = live.get(key)
            if d is None:
                live[key] = {prev: 1}
            else:
                d[prev] = d.get(prev, 0) + 1
                if len(d) > 1:
                    self._log_matching_violation(i, k, e.term)
        if removed and st is LEADER:
            # a leader whose own log shrank: re-check everything committed before its term
            self._check_completeness(i, self.cur_term[i], self.commit_list)

    def _log_matching_violation(self, i, k, term):
        ch_i = self.chains[i]
        for j in range(self.n):
            if j == i:
                continue
            ch_j = self.chains[j]
            if len(ch_j) >= k and self.shadow[j][k - 1].term == term and ch_j[k - 1] != ch_i[k - 1]:
                # first differing index
                d = 0
                while ch_i[d] == ch_j[d]:
                    d += 1
                ea, eb = self.shadow[i][d], self.shadow[j][d]
                root = self._root(None, term, ea.term, eb.term)
                if root != "unexplained":
                    shape = root
                elif ea.term == eb.term:
                    shape = "same-index-same-term-different-command"
                else:
                    shape = "same-entry-over-different-prefix"
                self.violate(
                    "log-matching",
                    shape,
                    f"{self.names[i]} and {self.names[j]} both hold an entry (index {k}, term {term}) "
                    f"but differ at index {d + 1}: ({ea.term},{ea.command}) vs ({eb.term},{eb.command})",
                    {"index": k, "term": term, "first_diff": d + 1, "nodes": [self.names[i], self.names[j]]},
                    root=root,
                )
                return

    # ------------------------------------------------------------- elections
    def _new_leader(self, i, term):
        self.note("leader", self.names[i], term)
        self.acked[i] = {}
        prev = self.leader_of.get(term)
        if prev is None:
            self.leader_of[term] = i
        elif prev != i:
            self.double_leader_terms.add(term)
            dv = self.double_votes.get(term, {})
            if any(k == "after-restart-with-start" for k in dv.values()):
                shape = "double-vote-after-restart-with-start"
            elif any(k == "after-same-term-append-entries" for k in dv.values()):
                shape = "double-vote-after-same-term-append-entries"
            elif dv:
                shape = "double-vote"
            else:
                shape = "no-double-vote-observed"
            votes = {
                self.names[v]: [c for _, c in g] for (v, t), g in self.grants.items() if t == term
            }
            self.violate(
                "election-safety",
                shape,
                f"{self.names[prev]} and {self.names[i]} were both LEADER in term {term}; "
                f"votes granted in that term: {votes}; double voters: {dv}",
                {"term": term, "leaders": [self.names[prev], self.names[i]], "votes": votes, "double_voters": dv},
            )
            if self.res.violations and "term-with-two-leaders" not in self.root_first:
                for v in self.res.violations:
                    if v.oracle == "election-safety":
                        self.root_first["term-with-two-leaders"] = v
                        break
        self._check_completeness(i, term, self.commit_list)

    def _check_completeness(self, i, term, recs):
        sh = self.shadow[i]
        for rec in recs:
            if rec.commit_term >= term:
                continue
            k = rec.index
            if k <= len(sh):
                e = sh[k - 1]
                if e.term == rec.term and e.command == rec.cmd:
                    continue
                have = [e.term, e.command]
            else:
                have = None
            root = self._root(k, rec.term, have[0] if have else None)
            self.violate(
                "leader-completeness",
                root,
                f"entry (index {k}, term {rec.term}, {rec.cmd}) was committed by {self.names[rec.by]} in term "
                f"{rec.commit_term} at t={rec.t / 1e9:.6f}; leader {self.names[i]} of later term {term} holds {have} there",
                {"index": k, "committed": [rec.term, rec.cmd], "leader": self.names[i], "leader_term": term, "leader_has": have},
                root=root,
            )
            return

    def _root(self, k, *terms) -> str:
        """Name the mechanism behind a broken log / commit at index k from the recorded history.

        Only facts are used: (1) one of the entries involved, or the commit itself, belongs to a term
        in which two leaders were observed; (2) a leader advanced its commit_index over k while fewer
        than a quorum of nodes held its entry, and which acknowledgement it must have counted.
        """
        dl = self.double_leader_terms
        if dl:
            for t in terms:
                if t is not None and t in dl:
                    return "term-with-two-leaders"
            rec = self.committed.get(k) if k is not None else None
            if rec is not None and rec.commit_term in dl:
                return "term-with-two-leaders"
            if k is not None and self.unsound_terms.get(k, set()) & dl:
                return "term-with-two-leaders"
        causes = self.unsound_at.get(k) if k is not None else None
        if causes:
            return "commit-counted-" + "+".join(sorted(causes))
        if k is not None and k in self.oldterm_commit:
            return "leader-committed-only-entries-of-earlier-terms"
        if k is not None and k in self.beyond_compared:
            return "follower-committed-beyond-compared-prefix"
        return "unexplained"

    # --------------------------------------------------------------- commits
    def _commit_changed(self, i, ci, st, term):
        old = self.commit_seen[i]
        self.commit_seen[i] = ci
        if ci < old:
            sh = self.shadow[i]
            have = sh[ci].term if len(sh) > ci else None
            rec = self.committed.get(ci + 1)
            root = self._root(ci + 1, rec.term if rec else None, have)
            self.violate(
                "commit-index-regress",
                root,
                f"{self.names[i]} commit_index went {old} -> {ci}",
                {"node": self.names[i], "from": old, "to": ci},
                root=root,
            )
            return
        sh = self.shadow[i]
        ch = self.chains[i]
        if st is not LEADER and self.cur_ae_verified is not None and ci > self.cur_ae_verified:
            # the follower moved its commit point past what this AppendEntries covered
            for k in range(max(old, self.cur_ae_verified) + 1, ci + 1):
                self.beyond_compared.add(k)
        if st is LEADER and 0 < ci <= len(sh) and sh[ci - 1].term != term:
            # a leader moved its commit point to an entry that is not of its own term
            for k in range(old + 1, ci + 1):
                if k not in self.committed:
                    self.oldterm_commit.add(k)
        for k in range(old + 1, ci + 1):
            if k > len(sh):
                break
            c = ch[k - 1]
            if st is LEADER:
                holders = 0
                for j in range(self.n):
                    cj = self.chains[j]
                    if len(cj) >= k and cj[k - 1] == c:
                        holders += 1
                if holders < self.quorum:
                    self._unsound(i, term, k, c, holders)
            rec = self.committed.get(k)
            if rec is None:
                e = sh[k - 1]
                rec = CommitRec(k, e.term, e.command, c, i, term, self.seq, self.now_ns)
                self.committed[k] = rec
                self.commit_list.append(rec)
                for j in range(self.n):
                    if j != i and self.cur_state[j] is LEADER and self.cur_term[j] > term:
                        self._check_completeness(j, self.cur_term[j], [rec])

    def _unsound(self, L, term, k, chain, holders):
        causes = set()
        for fname, (m, rterm, over, verified) in self.acked[L].items():
            j = self.idx[fname]
            cj = self.chains[j]
            if m >= k and not (len(cj) >= k and cj[k - 1] == chain):
                if rterm < term:
                    causes.add("stale-term-ack")
                    self.stale_term_acks += 1
                elif over and verified is not None and verified < k:
                    causes.add("overclaimed-match-index")
                else:
                    causes.add("ack-from-non-holder")
        if not causes:
            causes.add("no-ack-explains-it")
        self.unsound_at.setdefault(k, set()).update(causes)
        self.unsound_terms.setdefault(k, set()).add(term)
        self.note("unsound-commit", self.names[L], term, k, holders, sorted(causes))

    # --------------------------------------------------------------- applies
    def on_apply(self, i, k, cmd):
        self.n_applies += 1
        self.dirty = True
        e = self.nodes[i].log.get(k)
        if e is None or e.command != cmd:
            self.violate(
                "apply-in-order",
                "kth-apply-is-not-log-entry-k",
                f"{self.names[i]}: apply number {k} is {cmd!r} but its log holds {e!r} at index {k}",
                {"node": self.names[i], "k": k, "cmd": cmd},
            )
            eterm = None
        else:
            eterm = e.term
        g = self.applied_at.get(k)
        if g is None:
            self.applied_at[k] = (cmd, i, eterm)
        elif g[0] != cmd:
            # named after the sample that follows this handler (the classifier needs the finished state)
            self.pending_div.append((i, k, cmd, eterm, g, self.now_ns))

    def _flush_divergent(self):
        pend, self.pending_div = self.pending_div, []
        for i, k, cmd, eterm, g, _t in pend:
            root = self._root(k, g[2], eterm)
            self.violate(
                "divergent-apply",
                root,
                f"index {k}: {self.names[g[1]]} applied {g[0]!r} (term {g[2]}), {self.names[i]} applied {cmd!r} (term {eterm})",
                {"index": k, "first": [self.names[g[1]], g[0], g[2]], "second": [self.names[i], cmd, eterm]},
                root=root,
            )

    # --------------------------------------------------------------- futures
    def submit(self, i: int, cmd: str):
        node = self.nodes[i]
        was_leader = node.is_leader
        term = node.current_term
        fut = node.submit(cmd)
        rec = {"fut": fut, "cmd": cmd, "node": i, "leader": was_leader, "term": term, "t": self.now_ns, "idx": None}
        if was_leader:
            rec["idx"] = node.log.last_index
        self.futures.append(rec)
        self.sample(i)
        return rec

    def _poll_futures(self):
        self.dirty = False
        rest = []
        for rec in self.futures:
            fut = rec["fut"]
            if not fut.is_resolved:
                rest.append(rec)
                continue
            self.futures_resolved += 1
            val = fut.value
            cmd = rec["cmd"]
            ok = False
            idx = result = root = None
            if isinstance(val, tuple) and len(val) == 2:
                idx, result = val
                c = self.committed.get(idx) if isinstance(idx, int) else None
                ok = c is not None and c.cmd == cmd and result == ["applied", cmd]
            if not ok:
                i = rec["node"]
                sh = self.shadow[i]
                at = rec["idx"]
                c = self.committed.get(idx) if isinstance(idx, int) else None
                if at is not None and idx == at and (len(sh) < at or sh[at - 1].command != cmd):
                    shape = "future-kept-after-entry-overwritten"
                elif at is not None and idx == at and result == ["applied", cmd]:
                    # consistent with the node's own log and apply, but another entry was committed there first
                    root = self._root(idx, c.term if c else None, sh[at - 1].term)
                    shape = "own-apply-conflicts-with-first-commit:" + root
                elif not rec["leader"]:
                    shape = "submitted-to-non-leader"
                else:
                    shape = "other"
                self.violate(
                    "future-wrong-entry",
                    shape,
                    f"future for {cmd!r} (submitted to {self.names[i]} in term {rec['term']}, stored at index {at}) "
                    f"resolved with {val!r}; committed at index {idx}: {(c.term, c.cmd) if c else None}",
                    {"cmd": cmd, "node": self.names[i], "value": repr(val)},
                    root=root,
                )
        self.futures = rest

    # ------------------------------------------------------------------ end
    def finish(self):
        for i in range(self.n):
            self.sample(i, full=True)
        self.dirty = True
        self._poll_futures()
        r = self.res
        r.count("events_monitored", self.seq)
        r.count("samples", self.n_samples)
        r.count("applies_checked", self.n_applies)
        r.count("commits_recorded", len(self.commit_list))
        r.count("leader_terms", len(self.leader_of))
        r.count("candidacies", len(self.candidacies))
        r.count("futures_resolved", self.futures_resolved)
        r.count("futures_submitted", self.futures_resolved + len(self.futures))
        r.count("log_truncations", self.truncations)
        r.count("restarts_with_start", self.restarts_with_start)
        r.count("full_scans", self.full_scans)
        r.count("precursor_double_votes", sum(len(v) for v in self.double_votes.values()))
        r.count("precursor_overclaimed_match_index", self.overclaims)
        r.count("precursor_unsound_commits", len(self.unsound_at))
        r.count("precursor_commit_beyond_compared_prefix", len(self.beyond_compared))
        r.count("consequent_violations_folded", self.consequent)
        r.seen("delivery_order", f"{self.order_hash:x}")
        r.seen("leader_history", ",".join(f"{t}:{self.names[i]}" for t, i in sorted(self.leader_of.items()))[:120])


# --------------------------------------------------------------------------
# cluster construction


class Client(Entity):
    """Harness client: acts at generated instants; talks to nodes only through submit()."""

    def __init__(self, name, fn):
        super().__init__(name)
        self.fn = fn

    def handle_event(self, event):
        return self.fn(event)


def build_cluster(case: dict, mon: Monitor):
    names = mon.names
    net = Network(name="net")
    nodes = []
    mon.sms = [RecordingSM(mon, i) for i in range(len(names))]
    et_node = case.get("et_node") or {}  # optional per-node election timeout range (public ctor parameters)
    for i, nm in enumerate(names):
        et = et_node.get(nm, case["et"])
        nodes.append(
            RaftNode(
                name=nm,
                network=net,
                state_machine=mon.sms[i],
                election_timeout_min=et[0],
                election_timeout_max=et[1],
                heartbeat_interval=case["hb"],
            )
        )
    for nd in nodes:
        nd.set_peers(nodes)
    script = DelayScript(dict(case["script"], keep_log=False))
    for a in nodes:
        for b in nodes:
            if a is not b:
                net.add_link(
                    a,
                    b,
                    ChaosLink(name=f"{a.name}>{b.name}", latency=ConstantLatency(0.0), script=script, src_name=a.name, dst_name=b.name),
                )
    mon.nodes = nodes
    mon.net = net
    mon.node_idx = {id(nd): i for i, nd in enumerate(nodes)}
    return net, nodes


def fault_schedule(case: dict):
    faults = case.get("faults") or []
    if not faults:
        return None
    fs = FaultSchedule()
    for f in faults:
        if f["kind"] == "partition":
            fs.add(NetworkPartition(group_a=list(f["a"]), group_b=list(f["b"]), start=f["start"], end=f["end"], asymmetric=bool(f.get("asym"))))
        elif f["kind"] == "crash":
            fs.add(CrashNode(entity_name=f["node"], at=f["at"], restart_at=f.get("restart_at")))
        else:
            raise KeyError(f["kind"])
    return fs


def run_cluster(case: dict, res: Result, client_factory, end_time: float | None, total_cap: int = 1_500_000):
    """Common driver. client_factory(mon, nodes, sim_holder) -> (client entity, initial events)."""
    random.seed(case["seed"])
    names = [f"n{i}" for i in range(case["n"])]
    mon = Monitor(names, res)
    net, nodes = build_cluster(case, mon)
    client, first_events = client_factory(mon, nodes)
    kw = {}
    if end_time is not None:
        kw["end_time"] = Instant.from_seconds(end_time)
    fs = fault_schedule(case)
    if fs is not None:
        kw["fault_schedule"] = fs
    sim = Simulation(entities=[net, *nodes, client], **kw)
    for nd in nodes:
        for ev in nd.start():
            sim.schedule(ev)
    for ev in first_events:
        sim.schedule(ev)
    sim.control.on_event(mon.on_event)
    with EngineProbe(log_deliveries=False, instant_cap=50_000, total_cap=total_cap, record_emissions=False) as p:
        status = p.run(sim)
    mon.finish()
    res.count("deliveries", p.n_deliveries)
    if status != "completed":
        res.inconclusive = f"engine {status}"
    elif p.time_travel:
        # the engine dropped an event as "in the past": the run is not the one the case describes
        res.inconclusive = "engine discarded an event (time travel): " + str(p.time_travel[0].get("event_type"))
        res.count("time_travel_discards", len(p.time_travel))
    return mon, status


def client_event(t, client: Entity, kind: str, daemon: bool, **md) -> Event:
    """t: seconds (float, for pre-run events) or an Instant (use `event.time + delay` inside handlers:
    a float round trip can land one nanosecond in the past and the engine would discard the event)."""
    when = t if isinstance(t, Instant) else Instant.from_seconds(t)
    return Event(time=when, event_type=kind, target=client, daemon=daemon, context={"metadata": md})

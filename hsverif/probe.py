"""Engine-level instrumentation installed by the harness in its own process.

Transparent wrappers (they call the original and only record) around

    Event.invoke / ProcessContinuation.invoke     -> delivery probe
    EventHeap._push_single                        -> emission probe
    logging (happysimulator.core.simulation)      -> discard probe

plus an instant counter (deliveries per distinct clock value) that raises
SpinDetected out of the run loop, and a total-delivery cap that raises
BudgetExceeded (inconclusive, not a violation).

Usage:

    with EngineProbe(log_deliveries=True, instant_cap=20000, total_cap=200000) as p:
        status = p.run(sim)          # "completed" | "spin" | "budget"
    p.deliveries  p.past_emissions  p.time_travel  p.max_instant  p.n_deliveries

`Event.invoke` runs the first generator step by calling
`ProcessContinuation.invoke` nested; only depth-0 invocations are deliveries.
State is thread-local where it must be (parallel partitions run in pool
threads) and merged under a lock.
"""

from __future__ import annotations

import logging
import threading
from typing import Any

from hsverif.core import ensure_repo_on_path

ensure_repo_on_path()

from happysimulator.core import event as _ev  # noqa: E402
from happysimulator.core import event_heap as _eh  # noqa: E402
from happysimulator.core import sim_future as _sf  # noqa: E402


class SpinDetected(Exception):
    def __init__(self, time_ns, count, recent):
        super().__init__(f"{count} deliveries at t={time_ns}ns")
        self.time_ns = time_ns
        self.count = count
        self.recent = recent


class BudgetExceeded(Exception):
    pass


def target_name(t) -> str:
    return getattr(t, "name", None) or type(t).__name__


def _emitter_of(target) -> tuple[str, str]:
    """(class name, module) of the entity behind a delivery, unwrapping adapters."""
    inner = getattr(target, "_resource", None)
    if inner is not None and type(target).__name__.startswith("_QueuedResource"):
        target = inner
    cls = type(target)
    return cls.__name__, cls.__module__


class _TTHandler(logging.Handler):
    def __init__(self, probe):
        super().__init__(level=logging.WARNING)
        self.probe = probe

    def emit(self, record):
        try:
            msg = record.getMessage()
        except Exception:  # noqa: BLE001
            return
        if "Time travel detected" in msg:
            p = self.probe
            with p._lock:
                p.time_travel.append(
                    {
                        "msg": msg[:300],
                        "event_type": record.args[2] if record.args and len(record.args) > 2 else None,
                        "last_emitter": getattr(p._tl, "last", None),
                    }
                )


class EngineProbe:
    def __init__(
        self,
        log_deliveries: bool = False,
        instant_cap: int | None = 20000,
        total_cap: int | None = 2_000_000,
        record_emissions: bool = True,
        delivery_filter=None,
    ):
        self.log_deliveries = log_deliveries
        self.instant_cap = instant_cap
        self.total_cap = total_cap
        self.record_emissions = record_emissions
        self.delivery_filter = delivery_filter
        self.deliveries: list[tuple] = []  # (clock_ns, event_time_ns, type, target, is_continuation)
        self.past_emissions: list[dict] = []
        self.time_travel: list[dict] = []
        self.n_deliveries = 0
        self.n_pushes = 0
        self.max_instant = 0
        self.max_instant_time = None
        self.clock_mismatch: list[tuple] = []  # deliveries where clock.now != event.time
        self.clock_regress: list[tuple] = []
        self._lock = threading.Lock()
        self._tl = threading.local()
        self._installed = False

    # ---- install / uninstall -------------------------------------------
    def __enter__(self):
        self.install()
        return self

    def __exit__(self, *exc):
        self.uninstall()
        return False

    def install(self):
        if self._installed:
            return
        probe = self
        self._orig_ev = _ev.Event.invoke
        self._orig_pc = _ev.ProcessContinuation.invoke
        self._orig_push = _eh.EventHeap._push_single
        orig_ev, orig_pc, orig_push = self._orig_ev, self._orig_pc, self._orig_push
        clock_var = getattr(_sf, "_active_clock_var", None)
        if clock_var is None:  # a tree that keeps the active context elsewhere: fall back to 'no clock known'
            class _NoVar:
                @staticmethod
                def get(default=None):
                    holder = getattr(_sf, "_active", None) or getattr(_sf, "_ACTIVE", None)
                    return getattr(holder, "clock", None) if holder is not None else None

            clock_var = _NoVar()

        def enter(event, is_cont):
            tl = probe._tl
            depth = getattr(tl, "depth", 0)
            tl.depth = depth + 1
            if depth:
                return
            clock = clock_var.get()
            now_ns = clock.now.nanoseconds if clock is not None else None
            t_ns = event.time.nanoseconds
            probe.n_deliveries += 1
            crashed = getattr(event.target, "_crashed", False)
            tl.last = _emitter_of(event.target) + (event.event_type,)
            if now_ns is not None and now_ns != t_ns:
                probe.clock_mismatch.append((now_ns, t_ns, event.event_type, target_name(event.target)))
            prev = getattr(tl, "prev_ns", None)
            if prev is not None and t_ns < prev[0] and prev[1] is clock:
                probe.clock_regress.append((prev[0], t_ns, event.event_type))
            tl.prev_ns = (t_ns, clock)
            if probe.log_deliveries and (probe.delivery_filter is None or probe.delivery_filter(event)):
                probe.deliveries.append(
                    (now_ns, t_ns, event.event_type, target_name(event.target), is_cont, crashed, event._sort_index)
                )
            # instant counter (per thread: one partition runs in one thread at a time)
            if getattr(tl, "inst_t", None) == t_ns and getattr(tl, "inst_clock", None) is clock:
                tl.inst_n += 1
            else:
                tl.inst_t, tl.inst_n, tl.inst_clock = t_ns, 1, clock
                tl.recent = []
            if tl.inst_n > probe.max_instant:
                probe.max_instant = tl.inst_n
                probe.max_instant_time = t_ns
            cap = probe.instant_cap
            if cap is not None:
                if tl.inst_n > cap - 60:
                    tl.recent.append((event.event_type, target_name(event.target)))
                if tl.inst_n > cap:
                    raise SpinDetected(t_ns, tl.inst_n, list(tl.recent))
            if probe.total_cap is not None and probe.n_deliveries > probe.total_cap:
                raise BudgetExceeded(f"{probe.n_deliveries} deliveries")

        def ev_invoke(self):
            enter(self, False)
            try:
                return orig_ev(self)
            finally:
                probe._tl.depth -= 1

        def pc_invoke(self):
            enter(self, True)
            try:
                return orig_pc(self)
            finally:
                probe._tl.depth -= 1

        def push_single(heap, event):
            probe.n_pushes += 1
            if probe.record_emissions:
                clock = clock_var.get()
                if clock is not None and event.time < clock.now:
                    last = getattr(probe._tl, "last", None)
                    with probe._lock:
                        probe.past_emissions.append(
                            {
                                "clock_ns": clock.now.nanoseconds,
                                "event_time_ns": event.time.nanoseconds,
                                "event_type": event.event_type,
                                "target": target_name(event.target),
                                "emitter_class": last[0] if last else "pre-run",
                                "emitter_module": last[1] if last else "",
                                "during_event": last[2] if last else None,
                                "in_delivery": getattr(probe._tl, "depth", 0) > 0,
                            }
                        )
            return orig_push(heap, event)

        _ev.Event.invoke = ev_invoke
        _ev.ProcessContinuation.invoke = pc_invoke
        _eh.EventHeap._push_single = push_single
        self._handler = _TTHandler(self)
        lg = logging.getLogger("happysimulator.core.simulation")
        lg.addHandler(self._handler)
        self._old_level = lg.level
        if lg.getEffectiveLevel() > logging.WARNING:
            lg.setLevel(logging.WARNING)
        self._installed = True

    def uninstall(self):
        if not self._installed:
            return
        _ev.Event.invoke = self._orig_ev
        _ev.ProcessContinuation.invoke = self._orig_pc
        _eh.EventHeap._push_single = self._orig_push
        lg = logging.getLogger("happysimulator.core.simulation")
        lg.removeHandler(self._handler)
        lg.setLevel(self._old_level)
        self._installed = False

    # ---- helpers ---------------------------------------------------------
    def run(self, sim, fn=None) -> str:
        """Run sim.run() (or fn()) under the caps. Returns completed|spin|budget."""
        try:
            (fn or sim.run)()
            return "completed"
        except SpinDetected as s:
            self.spin = s
            return "spin"
        except BudgetExceeded:
            return "budget"

    def library_past_emissions(self) -> list[dict]:
        """Past emissions whose emitter class is defined inside happysimulator."""
        return [e for e in self.past_emissions if e["emitter_module"].startswith("happysimulator.")]

    def summary(self) -> dict[str, Any]:
        return {
            "deliveries": self.n_deliveries,
            "pushes": self.n_pushes,
            "max_instant": self.max_instant,
            "past_emissions": len(self.past_emissions),
            "time_travel": len(self.time_travel),
        }


def quiet_library_logging():
    """Silence the library's INFO/WARNING chatter in worker processes."""
    logging.getLogger("happysimulator").setLevel(logging.ERROR)
    lg = logging.getLogger("happysimulator.core.simulation")
    lg.setLevel(logging.WARNING)
    lg.propagate = False

"""Developer helper for C12: replay a case in-process and print a compact trace.

    HS_REPO=/tmp/wt-c12 /venv/bin/python -m hsverif.c12_dev replays/C12-xxxx.json [--trace]
    /venv/bin/python -m hsverif.c12_dev --scan single 0 2000 [--seed 0]     (run cases idx 0..2000 in-process, tally keys)
"""

from __future__ import annotations

import json
import sys
from collections import Counter

from hsverif.core import case_rng, ensure_repo_on_path

ensure_repo_on_path()


def main(argv):
    from hsverif.probe import quiet_library_logging
    from hsverif.props import c12

    quiet_library_logging()
    if argv and argv[0] == "--scan":
        fam = c12.FAMILIES[argv[1]]
        lo, hi = int(argv[2]), int(argv[3])
        seed = int(argv[argv.index("--seed") + 1]) if "--seed" in argv else 0
        tally = Counter()
        firsts = {}
        inconc = Counter()
        nontriv = 0
        for i in range(lo, hi):
            case = fam.gen(case_rng(seed, "C12", fam.name, i), "quick")
            r = fam.run(case)
            nontriv += bool(r.nontrivial)
            if r.inconclusive:
                inconc[r.inconclusive[:60]] += 1
            for k in {v.key() for v in r.violations}:
                tally[k] += 1
                firsts.setdefault(k, i)
        for k, c in tally.most_common():
            print(c, k, "first idx", firsts[k])
        print("nontrivial", nontriv, "of", hi - lo, "inconclusive", dict(inconc))
        return 0
    path = argv[0]
    rp = json.load(open(path))
    if "case" in rp and "family" in rp:
        fam, case = rp["family"], rp["case"]
    else:  # known-finding witness
        fam, case = rp["witness"]["family"], rp["witness"]["case"]
    if "--idx" in argv:
        pass
    r = c12.FAMILIES[fam].run(case)
    print("case:", json.dumps(case)[:1500])
    print("nontrivial", r.nontrivial, "inconclusive", r.inconclusive, "obs", r.obs)
    for v in r.violations:
        print("VIOLATION", v.key(), "\n   ", v.detail[:600])
        w = v.witness or {}
        for k, val in w.items():
            if k != "trace":
                print("   ", k, "=", json.dumps(val, default=str)[:800])
        if "--trace" in argv and isinstance(w, dict) and "trace" in w:
            for row in w["trace"]:
                print("     ", row)
            break
    return 0


def gen_case(family: str, idx: int, seed: int = 0):
    from hsverif.props import c12

    fam = c12.FAMILIES[family]
    return fam.gen(case_rng(seed, "C12", family, idx), "quick")


if __name__ == "__main__":
    sys.exit(main(sys.argv[1:]))

"""Developer helper for C12: replay a case in-process and print a compact trace.

    HS_REPO=/tmp/wt-c12 /venv/bin/python -m hsverif.c12_dev replays/C12-xxxx.json [--trace]
    /venv/bin/python -m hsverif.c12_dev --scan single 0 2000 [--seed 0]     (run cases idx 0..2000 in-process, tally keys)
"""

from __future__ import annotations

import json
import sys
from collections import Counter

from hsverif.core import case_rng, ensure_repo_on_path

ensure_repo_on_path()


def main(argv):
    from hsverif.probe import quiet_library_logging
    from hsverif.props import c12

    quiet_library_logging()
    if argv and argv[0] == "--scan":
        fam = c12.FAMILIES[argv[1]]
        lo, hi = int(argv[2]), int(argv[3])
        seed = int(argv[argv.index("--seed") + 1]) if "--seed" in argv else 0
        tally = Counter()
        firsts = {}
        inconc = Counter()
        nontriv = 0
        for i in range(lo, hi):
            case = fam.gen(case_rng(seed, "C12", fam.name, i), "quick")
            r = fam.run(case)
            nontriv += bool(r.nontrivial)
            if r.inconclusive:
                inconc[r.inconclusive[:60]] += 1
            for k in {v.key() for v in r.violations}:
                tally[k] += 1
                firsts.setdefault(k, i)
        for k, c in tally.most_common():
            print(c, k, "first idx", firsts[k])
        print("nontrivial", nontriv, "of", hi - lo, "inconclusive", dict(inconc))
        return 0
    if argv and argv[0] == "--pin":
        fams = argv[1].split(",")
        n = int(argv[2])
        best = pin(fams, n)
        out = {}
        for k, (size, fname, case, detail) in sorted(best.items()):
            print(size, k, detail[:200])
            out["|".join(k)] = {"family": fname, "case": case, "detail": detail}
        json.dump(out, open(argv[3], "w"), indent=1)
        return 0
    if argv and argv[0] == "--pin-all":
        # --pin-all family n out.json [per_key]: every shrunken candidate per key
        per_key = int(argv[4]) if len(argv) > 4 else 8
        cands = pin([argv[1]], int(argv[2]), per_key=per_key, keep_all=True)
        json.dump({"|".join(k): v for k, v in cands.items()}, open(argv[3], "w"), indent=1)
        print({"|".join(k): len(v) for k, v in cands.items()})
        return 0
    if argv and argv[0] == "--filter":
        # --filter in.json out.json: keep the candidates that still show their key (and only listed keys) on HS_REPO
        cands = json.load(open(argv[1]))
        out = {}
        for k, lst in cands.items():
            for c in lst:
                r = c12.FAMILIES[c["family"]].run(c["case"])
                keys = {"|".join(v.key()) for v in r.violations}
                if k in keys and keys <= set(cands):
                    out.setdefault(k, []).append(c)
        json.dump(out, open(argv[2], "w"), indent=1)
        print({k: (len(out.get(k, [])), len(v)) for k, v in cands.items()})
        return 0
    if argv and argv[0] == "--write-known":
        return write_known(argv[2:], argv[1])
    path = argv[0]
    rp = json.load(open(path))
    if "case" in rp and "family" in rp:
        fam, case = rp["family"], rp["case"]
    else:  # known-finding witness
        fam, case = rp["witness"]["family"], rp["witness"]["case"]
    if "--idx" in argv:
        pass
    r = c12.FAMILIES[fam].run(case)
    print("case:", json.dumps(case)[:1500])
    print("nontrivial", r.nontrivial, "inconclusive", r.inconclusive, "obs", r.obs)
    for v in r.violations:
        print("VIOLATION", v.key(), "\n   ", v.detail[:600])
        w = v.witness or {}
        for k, val in w.items():
            if k != "trace":
                print("   ", k, "=", json.dumps(val, default=str)[:800])
        if "--trace" in argv and isinstance(w, dict) and "trace" in w:
            for row in w["trace"]:
                print("     ", row)
            break
    return 0



WHAT = {
    "one-ballot-carried-two-values": "PaxosNode restarts phase 2 on every Promise beyond the quorum; a late Promise with an accepted value makes it send a second value under the same ballot, and two nodes decide different values",
    "phase2-resent-duplicate-accepted-counted-as-quorum": "PaxosNode re-sends Accept on every late Promise, the same acceptor answers Accepted twice and the duplicates are counted as a quorum; a value accepted by a minority is decided and another value is decided later",
    "accepted-counted-for-ballot-abandoned-by-retry": "PaxosNode counts Accepted messages for a ballot it abandoned in a Nack-driven retry and decides _proposed_values.get(old ballot) == None (a value nobody proposed; other nodes may decide a real value)",
    "phase2-run-for-ballot-abandoned-by-retry": "PaxosNode starts phase 2 for a ballot it abandoned in a retry when a late Promise arrives, sending Accept(value=None); None is accepted, adopted by a later ballot and decided",
    "accept-for-later-slot-appended-at-log-end": "{c} appends the command of an Accept for slot s at log end even when its log is shorter than s-1 (Accepts overtaking each other), so the command sits in the wrong slot and is committed there",
    "follower-commit-index-advanced-over-divergent-entry": "{c} follower advances commit_index to the leader's commit index over whatever entry it holds in that slot (an entry from another ballot), deciding a different command than the leader",
    "new-leader-overwrites-slot-reported-in-promise": "{c} ignores the log entries reported in Promises: a new leader proposes its own command for a slot another leader already committed",
    "two-leaders-proposed-different-commands-for-slot": "{c}: two leaders (ballot numbers collide / no recovery of accepted entries) each get their own command committed in the same slot",
    "submit-to-established-leader-never-replicated": "{c}.submit() on an established leader only appends to the local log; no Accept is ever sent, so the command is never decided or applied (the repository's example calls the private _replicate_slot itself)",
    "leader-demoted-by-own-heartbeat": "MultiPaxosNode handles its own heartbeat timer event as a heartbeat from another leader: it sets is_leader=False after one interval and stops sending heartbeats, so followers never learn the commit index",
    "future-kept-for-slot-overwritten-by-other-leader": "{c} keeps a submit() future under its slot number after the entry was overwritten by another leader; the future resolves with the slot of a different command",
    "committed-entry-truncated-by-accept-of-other-ballot": "{c} truncates its log from a slot it already reported committed when an Accept of another ballot arrives (commit_index goes back, the decided command changes)",
    "member-views-differed/term-from-local-counter": "LeaderElection terms are local counters (+1 per own election / per victory received, the announced term is ignored): participants whose member views differ for a while report different leaders for one term number",
    "member-views-differed/leader-replaced-by-heartbeat-carrying-equal-term": "LeaderElection accepts a LeaderHeartbeat whose (sender-local) term equals its own term from a different leader: one participant reports two different leaders for one of its term values (terms are local counters; seen only while member views differ)",
    "member-views-differed/announced-terms-collide": "LeaderElection: two participants with different member views each win an election and announce the same term number (local counters), followers adopt both (term, leader) pairs",
}
SLUG = {
    "one-ballot-carried-two-values": "two-values",
    "phase2-resent-duplicate-accepted-counted-as-quorum": "dup-accepted",
    "accepted-counted-for-ballot-abandoned-by-retry": "abandoned-accepted",
    "phase2-run-for-ballot-abandoned-by-retry": "abandoned-phase2",
    "accept-for-later-slot-appended-at-log-end": "gap-append",
    "follower-commit-index-advanced-over-divergent-entry": "commit-by-index",
    "new-leader-overwrites-slot-reported-in-promise": "no-recovery",
    "two-leaders-proposed-different-commands-for-slot": "two-leaders-slot",
    "submit-to-established-leader-never-replicated": "submit-not-replicated",
    "leader-demoted-by-own-heartbeat": "self-demotion",
    "future-kept-for-slot-overwritten-by-other-leader": "stale-slot-future",
    "committed-entry-truncated-by-accept-of-other-ballot": "truncate-committed",
    "member-views-differed/term-from-local-counter": "local-terms",
    "member-views-differed/announced-terms-collide": "local-terms-announced",
    "member-views-differed/leader-replaced-by-heartbeat-carrying-equal-term": "equal-term-heartbeat",
}
CS = {"PaxosNode": "paxos", "MultiPaxosNode": "multipaxos", "FlexiblePaxosNode": "flexpaxos", "LeaderElection": "election"}


def write_known(pin_files: list[str], out_path: str) -> int:
    """Turn pin files (from --pin) into the known-findings list; refuses pins that show an unlisted key."""
    from hsverif.props import c12

    pins: dict = {}
    for f in pin_files:
        pins.update(json.load(open(f)))
    out = []
    for k, p in sorted(pins.items()):
        comp, oracle, shape = k.split("|")
        r = c12.FAMILIES[p["family"]].run(p["case"])
        keys = {"|".join(v.key()) for v in r.violations}
        if k not in keys or not keys <= set(pins):
            print("REJECTED pin", k, "keys now:", keys)
            continue
        e = {
            "status": "known",
            "property": "C12",
            "id": f"C12-{CS[comp]}-{oracle}-{SLUG[shape]}",
            "component": comp,
            "oracle": oracle,
            "shape": shape,
            "what": WHAT[shape].format(c=comp),
            "witness": {"family": p["family"], "case": p["case"]},
            "observed": p["detail"][:300],
        }
        if comp == "PaxosNode":
            e["fix_proposed"] = "C12-paxos-phase2-once.diff"
        if shape == "leader-demoted-by-own-heartbeat":
            e["fix_proposed"] = "C12-multipaxos-self-heartbeat.diff"
        out.append(e)
    json.dump(out, open(out_path, "w"), indent=1)
    print("wrote", len(out), "entries")
    return 0


LIST_FIELDS = ["partitions", "crashes", "adds", "proposals", "submits", "starts", "ops"]


def shrink_case(case: dict, fails, max_tests: int = 120) -> dict:
    """Greedy shrink of a C12 case: drop list items, drop loss / rules, shorten the run."""
    from hsverif.core import ddmin

    cur = dict(case)
    for f in LIST_FIELDS:
        items = cur.get(f)
        if not items:
            continue
        if fails({**cur, f: []}):
            cur = {**cur, f: []}
            continue
        if len(items) >= 2:
            small = ddmin(items, lambda it, f=f: fails({**cur, f: it}), max_tests=max_tests)
            cur = {**cur, f: small}
    sc = cur.get("script")
    if isinstance(sc, dict):
        for patch in ({"loss": 0.0}, {"rules": []}, {"asym": {}}):
            k = next(iter(patch))
            if sc.get(k) and fails({**cur, "script": {**sc, **patch}}):
                sc = {**sc, **patch}
                cur = {**cur, "script": sc}
    if "end" in cur and cur.get("mode") != "live":
        lo, hi = 0.0, cur["end"]
        for _ in range(12):
            mid = round((lo + hi) / 2, 6)
            if fails({**cur, "end": mid}):
                hi = mid
            else:
                lo = mid
        cur = {**cur, "end": hi}
    return cur


def pin(families: list[str], n: int, seed: int = 0, per_key: int = 4, keep_all: bool = False) -> dict:
    """Scan n cases per family, keep up to per_key witnesses per mechanism key, shrink, return smallest per key."""
    import json as _json

    from hsverif.props import c12

    best: dict = {}
    for fname in families:
        fam = c12.FAMILIES[fname]
        cands: dict = {}
        for i in range(n):
            case = fam.gen(case_rng(seed, "C12", fname, i), "quick")
            r = fam.run(case)
            for k in {v.key() for v in r.violations}:
                lst = cands.setdefault(k, [])
                if len(lst) < per_key:
                    lst.append(case)
        for k, lst in cands.items():
            for case in lst:

                allowed = {v.key() for v in fam.run(case).violations}

                def fails(c, k=k, allowed=allowed):
                    try:
                        rr = fam.run(c)
                    except Exception:  # noqa: BLE001
                        return False
                    keys = {v.key() for v in rr.violations}
                    return k in keys and keys <= allowed

                small = shrink_case(case, fails)
                size = len(_json.dumps(small))
                if keep_all:
                    rr = fam.run(small)
                    v = next(v for v in rr.violations if v.key() == k)
                    best.setdefault(k, []).append({"family": fname, "case": small, "detail": v.detail})
                    continue
                if k not in best or size < best[k][0]:
                    rr = fam.run(small)
                    v = next(v for v in rr.violations if v.key() == k)
                    best[k] = (size, fname, small, v.detail)
    return best


def gen_case(family: str, idx: int, seed: int = 0):
    from hsverif.props import c12

    fam = c12.FAMILIES[family]
    return fam.gen(case_rng(seed, "C12", family, idx), "quick")


if __name__ == "__main__":
    sys.exit(main(sys.argv[1:]))

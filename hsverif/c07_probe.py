"""C07 monitors: EngineProbe plus attribution and coverage accounting.

`C07Probe` layers three cheap, transparent wrappers on top of
`hsverif.probe.EngineProbe` (which stays the deciding monitor: emission probe,
"Time travel detected" discard probe, instant counter):

* creator attribution - `Event.__init__` is wrapped; an event *created* with
  `time < clock.now` remembers the frame that created it (module, qualname), so
  a past emission made by library code that runs inside a harness generator
  (`yield from mq.poll()`) is still attributed to the library class that
  stamped it.  Continuations pushed in the past are attributed to the innermost
  generator of their process (`gi_yieldfrom` chain).
* spin attribution - a ring buffer of the last deliveries before the instant
  cap: (event type, target class, innermost generator qualname).  A frozen
  clock inside `yield from mutex.acquire()` is attributed to `Mutex.acquire`
  although the delivered continuation targets a harness worker.
* non-triviality counters - library emissions strictly in the future, parks on
  a SimFuture, resumptions of library generators after a positive delay.

`CoverageMonitor` uses sys.monitoring PY_START (each code object reports once
per case, then DISABLEs itself) restricted to `happysimulator/` to record which
component methods executed under the probes.
"""

from __future__ import annotations

import re
import sys
import threading
from collections import deque

from hsverif.probe import EngineProbe, _emitter_of, target_name  # noqa: F401

from happysimulator.core import event as _ev
from happysimulator.core import event_heap as _eh
from happysimulator.core import sim_future as _sf

_DIGITS = re.compile(r"\d+")
_HEX = re.compile(r"[0-9a-f]{8}-[0-9a-f]{4}-[0-9a-f]{4}-[0-9a-f]{4}-[0-9a-f]{12}")


def norm_type(event_type) -> str:
    """Event type with ids removed (never put ids into a mechanism key)."""
    s = str(event_type)
    s = _HEX.sub("#", s)
    s = _DIGITS.sub("#", s)
    # entity names are embedded in some poll types ("rate_limit_poll::<name>")
    if "::" in s:
        head, _, tail = s.partition("::")
        if head.endswith("_poll") or head.endswith("poll"):
            s = head + "::<name>"
    return s[:80]


def innermost_generator(gen):
    """Follow gi_yieldfrom to the generator that is actually suspended."""
    g = gen
    for _ in range(64):
        nxt = getattr(g, "gi_yieldfrom", None)
        if nxt is None or not hasattr(nxt, "gi_code"):
            return g
        g = nxt
    return g


def gen_location(gen) -> tuple[str, str]:
    """(module, qualname) of the innermost suspended generator of `gen`."""
    g = innermost_generator(gen)
    code = getattr(g, "gi_code", None)
    frame = getattr(g, "gi_frame", None)
    mod = ""
    if frame is not None:
        mod = frame.f_globals.get("__name__", "")
    qual = code.co_qualname if code is not None else "?"
    return mod, qual


def library_chain(gen) -> list[tuple[str, str]]:
    """All (module, qualname) on the yield-from chain, outermost first."""
    out = []
    g = gen
    for _ in range(64):
        code = getattr(g, "gi_code", None)
        frame = getattr(g, "gi_frame", None)
        if code is None:
            break
        out.append((frame.f_globals.get("__name__", "") if frame is not None else "", code.co_qualname))
        g = getattr(g, "gi_yieldfrom", None)
        if g is None:
            break
    return out


def is_library_module(mod: str) -> bool:
    """Emitters that count for C07: library code outside the engine core."""
    return mod.startswith("happysimulator.") and not mod.startswith("happysimulator.core")


def class_of_qualname(qual: str) -> str:
    return qual.split(".")[0] if qual else "?"


class C07Probe(EngineProbe):
    def __init__(self, *a, ignore_module_prefixes: tuple[str, ...] = (), **kw):
        super().__init__(*a, **kw)
        self.ignore_module_prefixes = ignore_module_prefixes
        self.c07_past: list[dict] = []  # attributed past emissions
        self.future_lib_emissions = 0
        self.late_lib_emissions = 0  # library pushes made after the clock left the first instant
        self._first_t = None
        self.parks = 0
        self.lib_resumes_after_delay = 0
        self.ring: deque = deque(maxlen=640)
        self.instants = 0  # distinct clock values visited (changes of the delivery time)
        self.self_rearms: dict[tuple, int] = {}  # near the cap: (class, module, type) re-armed at the same instant
        self._last_t = None
        self._stale_created: dict[int, tuple] = {}
        self._gen_last_t: dict[int, int] = {}
        self._c07_installed = False
        self._c07_lock = threading.Lock()

    # ------------------------------------------------------------------
    def install(self):
        super().install()
        if self._c07_installed:
            return
        probe = self
        clock_var = _sf._active_clock_var
        self._l_ev_init = _ev.Event.__init__
        self._l_pc = _ev.ProcessContinuation.invoke
        self._l_evi = _ev.Event.invoke
        self._l_push = _eh.EventHeap._push_single
        self._l_park = _sf.SimFuture._park
        orig_init, inner_pc, inner_evi, inner_push, orig_park = (
            self._l_ev_init,
            self._l_pc,
            self._l_evi,
            self._l_push,
            self._l_park,
        )
        PC = _ev.ProcessContinuation
        stale = self._stale_created
        ring = self.ring
        tl = self._tl
        near = max(1, self.instant_cap - 620) if self.instant_cap else None

        def ev_init(self, *args, **kwargs):
            orig_init(self, *args, **kwargs)
            clock = clock_var.get()
            if clock is not None:
                try:
                    past = self.time < clock.now
                except Exception:  # noqa: BLE001  (odd time types are the caller's problem)
                    past = False
                if past:
                    f = sys._getframe(1)
                    hops = 0
                    while f is not None and hops < 6:
                        code = f.f_code
                        if code.co_name == "__init__" and f.f_locals.get("self") is self:
                            f = f.f_back
                        elif code.co_name == "forward" and code.co_filename.endswith("core/entity.py"):
                            f = f.f_back
                        else:
                            break
                        hops += 1
                    if f is not None:
                        if len(stale) > 5000:
                            stale.clear()
                        stale[id(self)] = (self, f.f_globals.get("__name__", ""), f.f_code.co_qualname, f.f_lineno)

        def pc_invoke(self):
            if near is not None and getattr(tl, "inst_n", 0) >= near:
                mod, qual = gen_location(self.process)
                ring.append((norm_type(self.event_type), type(self.target).__name__, qual, mod, self.process))  # strong ref: no id reuse
            gid = id(self.process)
            prev = probe._gen_last_t.get(gid)
            t = self.time.nanoseconds
            if t != probe._last_t:
                probe._last_t = t
                probe.instants += 1
            if prev is not None and t > prev:
                mod, _ = gen_location(self.process)
                if is_library_module(mod):
                    probe.lib_resumes_after_delay += 1
            try:
                out = inner_pc(self)
            finally:
                pass
            if getattr(self.process, "gi_frame", None) is None:
                probe._gen_last_t.pop(gid, None)
            else:
                probe._gen_last_t[gid] = t
            return out

        def ev_invoke(self):
            if near is not None and getattr(tl, "inst_n", 0) >= near:
                cls = _emitter_of(self.target)
                ring.append((norm_type(self.event_type), cls[0], None, cls[1], None))
            t = self.time.nanoseconds
            if t != probe._last_t:
                probe._last_t = t
                probe.instants += 1
            return inner_evi(self)

        def push_single(heap, event):
            clock = clock_var.get()
            if clock is not None:
                now = clock.now
                et = event.time
                if et < now:
                    probe._record_past(event, now)
                else:
                    last = getattr(tl, "last", None)
                    if near is not None and et == now and last is not None and getattr(tl, "inst_n", 0) >= near:
                        # who keeps producing work for this very instant?
                        tcls = _emitter_of(event.target)
                        if tcls[0] == last[0] and not isinstance(event, PC):
                            k = (tcls[0], tcls[1], norm_type(event.event_type))
                            probe.self_rearms[k] = probe.self_rearms.get(k, 0) + 1
                    if last is not None and is_library_module(last[1]):
                        if et > now:
                            probe.future_lib_emissions += 1
                        if probe._first_t is None:
                            probe._first_t = now
                        elif now > probe._first_t:
                            probe.late_lib_emissions += 1
            return inner_push(heap, event)

        def park(fut, continuation):
            probe.parks += 1
            return orig_park(fut, continuation)

        self._PC = PC
        _ev.Event.__init__ = ev_init
        _ev.ProcessContinuation.invoke = pc_invoke
        _ev.Event.invoke = ev_invoke
        _eh.EventHeap._push_single = push_single
        _sf.SimFuture._park = park
        self._c07_installed = True

    def uninstall(self):
        if self._c07_installed:
            _ev.Event.__init__ = self._l_ev_init
            _ev.ProcessContinuation.invoke = self._l_pc
            _ev.Event.invoke = self._l_evi
            _eh.EventHeap._push_single = self._l_push
            _sf.SimFuture._park = self._l_park
            self._c07_installed = False
        super().uninstall()
        self._stale_created.clear()
        self._gen_last_t.clear()

    # ------------------------------------------------------------------
    def _record_past(self, event, now):
        last = getattr(self._tl, "last", None)
        rec = {
            "clock_ns": now.nanoseconds,
            "event_time_ns": event.time.nanoseconds,
            "behind_ns": now.nanoseconds - event.time.nanoseconds,
            "event_type": norm_type(event.event_type),
            "target_class": type(event.target).__name__,
            "delivery_class": last[0] if last else "pre-run",
            "delivery_module": last[1] if last else "",
            "during_event": norm_type(last[2]) if last else None,
            "event_id": (event.context or {}).get("id") if isinstance(event.context, dict) else None,
            "how": None,
            "creator": None,
            "creator_module": None,
        }
        if isinstance(event, self._PC) and getattr(event, "process", None) is not None:
            chain = library_chain(event.process)
            lib = [c for c in chain if is_library_module(c[0])]
            pick = lib[-1] if lib else (chain[-1] if chain else ("", "?"))
            rec.update(how="continuation", creator=pick[1], creator_module=pick[0])
            # the continuation carries the *caller's* event type: name the mechanism by the generator instead
            rec["event_type"] = f"negative-yield:{pick[1]}"
        else:
            st = self._stale_created.get(id(event))
            if st is not None and st[0] is event:
                rec.update(how="created-stale", creator=st[2], creator_module=st[1], creator_line=st[3])
            else:
                rec.update(how="restamped-or-held")
        # attribution: the creating frame when known, else the delivered entity
        if rec["creator_module"] is not None:
            rec["component"] = class_of_qualname(rec["creator"])
            rec["component_module"] = rec["creator_module"]
        else:
            rec["component"] = rec["delivery_class"]
            rec["component_module"] = rec["delivery_module"]
        with self._c07_lock:
            self.c07_past.append(rec)

    def attributed_past_emissions(self) -> list[dict]:
        """Past emissions whose responsible code lies in the library (not core, not ignored)."""
        # component_module is the creating frame's module when the creator is known
        # (event created stale / continuation of a generator), else the module of the
        # entity whose delivery pushed the event (held or re-stamped event).
        out = []
        for r in self.c07_past:
            mod = r["component_module"] or ""
            if not is_library_module(mod):
                continue
            if any(mod.startswith(p) for p in self.ignore_module_prefixes):
                continue
            out.append(r)
        return out

    def spin_signatures(self) -> list[tuple[str, str, list]]:
        """[(component, shape, cycle)] for a detected spin.

        1. a generator that is resumed again and again at the frozen instant (the same process
           >= 3 times in the last deliveries): `spin:<innermost library generator>`, one entry per
           function (`spin:Mutex.acquire`) - a zero-delay polling wait;
        2. else an entity that keeps scheduling an event for itself at the frozen instant:
           `rearm:<event type>` for that library class (`RateLimitedEntity`, `rearm:rate_limit_poll`);
        3. else the cycle of (library target class <- event type) pairs.
        """
        items = list(self.ring)[-600:]
        if not items:
            rec = getattr(self, "spin", None)
            items = [(norm_type(t), n, None, "", None) for t, n in (rec.recent if rec else [])]
        steps = []
        for it in items:
            key = (it[0], it[1], it[2], it[3])
            if key not in steps:
                steps.append(key)
        cyc = [list(s) for s in steps][:20]
        per_proc: dict[int, int] = {}
        for it in items:
            if it[4] is not None:
                per_proc[id(it[4])] = per_proc.get(id(it[4]), 0) + 1
        pollers = sorted(
            {it[2] for it in items if it[4] is not None and per_proc[id(it[4])] >= 3 and is_library_module(it[3])}
        )
        if pollers:
            return [(class_of_qualname(q), f"spin:{q}", cyc) for q in pollers]
        rearm = [(k, n) for k, n in self.self_rearms.items() if n >= 3 and is_library_module(k[1])]
        if rearm:
            return [(k[0], f"rearm:{k[2]}", cyc) for k, _ in sorted(rearm)]
        lib_tgt = [s for s in steps if is_library_module(s[3])]
        if lib_tgt:
            classes = sorted({s[1] for s in lib_tgt})
            shape = "cycle:" + "+".join(sorted({f"{s[1]}<-{s[0]}" for s in lib_tgt}))
            return [(classes[0], shape[:200], cyc)]
        shape = "cycle:" + "+".join(sorted({f"{s[1]}<-{s[0]}" for s in steps}))
        return [("harness", shape[:200], cyc)]


# ----------------------------------------------------------------------
# coverage accounting


class CoverageMonitor:
    """Which functions under happysimulator/{components,load,faults,instrumentation} ran."""

    TOOL_ID = 3

    def __init__(self):
        self.seen: set[tuple[str, str]] = set()
        self._active = False

    def start(self):
        mon = sys.monitoring
        if mon.get_tool(self.TOOL_ID) is None:
            mon.use_tool_id(self.TOOL_ID, "hsverif-c07")
        seen = self.seen
        disable = mon.DISABLE

        def on_start(code, offset):
            fn = code.co_filename
            i = fn.find("/happysimulator/")
            if i >= 0:
                seen.add((fn[i + 16 : -3], code.co_qualname))
            return disable

        mon.register_callback(self.TOOL_ID, mon.events.PY_START, on_start)
        mon.set_events(self.TOOL_ID, mon.events.PY_START)
        mon.restart_events()
        self._active = True

    def reset(self):
        self.seen.clear()
        if self._active:
            sys.monitoring.restart_events()

    def stop(self):
        if not self._active:
            return
        mon = sys.monitoring
        mon.set_events(self.TOOL_ID, 0)
        mon.register_callback(self.TOOL_ID, mon.events.PY_START, None)
        mon.free_tool_id(self.TOOL_ID)
        self._active = False


_CLASS_TABLE = None


def _is_noop(fn) -> bool:
    """True when the function body is only `pass` / `return None` / `return []` (after the docstring)."""
    import ast
    import inspect
    import textwrap

    try:
        tree = ast.parse(textwrap.dedent(inspect.getsource(fn)))
    except (OSError, TypeError, SyntaxError):
        return False
    body = tree.body[0].body
    if body and isinstance(body[0], ast.Expr) and isinstance(getattr(body[0], "value", None), ast.Constant):
        body = body[1:]
    if not body:
        return True
    if len(body) > 1:
        return False
    b = body[0]
    if isinstance(b, ast.Pass):
        return True
    if isinstance(b, ast.Return):
        v = b.value
        return v is None or (isinstance(v, ast.Constant) and v.value is None) or (isinstance(v, ast.List) and not v.elts)
    return False


def component_class_table() -> dict[str, dict]:
    """{class name: {"family", "module", "entry": [method names that count as 'driven']}}.

    Built by importing every module under happysimulator.components and listing
    Entity subclasses (plus non-entity classes with a public generator API).
    """
    global _CLASS_TABLE
    if _CLASS_TABLE is not None:
        return _CLASS_TABLE
    import importlib
    import inspect
    import pkgutil

    import happysimulator.components as C
    from happysimulator.core.entity import Entity

    table: dict[str, dict] = {}
    import happysimulator.faults as F
    import happysimulator.instrumentation as I
    import happysimulator.load as L

    mods = list(pkgutil.walk_packages(C.__path__, "happysimulator.components."))
    for pkg in (L, F, I):
        mods += list(pkgutil.walk_packages(pkg.__path__, pkg.__name__ + "."))
    for m in mods:
        try:
            mod = importlib.import_module(m.name)
        except Exception:  # noqa: BLE001
            continue
        in_components = m.name.startswith("happysimulator.components.")
        for n, o in vars(mod).items():
            if not (inspect.isclass(o) and o.__module__ == mod.__name__):
                continue
            if n.startswith("_") and not in_components:
                continue
            is_ent = issubclass(o, Entity)
            gens = [k for k, v in o.__dict__.items() if inspect.isgeneratorfunction(v) and not k.startswith("_")]
            is_fault = "generate_events" in o.__dict__ and not in_components
            if not (is_ent or gens or is_fault):
                continue
            if getattr(o, "_is_protocol", False):
                continue  # typing.Protocol stubs (Fault) have no behaviour to drive
            own = [k for k, v in o.__dict__.items() if inspect.isfunction(getattr(v, "__func__", v))]
            entry = [k for k in ("handle_event", "handle_queued_event", "generate_events") if k in o.__dict__] + gens
            # a no-op handle_event (sync primitives, Resource) is not an entry point
            if "handle_event" in entry and _is_noop(o.__dict__["handle_event"]):
                others = [k for k in own if not k.startswith("_") and k != "handle_event"]
                entry = [k for k in entry if k != "handle_event"] or others
            if not entry:
                entry = [k for k in own if not k.startswith("__")] or ["__init__"]
            parts = mod.__name__.split(".")
            fam = parts[2] if in_components else parts[1]
            rel = "/".join(parts[1:])
            table[n] = {"family": fam, "module": rel, "entry": sorted(set(entry))}
    _CLASS_TABLE = table
    return table


def driven_classes(seen: set[tuple[str, str]]) -> dict[str, list[str]]:
    """{family: [driven class names]} given the CoverageMonitor's seen set."""
    table = component_class_table()
    by_mod: dict[str, set[str]] = {}
    for rel, qual in seen:
        by_mod.setdefault(rel, set()).add(qual)
    out: dict[str, list[str]] = {}
    for cls, info in table.items():
        quals = by_mod.get(info["module"], ())
        if any(f"{cls}.{m}" in quals for m in info["entry"]):
            out.setdefault(info["family"], []).append(cls)
    return {k: sorted(v) for k, v in out.items()}

"""Known findings: committed, never written at run time.

/verif/known_findings.json (+ /verif/known_findings.d/*.json) hold a list of
entries:

  {"status": "known", "property": "C06", "id": "C06-overlap-uncrash",
   "component": "...", "oracle": "...", "shape": "...",     <- mechanism key
   "what": "one line for the KNOWN-FINDING output",
   "witness": {"family": "...", "case": {...}}}              <- pinned, re-run first

  {"status": "fixed", "property": "C10", "commit": "<sha>", "what": "...",
   "line": "fixed: property=C10 <sha> <what failed>"}

A fixed entry suppresses nothing.  A known entry suppresses exploration
violations with the same mechanism key *only if* its pinned witness still
fails in this run.
"""

from __future__ import annotations

import glob
import json
import os

HERE = os.path.dirname(os.path.dirname(os.path.abspath(__file__)))


def load_all() -> list[dict]:
    entries: list[dict] = []
    paths = [os.path.join(HERE, "known_findings.json")] + sorted(
        glob.glob(os.path.join(HERE, "known_findings.d", "*.json"))
    )
    for p in paths:
        if not os.path.exists(p):
            continue
        data = json.load(open(p))
        if isinstance(data, dict):
            data = data.get("findings", [])
        entries.extend(data)
    return entries


def for_property(pid: str) -> list[dict]:
    return [e for e in load_all() if e.get("property") == pid]


def key_of(entry: dict) -> tuple[str, str, str]:
    return (entry["component"], entry["oracle"], entry["shape"])

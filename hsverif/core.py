"""Shared vocabulary of the runtime-monitoring framework.

A *property module* (hsverif/props/cXX.py) exposes

    PID            "C07"
    LEVEL          "exploration" | "fault_enumeration"
    RULE           text: how cases are generated and what makes one non-trivial
    ASSUMPTIONS    list[str]
    FAMILIES       dict[name -> Family]
    BUDGET         {"quick": {family: n_cases}, "thorough": {family: n_cases}}

A Family separates *generation* from *execution* so that every case is a JSON
value that can be stored in a replay file and re-executed exactly:

    gen(rng, tier) -> case          (JSON-serialisable dict)
    run(case)      -> Result

Verdicts are three-valued per case: violated (>=1 Violation), inconclusive
(Result.inconclusive set, no violation), held (otherwise).
"""

from __future__ import annotations

import hashlib
import json
import os
import random
import sys
from dataclasses import dataclass, field
from typing import Any, Callable


# --------------------------------------------------------------------------
# repository import discipline


def repo_root() -> str:
    return os.path.abspath(os.environ.get("HS_REPO", "/repo"))


def ensure_repo_on_path() -> str:
    """Put HS_REPO first on sys.path and verify happysimulator comes from it."""
    root = repo_root()
    if sys.path[0] != root:
        # remove any earlier occurrence, then insert first
        sys.path[:] = [p for p in sys.path if os.path.abspath(p or ".") != root]
        sys.path.insert(0, root)
    import happysimulator  # noqa: PLC0415

    f = os.path.abspath(happysimulator.__file__)
    if not f.startswith(root + os.sep):
        raise RuntimeError(f"happysimulator imported from {f}, not from {root}")
    return root


# --------------------------------------------------------------------------
# results


@dataclass
class Violation:
    """One refuting observation.

    component / oracle / shape form the *mechanism key* used only to match
    known findings (never seeds or random values).  `detail` is free text
    for humans, `witness` any JSON value (events, history excerpt).
    """

    oracle: str
    component: str
    shape: str
    detail: str = ""
    witness: Any = None

    def key(self) -> tuple[str, str, str]:
        return (self.component, self.oracle, self.shape)

    def to_json(self) -> dict:
        return {
            "oracle": self.oracle,
            "component": self.component,
            "shape": self.shape,
            "detail": self.detail,
            "witness": self.witness,
        }


@dataclass
class Result:
    violations: list[Violation] = field(default_factory=list)
    nontrivial: bool = False
    inconclusive: str | None = None  # reason, if the deciding monitor saw nothing
    obs: dict[str, int] = field(default_factory=dict)  # summed into evidence
    sets: dict[str, list] = field(default_factory=dict)  # unioned into evidence (distinct things seen)
    fingerprint: str | None = None  # distinctness key; default = hash of the case

    def add(self, oracle: str, component: str, shape: str, detail: str = "", witness: Any = None):
        self.violations.append(Violation(oracle, component, shape, detail, witness))

    def count(self, name: str, n: int = 1):
        self.obs[name] = self.obs.get(name, 0) + n

    def seen(self, name: str, value):
        s = self.sets.setdefault(name, [])
        if value not in s:
            s.append(value)

    def to_json(self) -> dict:
        return {
            "violations": [v.to_json() for v in self.violations],
            "nontrivial": self.nontrivial,
            "inconclusive": self.inconclusive,
            "obs": self.obs,
            "sets": self.sets,
            "fingerprint": self.fingerprint,
        }


@dataclass
class Family:
    name: str
    gen: Callable[[random.Random, str], dict]
    run: Callable[[dict], Result]
    # optional: shrink(case, still_fails) -> smaller case
    shrink: Callable[[dict, Callable[[dict], bool]], dict] | None = None
    # per-case wall-clock watchdog in seconds (firing => inconclusive)
    case_timeout: float = 60.0


# --------------------------------------------------------------------------
# helpers


def case_hash(case: Any) -> str:
    return hashlib.sha256(json.dumps(case, sort_keys=True, default=str).encode()).hexdigest()[:16]


def case_rng(seed: int, pid: str, family: str, index: int) -> random.Random:
    """Independent, reproducible RNG for one case."""
    return random.Random(f"{seed}/{pid}/{family}/{index}")


def ddmin(items: list, fails: Callable[[list], bool], max_tests: int = 400) -> list:
    """Plain delta debugging over a list; returns a smaller list that still fails."""
    tests = 0
    n = 2
    cur = list(items)
    while len(cur) >= 2 and tests < max_tests:
        chunk = max(1, len(cur) // n)
        reduced = False
        for i in range(0, len(cur), chunk):
            cand = cur[:i] + cur[i + chunk :]
            tests += 1
            if cand and fails(cand):
                cur = cand
                n = max(n - 1, 2)
                reduced = True
                break
            if tests >= max_tests:
                break
        if not reduced:
            if chunk == 1:
                break
            n = min(len(cur), n * 2)
    return cur

"""Shard worker: executes cases of one family in a fresh interpreter.

    python -m hsverif.worker <jobfile> <outfile>

jobfile: {"pid","mode":"explore","family","tier","seed","start","end","samples"}
      or {"pid","mode":"replay","family","case"}
outfile: one JSON object per line, one line per case.
"""

from __future__ import annotations

import importlib
import json
import signal
import sys
import time
import traceback

from hsverif.core import Result, case_hash, case_rng, ensure_repo_on_path


class _Watchdog(Exception):
    pass


def _alarm(signum, frame):
    raise _Watchdog()


def load_module(pid: str):
    return importlib.import_module(f"hsverif.props.{pid.lower()}")


def _classify_exception(exc: BaseException) -> tuple[str, str]:
    """('library'|'harness', where) by innermost frame that is in either tree."""
    tb = traceback.extract_tb(exc.__traceback__)
    where = "?"
    origin = "harness"
    for fr in reversed(tb):
        fn = fr.filename
        if "/happysimulator/" in fn:
            origin = "library"
            where = f"{fn.split('/happysimulator/')[-1]}:{fr.name}"
            break
        if "/hsverif/" in fn:
            origin = "harness"
            where = f"{fn.split('/hsverif/')[-1]}:{fr.name}"
            break
    return origin, where


def run_one(family, case: dict) -> tuple[Result, float]:
    t0 = time.monotonic()
    signal.signal(signal.SIGALRM, _alarm)
    signal.setitimer(signal.ITIMER_REAL, family.case_timeout)
    try:
        res = family.run(case)
    except _Watchdog:
        res = Result(inconclusive="wall-clock watchdog")
        res.count("watchdog_fired")
    except RecursionError as exc:  # deep recursion inside the library is a library failure
        res = Result()
        origin, where = _classify_exception(exc)
        res.add("library-exception", where, "RecursionError", detail=str(exc)[:200])
    except Exception as exc:  # noqa: BLE001
        origin, where = _classify_exception(exc)
        res = Result()
        text = "".join(traceback.format_exception(type(exc), exc, exc.__traceback__))[-1500:]
        if origin == "library":
            res.add("library-exception", where, type(exc).__name__, detail=text)
        else:
            res.inconclusive = f"harness error at {where}: {type(exc).__name__}: {exc}"
            res.count("harness_errors")
            res.obs["_harness_error"] = 1
            res.sets["harness_error_text"] = [text[-600:]]
    finally:
        signal.setitimer(signal.ITIMER_REAL, 0)
    return res, time.monotonic() - t0


def main(argv: list[str]) -> int:
    jobfile, outfile = argv
    job = json.load(open(jobfile))
    ensure_repo_on_path()
    mod = load_module(job["pid"])
    family = mod.FAMILIES[job["family"]]
    with open(outfile, "w") as out:
        if job["mode"] == "replay":
            res, el = run_one(family, job["case"])
            out.write(
                json.dumps(
                    {"family": family.name, "index": -1, "case": job["case"], "result": res.to_json(), "elapsed": el},
                    default=str,
                )
                + "\n"
            )
            return 0
        if job["mode"] == "pins":
            for pin in job["pins"]:
                res, el = run_one(family, pin["case"])
                out.write(
                    json.dumps({"family": family.name, "index": -1, "pin": pin["ref"], "case": pin["case"], "result": res.to_json(), "elapsed": el}, default=str)
                    + "\n"
                )
                out.flush()
            return 0
        n_samples = job.get("samples", 0)
        no_shrink = {tuple(k) for k in job.get("no_shrink_keys", [])}
        for idx in range(job["start"], job["end"]):
            rng = case_rng(job["seed"], job["pid"], family.name, idx)
            rng.case_index = idx  # generators that enumerate a finite catalogue use these
            rng.verif_seed = job["seed"]
            try:
                case = family.gen(rng, job["tier"])
            except Exception as exc:  # noqa: BLE001  generator bug: harness error, not a verdict
                res = Result(inconclusive=f"generator error: {type(exc).__name__}: {exc}")
                res.obs["_harness_error"] = 1
                res.sets["harness_error_text"] = [traceback.format_exc()[-600:]]
                out.write(json.dumps({"family": family.name, "index": idx, "hash": f"generr{idx}", "result": res.to_json(), "elapsed": 0.0}) + "\n")
                continue
            res, el = run_one(family, case)
            shrunk = None
            if res.violations and family.shrink is not None and not all(v.key() in no_shrink for v in res.violations):
                key = next(v.key() for v in res.violations if v.key() not in no_shrink)

                def still_fails(c, key=key):
                    r, _ = run_one(family, c)
                    return any(v.key() == key for v in r.violations)

                try:
                    shrunk = family.shrink(case, still_fails)
                    r2, _ = run_one(family, shrunk)
                    if any(v.key() == key for v in r2.violations):
                        case, res = shrunk, r2
                except Exception:  # noqa: BLE001  shrinking is best effort
                    pass
            rec = {
                "family": family.name,
                "index": idx,
                "hash": case_hash(case),
                "result": res.to_json(),
                "elapsed": el,
            }
            if res.violations or idx < n_samples or res.inconclusive:
                rec["case"] = case
            out.write(json.dumps(rec, default=str) + "\n")
            out.flush()
    return 0


if __name__ == "__main__":
    sys.exit(main(sys.argv[1:]))

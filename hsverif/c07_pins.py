"""Maintenance tool for /verif/known_findings.d/C07.json.

    cd /verif && PYTHONPATH=/verif /venv/bin/python -m hsverif.c07_pins [--write] [--repo DIR]

Holds the C07 findings with their hand-shrunk pinned witnesses, re-runs every
witness against the repository (HS_REPO / --repo) and reports whether it still
produces exactly its mechanism key.  With --write the JSON file is regenerated
(never at check time: known findings are committed, not computed).
"""

from __future__ import annotations

import argparse
import json
import os
import sys

HERE = os.path.dirname(os.path.dirname(os.path.abspath(__file__)))
T = 1_000_003  # an awkward nanosecond

SYNC_NOTE = "zero-delay polling wait (`while not flag: yield 0.0`); repaired by C09-sync-waits-park.diff (park on a SimFuture)"


def _f(id_, component, oracle, shape, what, scenario, params, seed=0, **extra):
    e = {
        "status": "known",
        "property": "C07",
        "id": id_,
        "component": component,
        "oracle": oracle,
        "shape": shape,
        "what": what,
        "witness": {"family": scenario.split(".")[0], "case": {"scenario": scenario, "seed": seed, "params": params}},
    }
    mutate = extra.pop("mutate", None)
    if mutate:
        e["witness"]["case"]["mutate"] = mutate
    commit = extra.pop("fixed_commit", None)
    e.update(extra)
    if commit:
        # the repair has landed in /repo: a fixed entry suppresses nothing and is not re-run by the runner
        e["status"] = "fixed"
        e["commit"] = commit
        e["line"] = f"fixed: property=C07 {commit} {what}"
    return e


FINDINGS = [
    # ---- sync primitives: frozen clock while a holder keeps the primitive for a positive time
    _f(
        "C07-mutex-acquire-spin", "Mutex", "frozen-clock", "spin:Mutex.acquire",
        "Mutex.acquire() polls with `yield 0.0` while another process holds the lock for a positive time: the clock never advances",
        "sync.mutex_contention", {"arrivals_ns": [T, T]}, fix_proposed="C09-sync-waits-park.diff", fix_proposed_by="C09", fixed_commit="ae80af5", note=SYNC_NOTE,
    ),
    _f(
        "C07-semaphore-acquire-spin", "Semaphore", "frozen-clock", "spin:Semaphore.acquire",
        "Semaphore.acquire() polls with `yield 0.0` while the permits are held for a positive time: the clock never advances",
        "sync.semaphore_contention", {"arrivals_ns": [T, T], "cap": 2}, fix_proposed="C09-sync-waits-park.diff", fix_proposed_by="C09", fixed_commit="ae80af5", note=SYNC_NOTE,
    ),
    _f(
        "C07-rwlock-acquire-read-spin", "RWLock", "frozen-clock", "spin:RWLock.acquire_read",
        "RWLock.acquire_read() polls with `yield 0.0` behind a waiting writer: the clock never advances",
        "sync.rwlock_mixed", {"arrivals_ns": [T, T, T]}, fix_proposed="C09-sync-waits-park.diff", fix_proposed_by="C09", fixed_commit="ae80af5", note=SYNC_NOTE,
    ),
    _f(
        "C07-rwlock-acquire-write-spin", "RWLock", "frozen-clock", "spin:RWLock.acquire_write",
        "RWLock.acquire_write() polls with `yield 0.0` while a reader holds the lock for a positive time: the clock never advances",
        "sync.rwlock_mixed", {"arrivals_ns": [T, T, T]}, fix_proposed="C09-sync-waits-park.diff", fix_proposed_by="C09", fixed_commit="ae80af5", note=SYNC_NOTE,
    ),
    _f(
        "C07-barrier-wait-spin", "Barrier", "frozen-clock", "spin:Barrier.wait",
        "Barrier.wait() polls with `yield 0.0` until the last party arrives at a later time: the clock never advances",
        "sync.barrier_staggered", {"arrivals_ns": [T, T], "cap": 2}, fix_proposed="C09-sync-waits-park.diff", fix_proposed_by="C09", fixed_commit="ae80af5", note=SYNC_NOTE,
    ),
    _f(
        "C07-condition-wait-spin", "Condition", "frozen-clock", "spin:Condition.wait",
        "Condition.wait() polls with `yield 0.0` until a notifier that runs later: the clock never advances",
        "sync.condition_notify_all", {"arrivals_ns": [T]}, fix_proposed="C09-sync-waits-park.diff", fix_proposed_by="C09", fixed_commit="ae80af5", note=SYNC_NOTE,
    ),
    # ---- stale `now` reused after a yield
    _f(
        "C07-message-queue-delivery-stale-now", "MessageQueue", "past-emission", "message_delivery",
        "MessageQueue._deliver_message stamps the delivery event with the time read before `yield delivery_latency`; the engine discards it",
        "messaging.queue_poll_events", {"arrivals_ns": [T]}, fix_proposed="C19-mq-delivery-stamp.diff", fix_proposed_by="C19", fixed_commit="4a7a610",
    ),
    _f(
        "C07-topic-publish-stale-now", "Topic", "past-emission", "topic_message",
        "Topic.publish stamps every delivery event with the publish time although it returns them after the per-subscriber latencies",
        "messaging.topic_fanout_events", {"arrivals_ns": [T]}, fix_proposed="C19-mq-delivery-stamp.diff", fix_proposed_by="C19", fixed_commit="4a7a610",
    ),
    _f(
        "C07-outbox-relay-stale-now", "OutboxRelay", "past-emission", "outbox_relay",
        "OutboxRelay._handle_poll stamps relay events inside the loop and returns the batch after the relay latencies have elapsed",
        "microservice.outbox_relay_to_sink", {"arrivals_ns": [T, T]}, fix_proposed="C19-outbox-relay-stamp.diff", fix_proposed_by="C19", fixed_commit="8aef5e0",
    ),
    _f(
        "C07-distributed-rate-limiter-forward-stale", "DistributedRateLimiter", "past-emission", "forward::Request",
        "DistributedRateLimiter forwards with the arrival time (`event.time`) after the backing-store read/write round trips",
        "rate_limiter.distributed_shared_store", {"arrivals_ns": [T]}, fix_proposed="C10-distributed-forward-time.diff", fix_proposed_by="C10", fixed_commit="3c4ca95",
    ),
    _f(
        "C07-async-server-cpu-queue-stale", "AsyncServer", "past-emission", "_process_cpu_queue",
        "AsyncServer creates the `_process_cpu_queue` event before a generator io_handler runs and returns it after the I/O wait",
        "servers.async_server_io_generator", {"arrivals_ns": [T, T]}, fix_proposed="C07-async-server-cpu-queue-during-io.diff", fixed_commit="98b2278",
    ),
    _f(
        "C07-pooled-client-idle-timer-held", "PooledClient", "past-emission", "_pool_idle_timeout",
        "PooledClient._handle_timeout keeps the pool's idle-timeout event across `yield retry_delay`; it is in the past when the delay exceeds idle_timeout",
        "clients.pooled_client_short_idle_timeout", {}, fix_proposed="C07-pooled-client-release-events-now.diff", fixed_commit="a8f36bf",
    ),
    _f(
        "C07-cache-warmer-start-epoch", "CacheWarmer", "past-emission", "cache_warm",
        "CacheWarmer.start_warming() returns its kick-off event stamped Instant.Epoch; (re)started during a run it is in the past and dropped",
        "datastore.cache_warmer_rewarm", {}, fix_proposed="C07-cache-warmer-start-stamp.diff", fixed_commit="cd74c3f",
    ),
    # ---- zero wait with the condition still false
    _f(
        "C07-rate-limited-entity-fixed-window-zero-wait", "RateLimitedEntity", "frozen-clock", "rearm:rate_limit_poll::<name>@FixedWindowPolicy",
        "FixedWindowPolicy.time_until_available() returns zero on a window boundary while try_acquire() fails: RateLimitedEntity re-polls forever at one instant",
        "rate_limiter.fixed_window_round_window", {"arrivals_ns": [T] * 7, "cap": 2, "x": {"v": 0}},
        fix_proposed="C10-fixed-window-integer-ns.diff", fix_proposed_by="C10", fixed_commit="94ca4e1",
    ),
    _f(
        "C07-inductor-subresolution-poll", "Inductor", "frozen-clock", "rearm:inductor_poll::<name>",
        "Inductor re-polls after `Duration.from_seconds(smoothed_interval)`; a positive interval below 1 ns truncates to a zero wait that can never satisfy _can_forward()",
        "rate_limiter.inductor_burst", {"arrivals_ns": [2500000002, 2500000002, 2500000003, 2500000003]},
        fix_proposed="C10-inductor-poll-progress.diff", fix_proposed_by="C10", fixed_commit="e7fb3b2",
    ),
    _f(
        "C07-shifted-server-boundary-truncation", "ShiftedServer", "frozen-clock", "rearm:_ShiftChange",
        "ShiftedServer stamps the next shift change with a truncated instant that is still before the float boundary: the same transition is re-scheduled at one instant forever",
        "industrial.shifted_server_hostile", {}, fix_proposed="C07-shifted-server-boundary-ceil.diff", fixed_commit="4bf9cc9",
    ),
    # ---- periodic timers re-armed through a float round trip (interval = 1 ns)
    _f(
        "C07-stream-processor-watermark-1ns", "StreamProcessor", "frozen-clock", "rearm:Watermark",
        "StreamProcessor re-arms its watermark at Instant.from_seconds(now.to_seconds() + interval): with a 1 ns interval this truncates back to `now`",
        "streaming.processor_raw_watermark_interval", {"arrivals_ns": [14, 14], "lats": [0.001, 1e-09, 0.001, 0.001]},
        fix_proposed="C07-one-ns-periodic-timers.diff", fixed_commit="8438cc4",
    ),
    _f(
        "C07-event-log-retention-1ns", "EventLog", "frozen-clock", "rearm:RetentionCheck",
        "EventLog re-arms its retention check through a float round trip: with a 1 ns interval the next check is stamped at `now`",
        "streaming.event_log_raw_retention_interval", {"arrivals_ns": [T, T], "lats": [0.001, 0.001, 0.001, 1e-09]},
        fix_proposed="C07-one-ns-periodic-timers.diff", fixed_commit="8438cc4",
    ),
    _f(
        "C07-crdt-store-gossip-1ns", "CRDTStore", "frozen-clock", "rearm:GossipTick",
        "CRDTStore re-arms its gossip tick through a float round trip: with a 1 ns interval the next tick is stamped at `now`",
        "crdt.gossip_one_ns_interval", {"arrivals_ns": [T, T]}, fix_proposed="C07-one-ns-periodic-timers.diff", fixed_commit="8438cc4",
    ),
    _f(
        "C07-leader-node-anti-entropy-1ns", "LeaderNode", "frozen-clock", "rearm:AntiEntropy",
        "LeaderNode re-arms anti-entropy through a float round trip: with a 1 ns interval the next round is stamped at `now`",
        "replication.anti_entropy_one_ns_interval", {"arrivals_ns": [T, T]}, fix_proposed="C07-one-ns-periodic-timers.diff", fixed_commit="8438cc4",
    ),
    _f(
        "C07-advertiser-evaluation-1ns", "Advertiser", "frozen-clock", "rearm:EvaluateCampaigns",
        "Advertiser re-arms its evaluation at Instant.from_seconds(time_s + interval): with a 1 ns interval this truncates back to `now`",
        "advertising.advertiser_raw_evaluation_interval", {"arrivals_ns": [1001002, 13346681], "lats": [1e-09, 0.25, 0.0123456789]},
        fix_proposed="C07-one-ns-periodic-timers.diff", fixed_commit="8438cc4",
    ),
    # ---- found after the catalogue was widened (zero lead times, components started late)
    _f(
        "C07-inventory-zero-lead-time-1ns", "InventoryBuffer", "past-emission", "_InventoryReplenish",
        "InventoryBuffer stamps the replenishment via a float round trip: with lead_time=0 it lands 1 ns in the past for some instants and the reorder is lost for good",
        "industrial.inventory_zero_lead_time", {}, fix_proposed="C07-industrial-timers-relative-to-now.diff",
    ),
    _f(
        "C07-perishable-zero-lead-time-1ns", "PerishableInventory", "past-emission", "_PerishableReplenish",
        "PerishableInventory stamps the replenishment via a float round trip: with lead_time=0 it lands 1 ns in the past for some instants",
        "industrial.perishable_check_much_shorter_than_shelf", {"arrivals_ns": [1000000000, 1000000000]}, fix_proposed="C07-industrial-timers-relative-to-now.diff",
    ),
    _f(
        "C07-breakdown-start-event-from-epoch", "BreakdownScheduler", "past-emission", "_Breakdown",
        "BreakdownScheduler.start_event() stamps the time to first failure from the Epoch instead of now: in the past when started late or with start_time > 0",
        "industrial.late_start_cycles", {"arrivals_ns": [123456789, 123456789]}, seed=1, fix_proposed="C07-industrial-timers-relative-to-now.diff",
    ),
    _f(
        "C07-perishable-start-event-from-epoch", "PerishableInventory", "past-emission", "_SpoilageCheck",
        "PerishableInventory.start_event() stamps the first spoilage check from the Epoch instead of now: in the past when started late or with start_time > 0",
        "industrial.late_start_cycles", {"arrivals_ns": [1000000000, 1000000000]}, fix_proposed="C07-industrial-timers-relative-to-now.diff",
    ),
    _f(
        "C07-connection-pool-warmup-idle-timers-held", "ConnectionPool", "past-emission", "_pool_idle_timeout",
        "ConnectionPool._handle_warmup returns the idle-timeout events of all warm connections after the last one is set up: the earlier ones are in the past when set-up time exceeds idle_timeout",
        "clients.pool_acquire_timeouts", {'arrivals_ns': [223456796, 223456797], 'lats': [0.021, 0.003, 1e-09, 1e-09], 'counts': [1, 9, 10], 'cap': 3, 'hold': 0.0123456789, 'end': 10.0, 'x': {'v': 311}}, seed=6196, fix_proposed="C07-connection-pool-warmup-idle-timers.diff",
        mutate={'plan': {'1': {'cls': 'ConnectionPool', 'param': 'min_connections', 'value': 3, 'choice': '3'}}},
    ),
]


def check_all(verbose=True) -> list[tuple[dict, bool, list]]:
    from hsverif.props import c07

    out = []
    for e in FINDINGS:
        case = e["witness"]["case"]
        res = c07.run_case(case)
        keys = [v.key() for v in res.violations]
        want = (e["component"], e["oracle"], e["shape"])
        alive = want in keys
        ok = alive if e["status"] == "known" else not alive  # a fixed entry must be gone
        out.append((e, ok, keys))
        if verbose:
            state = ("alive " if alive else "gone  ") + ("" if ok else "UNEXPECTED ")
            print(state + f"[{e['status']}] " + e["id"], "| other keys:", [k for k in keys if k != want])
    return out


def main(argv=None):
    ap = argparse.ArgumentParser()
    ap.add_argument("--write", action="store_true")
    ap.add_argument("--repo", default=None)
    a = ap.parse_args(argv)
    if a.repo:
        os.environ["HS_REPO"] = a.repo
    results = check_all()
    if a.write:
        path = os.path.join(HERE, "known_findings.d", "C07.json")
        with open(path, "w") as f:
            json.dump(FINDINGS, f, indent=1)
            f.write("\n")
        print("wrote", path, len(FINDINGS), "entries")
    return 0 if all(ok for _, ok, _ in results) else 1


if __name__ == "__main__":
    sys.exit(main())

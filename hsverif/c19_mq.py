"""C19 / MessageQueue (+ DeadLetterQueue) inside a real simulation.

A case is an explicit op list (publish / poll / subscribe / unsubscribe at
millisecond times) plus a *reaction script*: what the k-th delivery received
by any harness consumer does (ack, reject, reject without requeue, let the
visibility timeout fire = `schedule_redelivery`, timeout followed by a late
ack / reject, ...).  Everything the oracle uses is recorded at the client
boundary (the harness calls publish/ack/reject/subscribe itself and its
consumer entities log every delivery event the engine hands them) or read
from public attributes (`get_message`, `pending_count`, `in_flight_count`,
`consumer_count`, `stats`, `DeadLetterQueue.messages`).
"""

from __future__ import annotations

import random

from hsverif.core import Result, ensure_repo_on_path

ensure_repo_on_path()

from happysimulator.components.messaging import DeadLetterQueue, MessageQueue, MessageState  # noqa: E402
from happysimulator.core.entity import Entity  # noqa: E402
from happysimulator.core.event import Event  # noqa: E402
from happysimulator.core.simulation import Simulation  # noqa: E402
from happysimulator.core.temporal import Duration, Instant  # noqa: E402

from hsverif.probe import EngineProbe  # noqa: E402

MS = 1_000_000  # ns

REACTIONS = [
    "ack",
    "ack_after",
    "rej",
    "rejdrop",
    "rej_after",
    "ignore",
    "timeout",
    "timeout2",
    "timeout_ack",
    "timeout_rej",
    "timeout_rejdrop",
]


# --------------------------------------------------------------------------
# generator


def gen_mq(rng: random.Random, tier: str) -> dict:
    n_cons = rng.randint(1, 4)
    latency = rng.choice([0.0, 0.0, 0.0, 0.001, 0.003, 0.02])
    redelivery_delay = rng.choice([0.05, 0.2, 1.0])
    rd_ms = int(redelivery_delay * 1000)
    maxred = rng.randint(0, 3)
    capacity = rng.choice([None, None, None, 2, 5])
    style = rng.choice(["mixed", "mixed", "happy", "timeouts", "rejects"])
    n_ops = rng.choice([4, 8, 15, 25, 40])
    ops = []
    t = 1
    pid = 0
    initial = [c for c in range(n_cons) if rng.random() < 0.7]
    reuse = rng.random() < 0.3
    for _ in range(n_ops):
        t += rng.choice([0, 1, 1, 2, 5, 20, 100, rd_ms])
        kind = rng.choices(["pub", "poll", "sub", "unsub"], weights=[4, 5, 1, 1])[0]
        if kind == "pub":
            op = {"t": t, "op": "pub", "pid": pid}
            if reuse and pid > 0 and rng.random() < 0.4:
                # a retrying producer publishes the very same Event object again / builds the
                # next payload around the same context dict (pid stays the id of the publish CALL)
                op[rng.choice(["same_as", "shared_ctx"])] = rng.randrange(pid)
            ops.append(op)
            pid += 1
        elif kind == "poll":
            ops.append({"t": t, "op": "poll"})
        else:
            ops.append({"t": t, "op": kind, "c": rng.randrange(n_cons)})
    weights = {
        "mixed": [4, 2, 2, 1, 1, 1, 2, 1, 2, 1, 1],
        "happy": [6, 3, 1, 0, 0, 0, 1, 0, 0, 0, 0],
        "timeouts": [2, 1, 0, 0, 0, 1, 4, 2, 4, 2, 1],
        "rejects": [2, 0, 5, 2, 3, 0, 1, 0, 0, 2, 1],
    }[style]
    delays = [0, 1, 3, 10, 40, rd_ms // 2, rd_ms + 7, 2 * rd_ms + 3]
    reactions = []
    for _ in range(rng.randint(1, 8)):
        reactions.append([rng.choices(REACTIONS, weights=weights)[0], rng.choice(delays), rng.choice(delays)])
    names = [f"c{i}" for i in range(n_cons)]
    if n_cons > 1 and rng.random() < 0.25:
        for i in rng.sample(range(n_cons), rng.randint(2, n_cons)):
            names[i] = "worker"  # distinct consumer entities (replicas) carrying one name
    return {
        "n_consumers": n_cons,
        "consumer_names": names,
        "initial_subs": initial,
        "latency": latency,
        "redelivery_delay": redelivery_delay,
        "max_redeliveries": maxred,
        "capacity": capacity,
        "poll_on_publish": rng.random() < 0.4,
        "poll_after_reaction": rng.random() < 0.4,
        "ops": ops,
        "reactions": reactions,
    }


def shrink_mq(case: dict, still_fails) -> dict:
    from hsverif.core import ddmin

    cur = dict(case)

    def with_ops(ops):
        c = dict(cur)
        c["ops"] = ops
        return c

    cur["ops"] = ddmin(cur["ops"], lambda ops: still_fails(with_ops(ops)), max_tests=120)

    def with_re(re):
        c = dict(cur)
        c["reactions"] = re
        return c

    if len(cur["reactions"]) > 1:
        cur["reactions"] = ddmin(cur["reactions"], lambda re: still_fails(with_re(re)), max_tests=60)
    for key, val in (("poll_on_publish", False), ("poll_after_reaction", False), ("capacity", None)):
        if cur.get(key) != val:
            c = dict(cur)
            c[key] = val
            if still_fails(c):
                cur = c
    return cur


# --------------------------------------------------------------------------
# harness entities


class _H:
    """Client-boundary history of one case."""

    def __init__(self):
        self.pub_seq = {}  # pid -> publish call order
        self.pub_time = {}  # pid -> ns of the publish call
        self.refused = set()  # pids refused at capacity
        self.mid_of = {}  # pid -> message id
        self.pid_of = {}  # message id -> pid
        self.receipts = []  # dicts
        self.acks = {}  # mid -> ns of the first effective acknowledge()
        self.drops = {}  # mid -> ns of the first effective reject(requeue=False)
        self.last_action = {}  # mid -> text
        self.flags = set()
        self.sub_changes = {}  # consumer name -> list[(ns, bool)]
        self.membership_changes = 0
        self.sub_instants = set()
        self.op_instants = {}  # ns -> list of op kinds handled at that instant
        self.redelivery_due = {}  # ns -> list[mid]
        self.n_timeouts_granted = 0
        self.rx_index = 0
        self.active = {}  # consumer uid -> subscribed (harness-side truth)
        self.payloads = {}  # pid -> payload Event object handed to publish()
        self.reused_labels = set()  # payload labels (context["pid"]) carried by more than one publish call
        self.n_acks_effective = 0
        self.dup_ids = []  # (pid, earlier pid, message id)
        self.requeued_while_pending = set()  # mids rejected with requeue while already waiting for redelivery
        self.last_flag = None  # most recent terminal action on a message that was waiting for its redelivery


class _Consumer(Entity):
    """`uid` is the harness-side identity of the entity object; `name` may be shared by several consumers."""

    def __init__(self, name, ctx, uid=None):
        super().__init__(name)
        self.ctx = ctx
        self.uid = uid or name

    def handle_event(self, event):
        ctx = self.ctx
        h = ctx["h"]
        q = ctx["q"]
        if event.event_type != "message_delivery":
            return None
        now = self.now.nanoseconds
        mid = event.context.get("message_id")
        payload = event.context.get("payload")
        label = payload.context.get("pid") if payload is not None else None
        attempt = event.context.get("delivery_count")
        live = q.get_message(mid)
        if mid in h.pid_of:
            pid = h.pid_of[mid]
        elif label is not None and label not in h.reused_labels:
            pid = label
            _learn(ctx, pid, mid)
        else:
            pid = None  # filled in after the run, once publish() has returned the id
        rec = {
            "t": now,
            "c": self.uid,
            "mid": mid,
            "pid": pid,
            "attempt": attempt,
            "seq": len(h.receipts),
            "live_count": getattr(live, "delivery_count", None),
            "live_last": live.last_delivered_at.nanoseconds if live is not None and live.last_delivered_at is not None else None,
        }
        h.receipts.append(rec)
        idx = h.rx_index
        h.rx_index += 1
        if now >= ctx["drain_start"]:
            kind, d1, d2 = "ack", 0, 0
        else:
            kind, d1, d2 = ctx["reactions"][idx % len(ctx["reactions"])]
        rec["reaction"] = kind
        return self._react(kind, d1 / 1000.0, d2 / 1000.0, mid)

    def _react(self, kind, d1, d2, mid):
        ctx = self.ctx
        q = ctx["q"]
        out = []
        if kind == "ack":
            _ack(ctx, mid, self)
        elif kind == "ack_after":
            yield d1
            _ack(ctx, mid, self)
        elif kind == "rej":
            _reject(ctx, mid, True, self)
        elif kind == "rejdrop":
            _reject(ctx, mid, False, self)
        elif kind == "rej_after":
            yield d1
            _reject(ctx, mid, True, self)
        elif kind == "ignore":
            return None
        elif kind == "timeout":
            yield d1
            out = _timeout(ctx, mid, self)
        elif kind == "timeout2":
            yield d1
            ev = _timeout(ctx, mid, self)
            yield d2, ev
            out = _timeout(ctx, mid, self)
        elif kind in ("timeout_ack", "timeout_rej", "timeout_rejdrop"):
            yield d1
            ev = _timeout(ctx, mid, self)
            yield d2, ev
            if kind == "timeout_ack":
                _ack(ctx, mid, self)
            else:
                _reject(ctx, mid, kind == "timeout_rej", self)
        if ctx["poll_after_reaction"]:
            out = list(out) + [Event(time=self.now, event_type="poll", target=q)]
            _note_op(ctx["h"], self.now.nanoseconds, "poll")
        return out


def _learn(ctx, pid, mid):
    """The harness learns a message id (publish returned, or first delivery seen)."""
    h = ctx["h"]
    if mid in h.pid_of:
        return
    h.pid_of[mid] = pid
    h.mid_of.setdefault(pid, mid)
    live = ctx["q"].get_message(mid)
    # dispatches that happened while the id was unknown are in the unattributed part of the dispatch log
    ctx["seen_count"][mid] = live.delivery_count if live is not None else 0


def _note_op(h, now, kind):
    h.op_instants.setdefault(now, []).append(kind)


def _state_name(msg):
    if msg is None:
        return "gone"
    return msg.state.value


def _ack(ctx, mid, who):
    h, q = ctx["h"], ctx["q"]
    now = who.now.nanoseconds
    live = q.get_message(mid)
    _note_op(h, now, "ack")
    if live is not None:
        if live.state == MessageState.PENDING:
            h.flags.add("ack-while-pending-redelivery")
            h.last_flag = "ack-while-pending-redelivery"
        h.acks.setdefault(mid, now)
        h.n_acks_effective += 1
        h.last_action[mid] = "ack"
    q.acknowledge(mid)


def _reject(ctx, mid, requeue, who):
    h, q = ctx["h"], ctx["q"]
    now = who.now.nanoseconds
    live = q.get_message(mid)
    _note_op(h, now, "reject")
    if live is not None:
        if live.state == MessageState.PENDING:
            h.flags.add("reject-while-pending-redelivery")
            h.last_flag = "reject-while-pending-redelivery"
            if requeue:
                h.requeued_while_pending.add(mid)
        if not requeue:
            h.drops.setdefault(mid, now)
        h.last_action[mid] = "reject-requeue" if requeue else "reject-no-requeue"
    q.reject(mid, requeue=requeue)


def _timeout(ctx, mid, who):
    """The visibility timeout of `mid` fires: ask the queue for a redelivery."""
    h, q = ctx["h"], ctx["q"]
    now = who.now.nanoseconds
    live = q.get_message(mid)
    _note_op(h, now, "timeout")
    ev = q.schedule_redelivery(mid)
    if live is not None:
        h.last_action[mid] = "timeout-granted" if ev is not None else "timeout-refused"
    if ev is None:
        return []
    h.n_timeouts_granted += 1
    h.redelivery_due.setdefault(ev.time.nanoseconds, []).append(mid)
    return [ev]


class _Driver(Entity):
    def __init__(self, name, ctx):
        super().__init__(name)
        self.ctx = ctx

    def handle_event(self, event):
        ctx = self.ctx
        h, q = ctx["h"], ctx["q"]
        op = event.context["op"]
        now = self.now.nanoseconds
        kind = op["op"]
        _note_op(h, now, kind)
        if kind == "pub":
            ctx["cur_op"] = op
            return self._publish(op["pid"])
        if kind == "poll":
            return [Event(time=self.now, event_type="poll", target=q)]
        if kind in ("sub", "unsub"):
            c = ctx["consumers"][op["c"]]
            # client-boundary truth: after subscribe(c) the entity c is subscribed, after unsubscribe(c) it is not
            before = h.active.get(c.uid, False)
            if kind == "sub":
                q.subscribe(c)
            else:
                q.unsubscribe(c)
            h.sub_instants.add(now)
            h.active[c.uid] = kind == "sub"
            if h.active[c.uid] != before:
                h.membership_changes += 1
                h.sub_changes[c.uid].append((now, kind == "sub"))
            return None
        if kind == "sweep":
            out = []
            for mid in list(h.pid_of):
                live = q.get_message(mid)
                if live is not None and live.state == MessageState.DELIVERED:
                    out.extend(_timeout(ctx, mid, self))
            return out
        return None

    def _publish(self, pid):
        ctx = self.ctx
        h, q = ctx["h"], ctx["q"]
        h.pub_seq[pid] = len(h.pub_seq)
        h.pub_time[pid] = self.now.nanoseconds
        op = self.ctx["cur_op"]
        src = h.payloads.get(op.get("same_as", op.get("shared_ctx")))
        if src is not None and "same_as" in op:
            msg = src
            h.reused_labels.add(src.context.get("pid"))
        elif src is not None:
            msg = Event(time=self.now, event_type="payload", target=self, context=src.context)
            h.reused_labels.add(src.context.get("pid"))
        else:
            msg = Event(time=self.now, event_type="payload", target=self, context={"pid": pid})
        h.payloads[pid] = msg
        full = q.is_full
        try:
            mid = yield from q.publish(msg)
        except RuntimeError as exc:
            if "capacity" not in str(exc):
                raise
            h.refused.add(pid)
            ctx["res"].count("publishes_refused_at_capacity")
            if not full:
                ctx["res"].add("capacity-admission", "MessageQueue", "refused-while-not-full", f"pid {pid}")
            return None
        if full:
            ctx["res"].add("capacity-admission", "MessageQueue", "admitted-while-full", f"pid {pid}")
        if mid in h.pid_of and h.pid_of[mid] != pid:
            h.dup_ids.append((pid, h.pid_of[mid], mid))
        h.mid_of[pid] = mid
        _learn(ctx, pid, mid)
        if ctx["poll_on_publish"]:
            _note_op(h, self.now.nanoseconds, "poll")
            return [Event(time=self.now, event_type="poll", target=q)]
        return None


# --------------------------------------------------------------------------
# run + oracles


def _subscribed_at(h, name, initial, x):
    """True/False = status of consumer `name` at instant x; None = changes exactly at x (tie)."""
    st = initial
    for t, on in h.sub_changes[name]:
        if t < x:
            st = on
        elif t == x:
            return None
    return st


def run_mq(case: dict) -> Result:
    res = Result()
    h = _H()
    L = float(case["latency"])
    L_ns = Duration.from_seconds(L).nanoseconds
    rd = float(case["redelivery_delay"])
    rd_ns = Duration.from_seconds(rd).nanoseconds
    maxred = int(case["max_redeliveries"])
    dlq = DeadLetterQueue("dlq")
    q = MessageQueue(
        "q",
        delivery_latency=L,
        redelivery_delay=rd,
        max_redeliveries=maxred,
        capacity=case.get("capacity"),
        dead_letter_queue=dlq,
    )
    reactions = case["reactions"] or [["ack", 0, 0]]
    ctx = {
        "h": h,
        "q": q,
        "res": res,
        "reactions": reactions,
        "poll_on_publish": bool(case.get("poll_on_publish")),
        "poll_after_reaction": bool(case.get("poll_after_reaction")),
        "seen_count": {},
    }
    cnames = case.get("consumer_names") or [f"c{i}" for i in range(case["n_consumers"])]
    consumers = [_Consumer(cnames[i], ctx, uid=f"c{i}") for i in range(case["n_consumers"])]
    names_shared = len(set(cnames)) < len(cnames)
    ctx["consumers"] = consumers
    drv = _Driver("drv", ctx)
    initial = set(case.get("initial_subs", []))
    for i, c in enumerate(consumers):
        h.sub_changes[c.uid] = []
        if i in initial:
            q.subscribe(c)
            h.active[c.uid] = True

    # ---- op schedule: scripted part, then a drain phase
    ops = sorted(case["ops"], key=lambda o: o["t"])
    n_pub = sum(1 for o in ops if o["op"] == "pub")
    t_last = ops[-1]["t"] if ops else 1
    max_react_ms = max([r[1] + r[2] for r in reactions] + [0])
    lat_ms = int(L * 1000) + 1
    step = max(2 * lat_ms, 2)
    n_polls = n_pub * (maxred + 3) + 4
    d0 = t_last + 1
    d1 = d0 + max_react_ms + 3 * lat_ms + 1
    d2 = d1 + n_polls * step + int(rd * 1000) + 3 * lat_ms + 1
    d3 = d2 + n_polls * step + int(rd * 1000) + 3 * lat_ms + 1
    ctx["drain_start"] = d0 * MS
    drain = [{"t": d0, "op": "sub", "c": 0}, {"t": d1, "op": "sweep"}]
    drain += [{"t": d1 + 1 + k * step, "op": "poll"} for k in range(n_polls)]
    drain += [{"t": d2, "op": "sweep"}]
    drain += [{"t": d2 + 1 + k * step, "op": "poll"} for k in range(n_polls)]
    end_ms = d3 + 1000

    sim = Simulation(entities=[q, dlq, drv, *consumers], end_time=Instant(end_ms * MS))
    for op in ops + drain:
        sim.schedule(Event(time=Instant(op["t"] * MS), event_type="op", target=drv, context={"op": op}))

    # ---- end-of-instant monitor
    mon = {
        "prev_t": 0,
        "prev_dispatch": 0,
        "prev_count": {},
        "prev_pending": set(),
        "max_count": {},
        "dead_at": {},
        "reported": set(),
        "root": False,
        "deferred": [],
        "instants": 0,
    }

    def report(oracle, shape, detail, witness=None):
        k = (oracle, shape)
        if k in mon["reported"]:
            return
        mon["reported"].add(k)
        res.add(oracle, "MessageQueue", shape, detail, witness)

    def cause():
        # structural precondition: the latest ack/reject of a message whose visibility timeout had already
        # put it back into the pending queue (None = no such action happened before the observation)
        return h.last_flag or "no-terminal-action-on-a-requeued-message"

    def end_of_instant(t):
        """State after every event of instant t has run."""
        mon["instants"] += 1
        dead_ids = {}
        for m in dlq.messages:
            dead_ids[m.id] = m
            if m.id not in mon["dead_at"]:
                mon["dead_at"][m.id] = t
            mon["max_count"][m.id] = max(mon["max_count"].get(m.id, 0), m.delivery_count)
        n_pending = n_inflight = 0
        pending_now = set()
        counts = {}
        for mid, pid in h.pid_of.items():
            live = q.get_message(mid)
            states = []
            if live is not None:
                counts[mid] = live.delivery_count
                mon["max_count"][mid] = max(mon["max_count"].get(mid, 0), live.delivery_count)
                if live.state == MessageState.PENDING:
                    states.append("pending")
                    n_pending += 1
                    pending_now.add(mid)
                elif live.state == MessageState.DELIVERED:
                    states.append("in-flight")
                    n_inflight += 1
                else:
                    states.append("state-" + live.state.value)
            if mid in h.acks:
                states.append("acknowledged")
            if mid in dead_ids:
                states.append("dead-lettered")
            res.count("accounting_checks")
            if len(states) != 1 or states[0].startswith("state-"):
                if not states:
                    shape = "lost-after-" + h.last_action.get(mid, "publish")
                else:
                    shape = "states:" + "+".join(states)
                report(
                    "accounting",
                    shape,
                    f"message pid={pid} is {states or 'nowhere'} at t={t}ns (last client action: {h.last_action.get(mid)})",
                    {"pid": pid, "t_ns": t, "states": states},
                )
                mon["root"] = True
            if mid in h.drops and mid not in dead_ids and h.drops[mid] <= t and mid not in h.acks:
                report(
                    "accounting",
                    "reject-without-requeue-not-dead-lettered",
                    f"pid={pid} rejected with requeue=False at {h.drops[mid]}ns is not in the dead-letter queue at {t}ns",
                )
                mon["root"] = True
        unknown = len(h.pub_seq) - len(h.refused) - sum(1 for p in h.pub_seq if p in h.mid_of)
        if True:
            # messages whose id the harness does not know yet (published < 0.1 ms ago) are pending or in flight
            res.count("counter_checks")
            pc, fc = q.pending_count, q.in_flight_count
            rel = []
            if pc > n_pending + unknown or pc < n_pending:
                rel.append("pending_count" + (">" if pc > n_pending else "<") + "pending-messages")
            if fc > n_inflight + unknown or fc < n_inflight:
                rel.append("in_flight_count" + (">" if fc > n_inflight else "<") + "in-flight-messages")
            # (a message whose id is still unknown may already be acknowledged, so with unknown ids only the upper bound is exact;
            #  the conservation check over publish calls below is exact in every case)
            if not rel and (pc + fc > n_pending + n_inflight + unknown or (unknown == 0 and pc + fc != n_pending + n_inflight)):
                rel.append("pending_count+in_flight_count" + (">" if pc + fc > n_pending + n_inflight + unknown else "<") + "live-messages")
            if rel:
                if "counters" not in mon:
                    # reported at the end, together with what it led to
                    mon["counters"] = {
                        "shape": ",".join(rel) + "/" + cause(),
                        "detail": f"t={t}ns pending_count={pc} but {n_pending} live messages are pending; in_flight_count={fc} "
                        f"but {n_inflight} live messages are in flight",
                        "witness": {"t_ns": t, "pending_count": pc, "in_flight_count": fc, "pending": n_pending, "in_flight": n_inflight},
                    }
                mon["root"] = True
        n_active = sum(1 for v in h.active.values() if v)
        res.count("consumer_count_checks")
        if q.consumer_count != n_active:
            report(
                "subscribed-consumers",
                "consumer_count-differs-from-subscribed-entities/" + ("consumer-entities-share-a-name" if names_shared else "distinct-names"),
                f"t={t}ns {n_active} consumer entities are subscribed (subscribe() returned, no unsubscribe since) but consumer_count={q.consumer_count}",
            )
        # conservation over publish CALLS (harness-side ids, independent of payload identity):
        # every accepted publish is pending, in flight, acknowledged or dead-lettered
        accepted = len(h.pub_seq) - len(h.refused)
        accounted = q.pending_count + q.in_flight_count + h.n_acks_effective + len(dlq.messages)
        res.count("conservation_checks")
        if accepted != accounted and "conservation" not in mon:
            mon["conservation"] = (
                t,
                f"t={t}ns {accepted} publish calls accepted but pending_count {q.pending_count} + in_flight_count {q.in_flight_count} "
                f"+ acknowledged {h.n_acks_effective} + dead-lettered {len(dlq.messages)} = {accounted}",
                accepted > accounted,
            )
        dispatch = q.stats.messages_delivered + q.stats.messages_redelivered
        kinds = h.op_instants.get(t, [])
        # a poll with a message pending before and after, consumers present, must dispatch something
        if "poll" in kinds and t not in h.sub_instants:
            still = mon["prev_pending"] & pending_now
            if still and q.consumer_count >= 1 and mon["consumers_prev"] >= 1 and dispatch == mon["prev_dispatch"]:
                mon["idle_polls"] = mon.get("idle_polls", 0) + 1
                # reported at the end, and only if no accounting / counter defect explains it
                mon["deferred"].append(
                    (
                        "poll-not-dispatched",
                        cause(),
                        f"poll at t={t}ns with pids {sorted(h.pid_of[m] for m in still)} pending and {q.consumer_count} consumers dispatched nothing",
                    )
                )
            res.count("polls_checked")
        # a requested redelivery must be dispatched when due
        for mid in h.redelivery_due.get(t, []):
            res.count("redeliveries_due_checked")
            if t in h.sub_instants:
                continue
            before = mon["prev_count"].get(mid)
            live = q.get_message(mid)
            if before is None or live is None or mid in h.acks or mid in dead_ids:
                continue
            if q.consumer_count >= 1 and mon["consumers_prev"] >= 1 and live.delivery_count <= before:
                mon["deferred"].append(
                    (
                        "requested-redelivery-not-dispatched",
                        cause(),
                        f"redelivery of pid={h.pid_of[mid]} due at t={t}ns: delivery_count stayed {before}, state {live.state.value}",
                    )
                )
        mon["prev_dispatch"] = dispatch
        mon["prev_count"] = counts
        mon["prev_pending"] = pending_now
        mon["consumers_prev"] = q.consumer_count

    mon["consumers_prev"] = q.consumer_count

    def on_advance(new_time):
        end_of_instant(mon["prev_t"])
        mon["prev_t"] = new_time.nanoseconds

    sim.control.on_time_advance(on_advance)

    # dispatch log: every increment of the queue's own delivered/redelivered counters, with the instant
    # and (when the id is already known to the harness) the message it belongs to
    disp = {"n": 0, "log": []}
    seen = ctx["seen_count"]

    def after_event(_event):
        st = q.stats
        d = st.messages_delivered + st.messages_redelivered
        if d == disp["n"]:
            return
        delta = d - disp["n"]
        disp["n"] = d
        now = drv.now.nanoseconds
        for mid in h.pid_of:
            live = q.get_message(mid)
            if live is None:
                continue
            k = live.delivery_count - seen.get(mid, 0)
            if k > 0:
                seen[mid] = live.delivery_count
                k = min(k, delta)
                delta -= k
                disp["log"].extend([mid, now, False] for _ in range(k))
                if delta == 0:
                    break
        disp["log"].extend([None, now, False] for _ in range(delta))

    sim.control.on_event(after_event)

    with EngineProbe(log_deliveries=False, instant_cap=20000, total_cap=400000) as p:
        status = p.run(sim)
    if status != "completed":
        res.inconclusive = f"run status {status}"
        return res
    end_of_instant(mon["prev_t"])
    t_end = mon["prev_t"]

    # ---- per-receipt oracles
    init_names = {consumers[i].uid for i in initial if i < len(consumers)}
    first_order = []
    by_mid = {}
    attributed = {}
    unattributed = {}
    for ent in disp["log"]:
        (attributed if ent[0] is not None else unattributed).setdefault((ent[0], ent[1]), []).append(ent)
    unmatched_receipts = []
    for r in h.receipts:
        res.count("deliveries_received")
        mid, t = r["mid"], r["t"]
        pid = r["pid"] if r["pid"] is not None else h.pid_of.get(mid)
        first = mid not in by_mid
        by_mid.setdefault(mid, []).append(r)
        x = t - L_ns  # dispatch instant
        res.count("delivery_instants_checked")
        pool = [e for e in attributed.get((mid, x), []) if not e[2]] or [e for e in unattributed.get((None, x), []) if not e[2]]
        if pool:
            pool[0][2] = True
        else:
            unmatched_receipts.append(r)
        st = _subscribed_at(h, r["c"], r["c"] in init_names, x)
        if st is False:
            report(
                "delivered-to-unsubscribed-consumer",
                "latency>0" if L_ns else "latency=0",
                f"pid={pid} attempt {r['attempt']} dispatched at {x}ns to {r['c']} which was not subscribed then",
            )
        if mid in h.acks and h.acks[mid] < x:
            report(
                "delivery-after-ack",
                "dispatched-after-ack",
                f"pid={pid} acknowledged at {h.acks[mid]}ns, attempt {r['attempt']} dispatched at {x}ns, received {t}ns",
            )
        elif mid in h.acks and h.acks[mid] < t:
            res.count("arrivals_after_ack_already_in_transit")
        if mid in mon["dead_at"] and mon["dead_at"][mid] < x:
            report(
                "delivery-after-dead-letter",
                "dispatched-after-dead-letter",
                f"pid={pid} dead-lettered by {mon['dead_at'][mid]}ns, attempt {r['attempt']} dispatched at {x}ns",
            )
        if len(by_mid[mid]) > maxred + 1:
            report(
                "exceeds-redelivery-limit",
                "deliveries>1+max_redeliveries/"
                + ("message-requeued-by-reject-while-pending-redelivery" if mid in h.requeued_while_pending else "message-never-requeued-twice"),
                f"pid={pid} delivered {len(by_mid[mid])} times with max_redeliveries={maxred}",
            )
        if r["attempt"] != len(by_mid[mid]):
            res.count("attempt_label_differs_from_arrival_rank")
        if first and pid in h.pub_seq:
            first_order.append((h.pub_seq[pid], pid, t))
    for a, b in zip(first_order, first_order[1:]):
        res.count("first_delivery_pairs_checked")
        if b[0] < a[0]:
            report(
                "first-delivery-order",
                "later-publish-delivered-first",
                f"pid={a[1]} (publish #{a[0]}) first delivered at {a[2]}ns before pid={b[1]} (publish #{b[0]}) at {b[2]}ns",
            )
            break

    # ---- every dispatch is received exactly delivery_latency later, and nothing else is received
    total_dispatch = disp["n"]
    res.count("dispatches_checked", total_dispatch)
    lost = [e for e in disp["log"] if not e[2] and e[1] + L_ns <= t_end]
    discarded = [tt for tt in p.time_travel if tt.get("event_type") == "message_delivery"]
    missing_total = len(lost)
    if lost:
        if L_ns > 0 and len(discarded) >= len(lost):
            shape = "latency>0/delivery-event-stamped-before-latency-discarded-by-engine"
        elif L_ns > 0:
            shape = "latency>0/not-discarded-by-engine"
        else:
            shape = "latency=0"
        examples = [{"pid": h.pid_of.get(e[0]), "dispatched_ns": e[1]} for e in lost[:4]]
        report(
            "delivery-never-received",
            shape,
            f"{len(lost)} of {total_dispatch} dispatched deliveries never reached a consumer "
            f"(engine discarded {len(discarded)} message_delivery events as time travel); e.g. {examples}",
            {"examples": examples, "time_travel": discarded[:2]},
        )
    if unmatched_receipts:
        r = unmatched_receipts[0]
        report(
            "delivery-instant",
            "latency>0" if L_ns else "latency=0",
            f"{len(unmatched_receipts)} deliveries received without a dispatch exactly {L_ns}ns earlier, e.g. pid={r['pid']} "
            f"attempt {r['attempt']} received by {r['c']} at {r['t']}ns; dispatches of it: "
            f"{[e[1] for e in disp['log'] if e[0] == r['mid']]}",
        )

    # ---- after the drain every message is acknowledged or dead-lettered
    stranded = []
    if not missing_total:
        dead_ids = {m.id for m in dlq.messages}
        for pid in h.pub_seq:
            if pid in h.refused:
                continue
            mid = h.mid_of.get(pid)
            res.count("drain_checks")
            if mid is None or (mid not in h.acks and mid not in dead_ids):
                live = q.get_message(mid) if mid else None
                stranded.append((pid, _state_name(live)))
        if stranded and not mon["root"]:
            report(
                "stranded-after-drain",
                "state:" + "+".join(sorted({s for _, s in stranded})) + "/" + cause(),
                f"after {2 * n_polls} polls, timeouts and an acknowledging consumer, pids {stranded[:6]} are neither acknowledged nor dead-lettered",
            )
    reuse_shape = "payload-event-or-context-published-twice" if h.reused_labels else "distinct-payloads"
    if h.dup_ids:
        pid2, pid1, mid = h.dup_ids[0]
        report(
            "accounting",
            "two-publish-calls-share-one-message-id/" + reuse_shape,
            f"{len(h.dup_ids)} publish calls were given the message id of an earlier, different publish call (e.g. calls #{pid1} and "
            f"#{pid2} -> {mid!r}): the later message replaces the earlier one in the queue's table",
        )
    if "conservation" in mon and "counters" not in mon:
        _t, detail, fewer = mon["conservation"]
        report("accounting", ("publish-calls>accounted-for/" if fewer else "publish-calls<accounted-for/") + reuse_shape, detail)
    if not mon["root"]:
        for oracle, shape, detail in mon["deferred"]:
            report(oracle, shape, detail)
    if "counters" in mon:
        c = mon["counters"]
        extra = f"; afterwards {mon.get('idle_polls', 0)} polls with a message pending and a consumer subscribed dispatched nothing"
        if stranded:
            extra += f" and after the drain pids {stranded[:6]} are neither acknowledged nor dead-lettered"
        report("queue-counters", c["shape"], c["detail"] + extra, c["witness"])

    # ---- evidence
    res.count("events_monitored", p.n_deliveries)
    res.count("instants_sampled", mon["instants"])
    res.count("timeouts_granted", h.n_timeouts_granted)
    res.count("membership_changes", h.membership_changes)
    red = q.stats.messages_redelivered
    res.count("redeliveries_dispatched", red)
    res.count("dead_lettered", len(dlq.messages))
    res.count("acks", len(h.acks))
    if L_ns > 0:
        res.count("cases_latency_positive")
    else:
        res.count("cases_latency_zero")
    for f in h.flags:
        res.count("flag_" + f)
    res.nontrivial = red >= 1 and h.membership_changes >= 2  # the drain's own subscribe may count once
    res.seen("reaction_kinds", sorted({r.get("reaction") for r in h.receipts if r.get("reaction")}))
    del t_end, rd_ns
    return res

"""C10  Rate limiters never over-admit and report time-until-available truthfully.

Two monitor layers, both on the real classes:

* policy families (token / leaky / sliding / fixed / adaptive): the policy object is
  driven directly with generated `Instant`s (integer nanoseconds kept by the harness).
  Oracles: the interval bound of the property statement over the list of admitted
  timestamps; truthfulness of `time_until_available` probed on deep copies
  (zero => immediate acquire succeeds, w > 0 => no acquire succeeds at now, now + w/2,
  now + w - 1 ns; waiting the returned duration reaches an admitting instant after at most
  MAX_WAITS waits); for the adaptive policy `min <= current_rate <= max` after every feedback op.
* simulation families (rle / inductor / dist / null): the limiter entity runs inside a real
  `Simulation` under `EngineProbe` caps.  Client-boundary log = instance-level wrapper
  around `limiter.handle_event` (public stats before / after each delivery) plus a
  recording downstream entity.  Oracles: every tagged request forwarded, queued or dropped
  exactly once in total; forwards in arrival order; no frozen clock; the queue drains
  within a generous horizon after the last arrival.
"""

from __future__ import annotations

import bisect
import copy
import random
from fractions import Fraction

from hsverif.core import Family, Result, ddmin

PID = "C10"
LEVEL = "exploration"
MAX_WAITS = 3
RULE = (
    "Policy families: generated nondecreasing arrival sequences in integer ns (<= 200 ops) built from segments "
    "'exact multiples of the window / refill period', '+-1/2 ns around them', 'float multiples k*w converted like "
    "Instant.from_seconds', dense (0/1/2 ns and sub-period steps), same-instant bursts, sparse; parameters from small "
    "grids incl. windows 0.1/0.2/0.3/0.7/0.29 s whose float multiples are inexact; adaptive: random "
    "success/failure/timeout feedback interleaved. Each op is a try_acquire (optionally preceded by a clone "
    "truthfulness probe or a real time_until_available call), or a read-only query on the real object alone "
    "(time_until_available only / public attribute reads) issued in every state: fresh, full after an idle period, "
    "just refilled, exhausted; composite segments 'query while full -> idle gap -> ns-adjacent burst larger than the allowance'. Non-trivial (policy families): >= 1 arrival exactly on a "
    "window / refill boundary (measured from the case times) and >= 1 denial (measured from try_acquire). "
    "All families run at absolute time origins 0, 1 day, 1e9 s, 1.7e9 s, 1.727e9 s and 4e9 s (Simulation.start_time set "
    "accordingly), with arrivals up to 300 ns around period boundaries, all oracles on integer nanoseconds. "
    "Long-history families (long: policy object driven directly; rle_long: behind RateLimitedEntity): one policy object "
    "sees a saturating stream sized for 1300-4500 admissions (high rates / 1-50 ms windows, 1.3-3x overload, +-1 ns jitter, "
    "rare idle periods, 8 % probe / query ops), same integer-ns oracles; non-trivial: > 1024 admissions and >= 1 denial. "
    "Simulation families: in 35 % of the cases (30 % of rle_long) the limiter entities are renamed after construction "
    "(entity.name = ...), before the run or at an instant during it while they hold no queued request; "
    "sender-side Event.cancel() of requests strictly after their arrival (40 % of rle / inductor cases); "
    "<= 60 tagged requests injected pre-run or by a feeder entity into RateLimitedEntity (every "
    "policy, queue capacity 0-5), Inductor, two DistributedRateLimiter instances over one KVStore with latency > 0, "
    "NullRateLimiter. Non-trivial (simulation families): >= 1 request queued or dropped (dist: >= 1 forwarded and >= 1 "
    "rejected; null: >= 2 requests). Distinct by hash of the case."
)
ASSUMPTIONS = [
    "arrival instants are nondecreasing and >= 0 (policies are not asked about the past); absolute times up to ~4e9 s "
    "(time origins 0, 1 day, 1e9 s, 1.7e9 s, 1.727e9 s, 4e9 s; Simulation.start_time set accordingly)",
    "a limiter is renamed during the run only at an instant at which its queue is empty (a pending drain poll carries the "
    "old name in its event type and HEAD stops recognising it, which is a misuse outside the property)",
    "sender-side Event.cancel() is only issued strictly after the request's arrival instant; on HEAD that has no effect "
    "on a delivered request, which is therefore still owed exactly one of forwarded / queued / dropped",
    "parameters are positive: rates in [0.3, 1e4]/s, capacity >= 1 (initial_tokens may exceed capacity: the bucket must still never hold more than capacity), windows >= 1 ms",
    "fixed-window alignment is to multiples of the window from the epoch; boundary nanoseconds (k*W +- 1 ns) are excluded "
    "from the per-aligned-window count (they are covered by the 2N-in-any-window-length clause)",
    "tolerances: token/adaptive bound + 1e-6 token; leaky spacing and sliding window - 1 ns",
    "adaptive bound is the lenient reading: count(i..j) <= max(1, Rmax*window) + Rmax*(t_j - t_i) with Rmax the largest rate in "
    "effect between the first policy query at instant t_i and admission j (tokens are only clamped at a refill)",
    f"'within a few steps' = at most {MAX_WAITS} waits of the returned duration",
    "drain horizon in simulations = last arrival + (queue_capacity + 3) * slowest admission period + 1 s "
    "(Inductor: (4 * queue_capacity + 8) * largest inter-arrival gap + 1 s); kept alive by a non-daemon sentinel event, no end_time",
    "DistributedRateLimiter is checked for exactly-once and order only (no global bound is stated for it)",
]
MUST_OBSERVE = ["acquires_checked", "tua_probes", "requests_tracked", "cancels_on_queued_requests", "histories_over_1024_admissions", "histories_over_4096_admissions", "renames_applied"]

NS = 1_000_000_000


# --------------------------------------------------------------------------
# building the real objects


def make_policy(spec: dict):
    from happysimulator.components.rate_limiter import (
        AdaptivePolicy,
        FixedWindowPolicy,
        LeakyBucketPolicy,
        SlidingWindowPolicy,
        TokenBucketPolicy,
    )

    k, p = spec["kind"], spec["params"]
    if k == "token":
        return TokenBucketPolicy(capacity=p["capacity"], refill_rate=p["refill_rate"], initial_tokens=p.get("initial_tokens"))
    if k == "leaky":
        return LeakyBucketPolicy(leak_rate=p["leak_rate"])
    if k == "sliding":
        return SlidingWindowPolicy(window_size_seconds=p["window"], max_requests=p["n"])
    if k == "fixed":
        return FixedWindowPolicy(requests_per_window=p["n"], window_size=p["window"])
    if k == "adaptive":
        return AdaptivePolicy(
            initial_rate=p["initial_rate"],
            min_rate=p["min_rate"],
            max_rate=p["max_rate"],
            increase_step=p.get("increase_step"),
            decrease_factor=p["decrease_factor"],
            window_size=p["window"],
        )
    raise KeyError(k)


def period_ns(spec: dict) -> int:
    """Window / refill / leak period in integer ns (the true decimal value, not the float's truncation)."""
    k, p = spec["kind"], spec["params"]
    if k == "token":
        return max(1, round(NS / p["refill_rate"]))
    if k == "leaky":
        return max(1, round(NS / p["leak_rate"]))
    if k in ("sliding", "fixed"):
        return max(1, round(p["window"] * NS))
    if k == "adaptive":
        return max(1, round(NS / p["initial_rate"]))
    raise KeyError(k)


def slowest_admission_ns(spec: dict) -> int:
    """Upper bound on the time one more admission can take once the limiter is saturated."""
    k, p = spec["kind"], spec["params"]
    if k == "token":
        return round(NS / p["refill_rate"]) + 2
    if k == "leaky":
        return round(NS / p["leak_rate"]) + 2
    if k in ("sliding", "fixed"):
        return round(p["window"] * NS) + 2
    if k == "adaptive":
        return round(NS / p["initial_rate"]) + 2
    raise KeyError(k)


# --------------------------------------------------------------------------
# generators


WINDOWS = [0.1, 0.2, 0.3, 0.7, 0.05, 0.25, 1.0, 0.29, 0.001, 0.6, 1.1, 1.001, 1.003]  # 1.001, 1.003: int(w*1e9) is 1 ns short
RATES = [0.5, 1.0, 2.0, 3.0, 7.0, 10.0, 100.0, 1000.0, 10000.0, 0.3, 3.3]


# Absolute time origins: the epoch, one day, and Unix-epoch style start times where a double's grid is
# coarser than 1 ns (float(ns) is quantised to 128-512 ns between 1e9 s and 4e9 s).
BASES_NS = [0, 0, 0, 0, 86_400 * NS, 10**9 * NS, 1_700_000_000 * NS, 1_727_000_000 * NS + 123_456_789, 4 * 10**9 * NS]


def gen_times(
    rng: random.Random,
    P: int,
    wf: float | None,
    n: int,
    anchor: int = 0,
    fill: int = 1,
    burst: int = 3,
    marks: dict | None = None,
) -> list[int]:
    """Nondecreasing arrival instants (ns) around multiples of P counted from `anchor`.

    `fill` = number of periods after which an idle limiter is certainly back to its full allowance,
    `burst` = size of that allowance.  When `marks` is given (policy families) the composite segment
    'query-idle-burst' is generated too and forces op kinds by index: read-only queries
    ('t' = time_until_available only, 'r' = public attribute reads) in a full / just-refilled state,
    an idle gap, then a nanosecond-adjacent burst of acquires larger than the allowance.
    """
    t = anchor
    out: list[int] = []
    segs = ["boundary", "boundary", "near", "near-wide", "dense", "burst", "sparse", "sub", "idle"]
    if wf is not None:
        segs += ["floatmult", "truncmult"]
    if marks is not None:
        segs += ["query-idle-burst", "query-idle-burst"]
    while len(out) < n:
        seg = rng.choice(segs)
        if seg == "query-idle-burst":
            if rng.random() < 0.7:  # let the limiter recover its full allowance first
                t += rng.randrange(fill * P, 3 * fill * P + 2)
            elif rng.random() < 0.5:  # or sit exactly on / next to the instant it becomes full
                t = anchor + ((t - anchor) // P + fill) * P + rng.choice([-1, 0, 0, 1])
            for _ in range(rng.choice([1, 1, 2, 3])):  # queries; repeated ones are spaced by idle time
                marks[len(out)] = rng.choice(["t", "t", "t", "r"])
                out.append(t)
                if rng.random() < 0.5:
                    t += rng.choice([0, 1, P, 2 * P, fill * P])
            t += rng.choice([P, P + 1, 2 * P, fill * P, fill * P + 1, rng.randrange(P, 3 * fill * P + 2)])
            for _ in range(rng.randrange(2, min(burst, 12) + 4)):
                marks[len(out)] = rng.choice(["a", "a", "a", "a", "q", "p"])
                out.append(t)
                t += rng.choice([0, 0, 1, 1, 1, 2])
            continue
        m = rng.randrange(1, 10)
        for _ in range(m):
            if len(out) >= n:
                break
            k = (t - anchor) // P
            if seg == "boundary":
                t2 = anchor + (k + rng.choice([0, 1, 1, 1, 2, 3])) * P
            elif seg == "near":
                t2 = anchor + (k + rng.choice([0, 1, 1, 2])) * P + rng.choice([-2, -1, -1, 0, 1, 1, 2])
            elif seg == "near-wide":
                # up to 300 ns around a boundary: the float grid at ~1e9 s is 128-512 ns wide
                t2 = anchor + (k + rng.choice([0, 1, 1, 2])) * P + rng.randrange(-300, 301)
            elif seg == "floatmult":
                kk = k + rng.choice([0, 1, 1, 2, 3])
                t2 = int((anchor / NS + kk * wf) * NS)  # what Instant.from_seconds(t0 + k * w) gives a user
            elif seg == "truncmult":
                # multiples of the *truncated* period int(w*1e9): where an implementation that converts the
                # window with Duration.from_seconds would put its boundaries (drifts 1 ns per window for 1.001 s)
                pt = max(1, int(wf * NS))
                t2 = ((t // pt) + rng.choice([0, 1, 1, 2])) * pt + rng.choice([-1, -1, 0, 0, 1])
            elif seg == "dense":
                t2 = t + rng.choice([0, 0, 1, 1, 2, 3, 10])
            elif seg == "burst":
                t2 = t
            elif seg == "sub":
                t2 = t + max(1, P // rng.choice([2, 3, 4, 5, 7, 10, 16]))
            elif seg == "idle":
                t2 = t + rng.randrange(fill * P, 3 * fill * P + 2)
                t = max(t, t2, 0)
                out.append(t)
                break  # one arrival after the idle period, then another segment
            else:
                t2 = t + rng.randrange(P, 4 * P + 1)
            t = max(t, t2, 0)
            out.append(t)
    return out[:n] if marks is None else out


def _op_kinds(rng: random.Random) -> list[str]:
    """a = acquire, p = clone probe + acquire, q = real time_until_available + acquire,
    t = real time_until_available only, r = read the public attributes only."""
    style = rng.choice(["probe-all", "mixed", "mixed", "acquire-mostly", "real-tua", "query-heavy"])
    if style == "probe-all":
        return ["p", "p", "p", "p", "t"]
    if style == "mixed":
        return ["p", "p", "a", "q", "t", "r"]
    if style == "real-tua":
        return ["q", "q", "p", "a", "t"]
    if style == "query-heavy":
        return ["t", "t", "r", "a", "a", "q"]
    return ["a", "a", "a", "a", "p", "t"]


def gen_policy(kind: str):
    def gen(rng: random.Random, tier: str) -> dict:
        if kind == "token":
            cap = rng.choice([1.0, 1.5, 2.0, 3.0, 5.0, 10.0, 25.0])
            params = {
                "capacity": cap,
                "refill_rate": rng.choice(RATES),
                "initial_tokens": rng.choice([None, None, 0.0, 0.5, 1.0, cap, cap * 2, cap + 0.5]),
            }
            wf = 1.0 / params["refill_rate"]
        elif kind == "leaky":
            params = {"leak_rate": rng.choice(RATES)}
            wf = 1.0 / params["leak_rate"]
        elif kind in ("sliding", "fixed"):
            params = {"window": rng.choice(WINDOWS), "n": rng.choice([1, 1, 2, 3, 5, 10])}
            wf = params["window"]
        else:
            lo = rng.choice([0.5, 1.0, 2.0, 10.0])
            hi = lo * rng.choice([1.0, 2.0, 10.0, 100.0])
            init = rng.choice([lo, hi, (lo + hi) / 2, min(hi, lo * 3)])
            params = {
                "initial_rate": init,
                "min_rate": lo,
                "max_rate": hi,
                "increase_step": rng.choice([None, 0.5, 1.0, 7.0, hi]),
                "decrease_factor": rng.choice([0.5, 0.1, 0.9, 0.75]),
                "window": rng.choice([1.0, 0.1, 0.5, 2.0]),
            }
            wf = 1.0 / init
        spec = {"kind": kind, "params": params}
        P = period_ns(spec)
        n = rng.choice([5, 12, 30, 60, 120, 200])
        anchor = rng.choice([0, 0, 0, P, 7 * P, rng.randrange(0, 3 * P + 1)])
        base = rng.choice(BASES_NS)
        if base:
            # fixed windows are aligned to the epoch: keep the anchor on an aligned boundary (or off it, as drawn)
            anchor += -(-base // P) * P if kind == "fixed" else base
        if kind == "token":
            fill, burst = int(params["capacity"]) + 1, int(params["capacity"])
        elif kind == "leaky":
            fill, burst = 1, 1
        elif kind in ("sliding", "fixed"):
            fill, burst = rng.choice([1, 2]), params["n"]
        else:  # a full adaptive bucket holds rate*window tokens: `window` seconds of refill at any rate
            fill, burst = int(params["window"] * NS / P) + 1, max(1, int(params["initial_rate"] * params["window"]))
        marks: dict = {}
        times = gen_times(rng, P, wf, n, anchor, fill=fill, burst=burst, marks=marks)
        kinds = _op_kinds(rng)
        ops = []
        for i, t in enumerate(times):
            if kind == "adaptive" and rng.random() < 0.35:
                for _ in range(rng.choice([1, 1, 2, 5])):
                    ops.append([rng.choice(["s", "s", "f", "to"]), t])
            ops.append([marks.get(i) or rng.choice(kinds), t])
        if ops and rng.random() < 0.3:  # first touch of a freshly constructed policy is a read-only query
            for o in ops:
                if o[0] in ("a", "p", "q", "t", "r"):
                    o[0] = rng.choice(["t", "t", "r"])
                    break
        return {"policy": spec, "ops": ops[:260], "anchor": anchor}

    return gen


def _long_spec(rng: random.Random, kind: str) -> tuple[dict, int]:
    """High-rate / short-window parameters so that thousands of admissions stay cheap.
    Returns (spec, ns of simulated time per admission at saturation)."""
    if kind in ("sliding", "fixed"):
        params = {"window": rng.choice([0.01, 0.01, 0.001, 0.05]), "n": rng.choice([5, 10, 50])}
        per = round(params["window"] * NS) // params["n"]
    elif kind == "token":
        params = {"capacity": rng.choice([1.0, 5.0, 50.0]), "refill_rate": rng.choice([1000.0, 10000.0, 3333.0]), "initial_tokens": None}
        per = round(NS / params["refill_rate"])
    elif kind == "leaky":
        params = {"leak_rate": rng.choice([1000.0, 10000.0, 3333.0])}
        per = round(NS / params["leak_rate"])
    else:
        params = {
            "initial_rate": rng.choice([1000.0, 2000.0]),
            "min_rate": 100.0,
            "max_rate": 10000.0,
            "increase_step": rng.choice([None, 10.0]),
            "decrease_factor": rng.choice([0.5, 0.9]),
            "window": rng.choice([0.01, 0.05]),
        }
        per = round(NS / params["initial_rate"])
    return {"kind": kind, "params": params}, max(1, per)


def _long_times(rng: random.Random, per: int, target: int, start: int, idle: int) -> list[int]:
    """Saturating stream sized for about `target` admissions: steps around per/overload with +-1 ns jitter,
    repeats, and a rare idle period."""
    over = rng.choice([1.3, 2.0, 3.0])
    step = max(1, int(per / over))
    t = start
    out = []
    for _ in range(int(target * over * 1.15)):
        r = rng.random()
        if r < 0.002:
            t += idle
        else:
            t += rng.choice([step, step, step, step - 1, step + 1, 0, 2 * step])
        out.append(t)
    return out


def gen_long(rng: random.Random, tier: str) -> dict:
    """Long history through ONE policy object: > 1024 and > 4096 admissions."""
    kind = rng.choice(["token", "leaky", "sliding", "fixed", "adaptive"])
    spec, per = _long_spec(rng, kind)
    P = period_ns(spec)
    target = rng.choice([1300, 1300, 2600, 4500])
    start = rng.choice([0, 0, 1_700_000_000 * NS])
    if kind == "fixed" and start:
        start = -(-start // P) * P
    times = _long_times(rng, per, target, start, 3 * P)
    ops = []
    for t in times:
        if kind == "adaptive" and rng.random() < 0.01:
            ops.append([rng.choice(["s", "s", "f"]), t])
        ops.append([rng.choice(["a"] * 46 + ["p", "p", "q", "t"]), t])
    return {"policy": spec, "ops": ops, "anchor": start, "long": True}


def run_long(case: dict) -> Result:
    res = run_policy(case)
    n_adm = res.obs.get("admitted_total", 0)
    res.count("long_histories")
    res.count("long_history_admissions", n_adm)
    if n_adm > 1024:
        res.count("histories_over_1024_admissions")
    if n_adm > 4096:
        res.count("histories_over_4096_admissions")
    res.nontrivial = n_adm > 1024 and res.obs.get("denials", 0) > 0
    return res


def gen_rle_long(rng: random.Random, tier: str) -> dict:
    """Thousands of admissions through one policy object behind a RateLimitedEntity."""
    kind = rng.choice(["token", "leaky", "sliding", "fixed", "adaptive"])
    spec, per = _long_spec(rng, kind)
    if kind == "adaptive":
        spec["params"]["increase_step"] = None
    P = period_ns(spec)
    start = rng.choice([0, 0, 1_700_000_000 * NS])
    origin = -(-start // P) * P
    target = rng.choice([1300, 1300, 2200])
    rename = {"name": "tenant-a/limiter", "at": None} if rng.random() < 0.3 else None
    return {
        "limiter": "rle",
        "policy": spec,
        "queue_capacity": rng.choice([0, 2, 5]),
        "start_ns": start,
        "arrivals": _long_times(rng, per, target, origin, 3 * P),
        "inject": rng.choice(["prerun", "feeder"]),
        "long": True,
        **({"rename": rename} if rename else {}),
    }


def run_rle_long(case: dict) -> Result:
    res = run_sim(case)
    n_fwd = res.obs.get("forwards_checked", 0)
    res.count("long_histories")
    res.count("long_history_admissions", n_fwd)
    if n_fwd > 1024:
        res.count("histories_over_1024_admissions")
    res.nontrivial = n_fwd > 1024 and res.obs.get("queued_or_dropped", 0) > 0
    return res


# --------------------------------------------------------------------------
# policy oracles


def _pos(t: int, P: int, anchor: int = 0) -> str:
    """Position of t relative to multiples of P from anchor: structural, used in shapes."""
    r = (t - anchor) % P
    if r == 0:
        return "on-boundary"
    if r == P - 1:
        return "boundary-1ns"
    if r == 1:
        return "boundary+1ns"
    if r == P - 2 or r == 2:
        return "boundary+-2ns"
    return "off-boundary"


def _zero_shape(t: int, P: int, anchor: int) -> str:
    """Shape of a 'wait 0 but acquire fails' witness: where the lying instant sits.

    Float window arithmetic can misplace a boundary by at most 2 ns (1 ns from truncating
    k*w, 1 ns from truncating w itself), always towards the past.
    """
    r = (t - anchor) % P
    if r == 0 or r >= P - 2:
        return "at-or-within-2ns-before-period-boundary"
    return _pos(t, P, anchor)


def _clone(pol):
    """Independent copy of a policy: shallow copy plus fresh lists.

    Policies hold floats, ints, Instants and lists of Instants / RateSnapshots that are
    only appended to or popped, never mutated in place, so this is as independent as a
    deep copy (checked once per case against copy.deepcopy in run_policy) and 20x cheaper.
    """
    c = copy.copy(pol)
    for k, v in vars(c).items():
        if isinstance(v, list):
            setattr(c, k, list(v))
        elif isinstance(v, (dict, set)):
            setattr(c, k, copy.deepcopy(v))
    return c


def _sig(pol) -> tuple:
    """Cheap state signature, to verify that probing on clones leaves the real policy alone."""
    out = []
    for k, v in sorted(vars(pol).items()):
        if isinstance(v, list):
            out.append((k, len(v), repr(v[0]) if v else None, repr(v[-1]) if v else None))
        else:
            out.append((k, getattr(v, "nanoseconds", v)))
    return tuple(out)


def probe_truthfulness(res: Result, comp: str, spec: dict, pol, t_ns: int, P: int, anchor: int):
    """All on clones of the policy.  Returns nothing; adds violations to res."""
    before = _sig(pol)
    try:
        _probe(res, comp, spec, pol, t_ns, P, anchor)
    finally:
        if _sig(pol) != before:
            raise AssertionError("harness: probing on clones disturbed the real policy")


def _probe(res: Result, comp: str, spec: dict, pol, t_ns: int, P: int, anchor: int):
    from happysimulator.core.temporal import Instant

    kind = spec["kind"]
    c = _clone(pol)
    now = Instant(t_ns)
    w = c.time_until_available(now).nanoseconds
    res.count("tua_probes")
    pos = _pos(t_ns, P, anchor)
    if w < 0:
        res.add("negative-wait", comp, pos, f"time_until_available({t_ns}ns) = {w}ns")
        return
    if w == 0:
        res.count("tua_zero")
        if not c.try_acquire(now):
            res.add(
                "zero-wait-but-acquire-fails",
                comp,
                _zero_shape(t_ns, P, anchor),
                f"time_until_available({t_ns}ns) == 0 but try_acquire({t_ns}ns) is False",
                {"t_ns": t_ns},
            )
        return
    res.count("tua_nonzero")
    for dt in sorted({0, w // 2, w - 1}):
        c2 = _clone(c)
        res.count("early_acquire_probes")
        if c2.try_acquire(Instant(t_ns + dt)):
            res.add(
                "acquire-before-wait-elapsed",
                comp,
                pos,
                f"time_until_available({t_ns}ns) = {w}ns but try_acquire succeeds at +{dt}ns",
                {"t_ns": t_ns, "wait_ns": w, "dt": dt},
            )
            break
    # drain: wait the returned duration repeatedly
    cur = t_ns
    waits = 0
    trail = []
    while True:
        cur += w
        waits += 1
        trail.append(w)
        if c.try_acquire(Instant(cur)):
            res.count(f"drain_waits_{waits}")
            break
        w = c.time_until_available(Instant(cur)).nanoseconds
        if w <= 0:
            res.add(
                "zero-wait-but-acquire-fails",
                comp,
                _zero_shape(cur, P, anchor),
                f"after waiting {trail} from {t_ns}ns: try_acquire({cur}ns) False and time_until_available = {w}",
                {"t_ns": t_ns, "trail": trail},
            )
            break
        if waits >= MAX_WAITS:
            shape = pos
            if kind == "adaptive" and c.current_rate * spec["params"]["window"] < 1.0:
                shape = "rate-times-window-below-one-token"
            res.add(
                "drain-stalls",
                comp,
                shape,
                f"waited {trail} + next {w} from {t_ns}ns without reaching an admitting instant",
                {"t_ns": t_ns, "trail": trail},
            )
            break


def check_bounds(res: Result, comp: str, spec: dict, admitted: list[int]):
    """Interval bound of the property statement over the admitted timestamps (integer ns)."""
    kind, p = spec["kind"], spec["params"]
    n = len(admitted)
    res.count("admitted_total", n)
    if n == 0:
        return
    if kind == "token":
        cap, rate = Fraction(p["capacity"]), Fraction(p["refill_rate"])
        tol = Fraction(1, 10**6)
        # count(i..j) <= cap + rate*(tj-ti)  <=>  (j - rate*tj) - (i - rate*ti) + 1 <= cap
        best_i, best_f = 0, Fraction(0) - rate * admitted[0] / NS
        for j in range(n):
            fj = Fraction(j) - rate * admitted[j] / NS
            if fj < best_f:
                best_f, best_i = fj, j
            if fj - best_f + 1 > cap + tol:
                i = best_i
                shape = "same-instant-burst" if admitted[i] == admitted[j] else "interval"
                res.add(
                    "over-admission",
                    comp,
                    shape,
                    f"{j - i + 1} admitted in [{admitted[i]},{admitted[j]}]ns > capacity {p['capacity']} + rate {p['refill_rate']} * {(admitted[j] - admitted[i]) / NS}s",
                    {"i": i, "j": j},
                )
                break
    elif kind == "leaky":
        min_gap = Fraction(NS) / Fraction(p["leak_rate"]) - 1
        for a, b in zip(admitted, admitted[1:]):
            if b - a < min_gap:
                res.add(
                    "over-admission",
                    comp,
                    "same-instant" if a == b else "spacing-below-interval",
                    f"admits at {a}ns and {b}ns are {b - a}ns apart < 1/rate = {float(min_gap + 1)}ns",
                )
                break
    elif kind == "sliding":
        W, N = round(p["window"] * NS), p["n"]
        for k in range(n - N):
            if admitted[k + N] - admitted[k] < W - 1:
                res.add(
                    "over-admission",
                    comp,
                    "n-plus-one-in-window",
                    f"{N + 1} admits within {admitted[k + N] - admitted[k]}ns < window {W}ns (from {admitted[k]}ns)",
                )
                break
    elif kind == "fixed":
        W, N = round(p["window"] * NS), p["n"]
        per: dict[int, int] = {}
        for t in admitted:
            r = t % W
            if r <= 1 or r >= W - 1:
                continue  # boundary nanoseconds excluded
            per[t // W] = per.get(t // W, 0) + 1
        bad = [k for k, c in per.items() if c > N]
        if bad:
            k = min(bad)
            res.add("over-admission", comp, "aligned-window", f"{per[k]} admits strictly inside aligned window {k} (W={W}ns) > N={N}")
        for k in range(n - 2 * N):
            if admitted[k + 2 * N] - admitted[k] < W - 1:
                res.add(
                    "over-admission",
                    comp,
                    "two-n-plus-one-in-window-length",
                    f"{2 * N + 1} admits within {admitted[k + 2 * N] - admitted[k]}ns < window {W}ns (from {admitted[k]}ns)",
                )
                break


def run_policy(case: dict) -> Result:
    from happysimulator.core.temporal import Instant
    from happysimulator.components.rate_limiter.policy import RateAdjustmentReason

    res = Result()
    spec = case["policy"]
    kind = spec["kind"]
    pol = make_policy(spec)
    comp = type(pol).__name__
    P = period_ns(spec)
    # fixed windows are aligned to the epoch whatever the first arrival was
    anchor = 0 if kind == "fixed" else case.get("anchor", 0)
    admitted: list[int] = []
    admitted_op: list[int] = []
    denials = 0
    on_boundary = 0
    first_t = None
    pending = None  # (t, wait) promised by the last query-only time_until_available on the real object
    # adaptive bookkeeping: rate after each op; index of first policy query at each instant
    rate_after: list[float] = []
    for idx, (op, t) in enumerate(case["ops"]):
        now = Instant(t)
        if op in ("s", "f", "to"):
            if op == "s":
                pol.record_success(now)
            elif op == "f":
                pol.record_failure(now)
            else:
                pol.record_failure(now, RateAdjustmentReason.TIMEOUT)
            res.count("feedback_ops")
            r = pol.current_rate
            if not (pol.min_rate <= r <= pol.max_rate):
                res.add("rate-out-of-range", comp, f"after-{op}", f"current_rate={r} outside [{pol.min_rate},{pol.max_rate}]")
            rate_after.append(r)
            pending = None  # feedback may legitimately change what the last query promised
            continue
        if first_t is None:
            first_t = t
        if op == "r":
            # read-only public queries (properties such as tokens / current_rate): must not change anything
            before = _sig(pol)
            for name in dir(pol):
                if not name.startswith("_") and not callable(getattr(type(pol), name, None)):
                    getattr(pol, name)
            res.count("readonly_queries")
            if _sig(pol) != before:
                res.add("read-changes-state", comp, "public-attribute-read", f"reading public attributes at op {idx} changed the policy state")
            if kind == "adaptive":
                rate_after.append(pol.current_rate)
            continue
        if op == "t":
            # time_until_available alone on the real object, in whatever state it is (full, just refilled,
            # fresh): the promise is checked against the next real acquires
            w = pol.time_until_available(now).nanoseconds
            res.count("tua_probes")
            res.count("tua_only_queries")
            if w < 0:
                res.add("negative-wait", comp, _pos(t, P, anchor), f"{w}")
            pending = (t, w)
            if kind == "adaptive":
                rate_after.append(pol.current_rate)
            continue
        if _pos(t, P, anchor) == "on-boundary" and t != first_t:
            on_boundary += 1
        if op == "p":
            probe_truthfulness(res, comp, spec, pol, t, P, anchor)
        w = None
        if op == "q":
            w = pol.time_until_available(now).nanoseconds
            res.count("tua_probes")
        ok = pol.try_acquire(now)
        res.count("acquires_checked")
        if pending is not None:
            qt, qw = pending
            if qw == 0:
                if t == qt and not ok:
                    res.add(
                        "zero-wait-but-acquire-fails",
                        comp,
                        _zero_shape(t, P, anchor),
                        f"time_until_available({qt}ns) == 0 (query only) but the next try_acquire({t}ns) is False",
                        {"t_ns": t},
                    )
                pending = None  # the promise covered one immediate acquire
            elif t >= qt + qw:
                pending = None
            elif ok:
                res.add(
                    "acquire-before-wait-elapsed",
                    comp,
                    "after-query-only:" + _pos(qt, P, anchor),
                    f"time_until_available({qt}ns) = {qw}ns (query only) but try_acquire succeeds at {t}ns (+{t - qt}ns)",
                    {"t_ns": qt, "wait_ns": qw, "dt": t - qt},
                )
                pending = None
        if w is not None:
            pos = _pos(t, P, anchor)
            if w == 0 and not ok:
                res.add(
                    "zero-wait-but-acquire-fails",
                    comp,
                    _zero_shape(t, P, anchor),
                    f"time_until_available({t}ns) == 0 but try_acquire({t}ns) is False (same object)",
                    {"t_ns": t},
                )
            if w > 0 and ok:
                res.add("acquire-before-wait-elapsed", comp, pos, f"time_until_available({t}ns) = {w}ns but immediate try_acquire succeeds")
            if w < 0:
                res.add("negative-wait", comp, pos, f"{w}")
        if ok:
            admitted.append(t)
            admitted_op.append(idx)
        else:
            denials += 1
        if kind == "adaptive":
            rate_after.append(pol.current_rate)
    res.count("denials", denials)
    if case["ops"]:
        # clone == deep copy, checked on the final state of every case
        t_end = case["ops"][-1][1]
        a, b = _clone(pol), copy.deepcopy(pol)
        ra = (a.time_until_available(Instant(t_end)).nanoseconds, a.try_acquire(Instant(t_end)), a.try_acquire(Instant(t_end + P)))
        rb = (b.time_until_available(Instant(t_end)).nanoseconds, b.try_acquire(Instant(t_end)), b.try_acquire(Instant(t_end + P)))
        if ra != rb or _sig(a) != _sig(b):
            raise AssertionError(f"harness: _clone and deepcopy disagree: {ra} vs {rb}")
    if kind != "adaptive":
        check_bounds(res, comp, spec, admitted)
    else:
        res.count("admitted_total", len(admitted))
        # long histories: intervals of up to 400 admissions (quadratic scan otherwise)
        _adaptive_bound(res, comp, spec, case["ops"], rate_after, admitted, admitted_op, 400 if len(admitted) > 1500 else None)
    res.nontrivial = on_boundary > 0 and denials > 0
    if on_boundary:
        res.count("boundary_arrivals", on_boundary)
    return res


def _adaptive_bound(res, comp, spec, ops, rate_after, admitted, admitted_op, max_span=None):
    p = spec["params"]
    W = p["window"]
    init = p["initial_rate"]
    is_query = [op in ("a", "p", "q", "t") for op, _ in ops]  # ops that refill the real object
    # first query op at each instant, and whether an earlier-instant query exists
    first_query_at: dict[int, int] = {}
    for idx, (op, t) in enumerate(ops):
        if is_query[idx] and t not in first_query_at:
            first_query_at[t] = idx
    first_query_time = min(first_query_at) if first_query_at else None
    n = len(admitted)
    for i in range(n):
        ti = admitted[i]
        g = first_query_at[ti]
        rmax = rate_after[g - 1] if g > 0 else init
        if ti == first_query_time:
            rmax = max(rmax, init)  # tokens were never clamped yet
        upto = g
        for j in range(i, n if max_span is None else min(n, i + max_span)):
            aj = admitted_op[j]
            while upto <= aj:
                if rate_after[upto] > rmax:
                    rmax = rate_after[upto]
                upto += 1
            cnt = j - i + 1
            bound = max(1.0, rmax * W) + rmax * (admitted[j] - ti) / NS + 1e-6
            if cnt > bound:
                res.add(
                    "over-admission",
                    comp,
                    "same-instant-burst" if admitted[j] == ti else "interval",
                    f"{cnt} admitted in [{ti},{admitted[j]}]ns > Rmax {rmax} * (window {W} + {(admitted[j] - ti) / NS}s)",
                    {"i": i, "j": j},
                )
                return
    return


_SHRUNK: dict[tuple, int] = {}  # per worker process: shrink only the first two cases of each mechanism key


def _worth_shrinking(res: Result) -> bool:
    if not res.violations:
        return False
    k = res.violations[0].key()
    _SHRUNK[k] = _SHRUNK.get(k, 0) + 1
    return _SHRUNK[k] <= 2


def _shrink_list(items: list, fails) -> list:
    """Shortest failing prefix by bisection, then a bounded ddmin."""
    lo, hi = 1, len(items)
    while lo < hi:
        mid = (lo + hi) // 2
        if fails(items[:mid]):
            hi = mid
        else:
            lo = mid + 1
    cur = items[:hi] if fails(items[:hi]) else items
    return ddmin(cur, fails, max_tests=60)


def shrink_policy(case: dict, still_fails) -> dict:
    if not _worth_shrinking(run_policy(case)):
        return case
    return {**case, "ops": _shrink_list(case["ops"], lambda o: still_fails({**case, "ops": o}))}


# --------------------------------------------------------------------------
# simulation families


_CLASSES = {}


def _harness_classes():
    if _CLASSES:
        return _CLASSES
    from happysimulator.core.entity import Entity
    from happysimulator.core.event import Event
    from happysimulator.core.temporal import Instant

    class Recorder(Entity):
        def __init__(self, name):
            super().__init__(name)
            self.got = []  # (clock_ns, event_time_ns, event_type, rid)

        def handle_event(self, event):
            self.got.append((self.now.nanoseconds, event.time.nanoseconds, event.event_type, event.context.get("metadata", {}).get("rid")))
            return []

    class Feeder(Entity):
        """Creates the arrival events during the run (run-created sort indices)."""

        def __init__(self, name):
            super().__init__(name)
            self.plan = []  # (t_ns, target, rid)
            self.registry = None  # rid -> request Event, shared with the Canceller

        def handle_event(self, event):
            out = []
            for t, tgt, rid in self.plan:
                ev = Event(time=Instant(t), event_type="req", target=tgt, context={"metadata": {"rid": rid}})
                if self.registry is not None:
                    self.registry[rid] = ev
                out.append(ev)
            return out

    class Canceller(Entity):
        """The sender giving up: calls the public Event.cancel() on a request event it sent earlier."""

        def __init__(self, name, registry):
            super().__init__(name)
            self.registry = registry
            self.done = []  # (clock_ns, rid)

        def handle_event(self, event):
            rid = event.context["metadata"]["cancel"]
            ev = self.registry.get(rid)
            if ev is not None:
                ev.cancel()
                self.done.append((self.now.nanoseconds, rid))
            return []

    class Renamer(Entity):
        """Renames limiter entities during the run (Entity.name is a public attribute).

        Only while the limiter holds no queued request: a pending drain poll carries the old name in its event
        type, and HEAD itself stops recognising it after a rename (that is a misuse, not the property's subject).
        """

        def __init__(self, name, targets, new_name):
            super().__init__(name)
            self.targets = targets
            self.new_name = new_name
            self.done = 0

        def handle_event(self, event):
            for k, tgt in enumerate(self.targets):
                if getattr(tgt, "queue_depth", 0) == 0:
                    tgt.name = f"{self.new_name}{k}" if len(self.targets) > 1 else self.new_name
                    self.done += 1
            return []

    _CLASSES.update(Recorder=Recorder, Feeder=Feeder, Canceller=Canceller, Renamer=Renamer)
    return _CLASSES


def gen_sim(which: str):
    def gen(rng: random.Random, tier: str) -> dict:
        case: dict = {"limiter": which}
        n = rng.choice([3, 6, 10, 20, 40, 60])
        if which == "rle":
            kind = rng.choice(["token", "leaky", "sliding", "fixed", "adaptive"])
            if kind == "token":
                cap = rng.choice([1.0, 2.0, 3.0, 5.0])
                params = {"capacity": cap, "refill_rate": rng.choice([1.0, 2.0, 3.0, 7.0, 10.0, 100.0, 3.3]), "initial_tokens": rng.choice([None, 0.0, 1.0])}
            elif kind == "leaky":
                params = {"leak_rate": rng.choice([1.0, 2.0, 3.0, 7.0, 10.0, 100.0, 3.3])}
            elif kind in ("sliding", "fixed"):
                params = {"window": rng.choice([0.1, 0.2, 0.3, 0.7, 0.05, 0.25, 1.0, 0.29]), "n": rng.choice([1, 1, 2, 3, 5])}
            else:
                params = {
                    "initial_rate": rng.choice([1.0, 2.0, 10.0]),
                    "min_rate": 1.0,
                    "max_rate": 100.0,
                    "increase_step": None,
                    "decrease_factor": 0.5,
                    "window": rng.choice([1.0, 0.5, 2.0]),
                }
            spec = {"kind": kind, "params": params}
            case["policy"] = spec
            P = period_ns(spec)
            wf = params.get("window") or 1.0 / (params.get("refill_rate") or params.get("leak_rate") or params.get("initial_rate"))
            case["queue_capacity"] = rng.choice([0, 1, 2, 3, 4, 5, 5])
        elif which == "inductor":
            case["time_constant"] = rng.choice([0.0, 0.01, 0.1, 1.0, 10.0])
            case["queue_capacity"] = rng.choice([0, 1, 2, 3, 4, 5, 5, 50])
            P = rng.choice([1, 2, 1000, 10**6, 10**8, NS])
            wf = None
        elif which == "dist":
            case["global_limit"] = rng.choice([1, 2, 3, 5, 10])
            case["window"] = rng.choice([0.1, 0.3, 1.0, 0.7])
            case["read_latency"] = rng.choice([0.001, 0.0005, 0.01, 0.000001])
            case["write_latency"] = rng.choice([0.001, 0.005, 0.002, 0.000001])
            case["local_threshold"] = rng.choice([0.8, 0.5, 1.0])
            case["shared_downstream"] = rng.random() < 0.5
            P = round(case["window"] * NS)
            wf = case["window"]
        else:
            P = rng.choice([1, 1000, 10**8])
            wf = None
        start = rng.choice(BASES_NS)
        case["start_ns"] = start
        origin = -(-start // P) * P  # first multiple of the period not before the simulation start
        times = gen_times(rng, P, wf, n, origin + rng.choice([0, 0, P]))
        if which == "rle" and case["policy"]["kind"] in ("fixed", "sliding") and rng.random() < 0.4:
            # Several slots open at one instant (window rollover / entries expiring together) while >= 2 requests
            # queue, and newcomers land 1-4 ns after that instant.
            pk = case["policy"]["kind"]
            N = rng.choice([2, 3, 5])
            case["policy"]["params"]["n"] = N
            qc = case["queue_capacity"] = rng.choice([2, 3, 4, 5])
            q = rng.randrange(2, qc + 1)
            base = origin + rng.randrange(0, 4) * P
            if pk == "fixed":
                lo = rng.choice([1, P // 10, P // 2])
                pre = sorted(base + min(P - 2, lo + i * rng.choice([0, 1, 7, max(1, P // 100)])) for i in range(N + q))
                T = base + P
            else:
                t0 = base + rng.randrange(0, P)
                pre = sorted(t0 + rng.choice([0, 0, 0, 1, 2]) for _ in range(N))
                pre += sorted(pre[-1] + rng.randrange(1, 12) for _ in range(q))
                T = pre[0] + P  # the closed window reopens at T + 1 ns
            new = sorted(T + rng.choice([1, 1, 2, 2, 3, 4]) for _ in range(rng.choice([1, 2, 3])))
            tail = [new[-1] + (t - times[0]) for t in times[: rng.choice([0, 3, 10])]]
            times = pre + new + tail
        if which == "dist":
            case["arrivals"] = [[t, rng.randrange(2)] for t in times]
        else:
            case["arrivals"] = times
        case["inject"] = rng.choice(["prerun", "prerun", "feeder"])
        if rng.random() < 0.35:
            # the limiter is renamed after construction: before the run, or at some instant during it
            at = None if rng.random() < 0.6 else times[rng.randrange(len(times))] + rng.choice([-1, 0, 1, P // 2])
            case["rename"] = {"name": rng.choice(["tenant-a/limiter", "lim-b", "x"]), "at": at}
        if which in ("rle", "inductor") and rng.random() < 0.4:
            # sender-side cancels (Event.cancel() on the request event, e.g. a caller time-out) strictly after
            # the request was handed to the limiter: some hit requests waiting in its queue
            k = rng.choice([1, 1, 2, 3, max(1, len(times) // 3)])
            rids = sorted(rng.sample(range(len(times)), min(k, len(times))))
            case["cancels"] = [[times[r] + rng.choice([1, 2, 17, max(1, P // 7), max(1, P // 2), P, 2 * P]), r] for r in rids]
        return case

    return gen


def _wrap(limiter, log, poll_prefix, probe_free=None):
    """Client-boundary log: public stats before/after each delivery to the limiter."""
    orig = limiter.handle_event
    has_stats = hasattr(limiter, "stats") and hasattr(limiter, "queue_depth")

    def snap():
        s = limiter.stats
        return (s.received, s.forwarded, s.queued, s.dropped, limiter.queue_depth)

    def handle(event):
        before = snap() if has_stats else None
        out = orig(event)
        after = snap() if has_stats else None
        is_poll = event.event_type.startswith(poll_prefix)
        outs = []
        if isinstance(out, list):
            for e in out:
                outs.append((e.event_type, e.time.nanoseconds, e.context.get("metadata", {}).get("rid"), e.target is limiter))
        log.append(
            {
                "poll": is_poll,
                "rid": None if is_poll else event.context.get("metadata", {}).get("rid"),
                "t": event.time.nanoseconds,
                "before": before,
                "after": after,
                "outs": outs,
                # backlog and, on a clone of the policy, a free slot right after this delivery
                "idle_capacity": bool(probe_free is not None and after is not None and after[4] > 0 and probe_free(event.time.nanoseconds)),
            }
        )
        return out

    limiter.handle_event = handle


def run_sim(case: dict) -> Result:
    from happysimulator.components.rate_limiter import Inductor, NullRateLimiter, RateLimitedEntity
    from happysimulator.core.event import Event
    from happysimulator.core.simulation import Simulation
    from happysimulator.core.temporal import Instant
    from hsverif.probe import EngineProbe

    H = _harness_classes()
    res = Result()
    which = case["limiter"]
    arrivals = case["arrivals"]
    down = H["Recorder"]("down")
    if which == "rle":
        pol = make_policy(case["policy"])
        lim = RateLimitedEntity("lim", downstream=down, policy=pol, queue_capacity=case["queue_capacity"])
        slow = slowest_admission_ns(case["policy"])
        tag = f"policy={case['policy']['kind']}"
        poll_prefix = "rate_limit_poll::"
    elif which == "inductor":
        lim = Inductor("lim", downstream=down, time_constant=case["time_constant"], queue_capacity=case["queue_capacity"])
        gaps = [b - a for a, b in zip(arrivals, arrivals[1:])]
        slow = max(gaps + [10_000_000]) + 2
        tag = "inductor"
        poll_prefix = "inductor_poll::"
    else:
        lim = NullRateLimiter("lim", downstream=down)
        slow = 0
        tag = "null"
        poll_prefix = "\0"
    comp = type(lim).__name__
    log: list[dict] = []
    probe_free = (lambda t_ns: _clone(lim.policy).try_acquire(Instant(t_ns))) if which == "rle" else None
    _wrap(lim, log, poll_prefix, probe_free)
    last = arrivals[-1] if arrivals else 0
    qc = case.get("queue_capacity", 0)
    # Inductor: the truncated poll delay lands 1 ns short of the smoothed interval, so only every
    # other poll forwards; the horizon allows four polls per queued request.
    periods = (4 * qc + 8) if which == "inductor" else (qc + 3)
    end_ns = last + periods * slow + NS
    stopper = H["Recorder"]("stop")
    ents = [lim, down, stopper]
    feeder = None
    if case["inject"] == "feeder":
        feeder = H["Feeder"]("feeder")
        ents.append(feeder)
    # No end_time (the engine executes one event beyond it and then drops that event's outputs):
    # a non-daemon sentinel keeps the run alive until the horizon, then it auto-terminates.
    start_ns = case.get("start_ns", 0)
    registry: dict = {}
    canceller = H["Canceller"]("canceller", registry)
    ents.append(canceller)
    rename = case.get("rename")
    renamer = None
    if rename and rename["at"] is None:
        lim.name = rename["name"]  # renamed after construction, before the simulation is built
        res.count("renames_applied")
    elif rename:
        renamer = H["Renamer"]("renamer", [lim], rename["name"])
        ents.append(renamer)
    sim = Simulation(entities=ents, start_time=Instant(start_ns))
    if renamer is not None:
        sim.schedule(Event(time=Instant(max(start_ns, rename["at"])), event_type="rename", target=renamer))
    sim.schedule(Event(time=Instant(end_ns), event_type="stop", target=stopper))
    if feeder is None:
        for rid, t in enumerate(arrivals):
            registry[rid] = Event(time=Instant(t), event_type="req", target=lim, context={"metadata": {"rid": rid}})
            sim.schedule(registry[rid])
    else:
        feeder.plan = [(t, lim, rid) for rid, t in enumerate(arrivals)]
        feeder.registry = registry
        sim.schedule(Event(time=Instant(start_ns), event_type="kick", target=feeder))
    # Sender-side cancels, always strictly after the request's own arrival instant: on HEAD cancelling an event
    # that was already delivered has no effect (the engine looks at the flag only when it pops the event), so the
    # request is still owed exactly one of forwarded / queued / dropped and the oracles below stay as they are.
    for t_c, rid in case.get("cancels", []):
        if 0 <= rid < len(arrivals) and t_c > arrivals[rid]:
            sim.schedule(Event(time=Instant(t_c), event_type="cancel", target=canceller, context={"metadata": {"cancel": rid}}))
    with EngineProbe(log_deliveries=False, instant_cap=3000, total_cap=300_000) as p:
        status = p.run(sim)
    res.count("events_monitored", p.n_deliveries)
    res.count("requests_tracked", len(arrivals))
    res.count("simulations_run")
    res.count("sender_cancels", len(canceller.done))
    if renamer is not None:
        res.count("renames_applied", renamer.done)
    if status == "spin":
        s = p.spin
        cyc = sorted({f"{a}@{b}" for a, b in s.recent})
        shape = tag
        if which == "rle" and case["policy"]["kind"] == "fixed":
            shape = tag + ":" + _zero_shape(s.time_ns, period_ns(case["policy"]), 0)
        elif which == "inductor" and lim.estimated_rate > 1e9:
            shape = "smoothed-interval-below-1ns"
        res.add(
            "frozen-clock",
            comp,
            shape,
            f"{s.count} deliveries at t={s.time_ns}ns; event types at that instant: {cyc}",
            {"time_ns": s.time_ns, "cycle": cyc},
        )
        return res
    if status == "budget":
        res.inconclusive = "delivery budget exhausted while time advancing"
        return res

    # ---- per-delivery accounting
    disposition: dict[int, str] = {}
    arrival_order: list[int] = []
    queue_before: dict[int, int] = {}
    expect_forward: list[int] = []  # rids in the order the limiter emitted forwards
    pending_poll: int | None = None  # instant of the drain poll the limiter has emitted and not yet received
    poll_at_arrival: dict[int, int | None] = {}
    idle_at_end: dict[int, bool] = {}  # instant -> requests queued AND the policy had a free slot when the instant ended
    for rec in log:
        b, a = rec["before"], rec["after"]
        fwd_outs = [o for o in rec["outs"] if not o[3]]
        if rec["poll"]:
            pending_poll = None
        elif rec["rid"] is not None and rec["rid"] not in poll_at_arrival:
            poll_at_arrival[rec["rid"]] = pending_poll
        for o in rec["outs"]:
            if o[3]:
                pending_poll = o[1]
        # end-of-instant view: the last record of each instant decides
        idle_at_end[rec["t"]] = rec["idle_capacity"]
        if rec["poll"]:
            res.count("polls_seen")
            if b is not None:
                d = tuple(x - y for x, y in zip(a, b))
                if d[0] != 0 or d[2] != 0 or d[3] != 0 or d[1] not in (0, 1) or d[4] != -d[1] or len(fwd_outs) != d[1]:
                    res.add("poll-accounting", comp, tag, f"poll at {rec['t']}ns changed (received,forwarded,queued,dropped,depth) by {d}, emitted {len(fwd_outs)} forwards")
            for o in fwd_outs:
                expect_forward.append(o[2])
            continue
        rid = rec["rid"]
        arrival_order.append(rid)
        if rid in disposition:
            res.add("request-delivered-twice", comp, tag, f"rid {rid}")
        if b is None:  # NullRateLimiter: no stats
            disposition[rid] = "forwarded" if len(fwd_outs) == 1 else f"emitted-{len(fwd_outs)}"
            if len(fwd_outs) != 1 or fwd_outs[0][2] != rid:
                res.add("not-exactly-once", comp, tag, f"rid {rid}: {len(fwd_outs)} forwards emitted")
            expect_forward.extend(o[2] for o in fwd_outs)
            continue
        d = tuple(x - y for x, y in zip(a, b))
        queue_before[rid] = b[4]
        units = (d[1], d[2], d[3])
        if d[0] != 1 or sorted(units) != [0, 0, 1]:
            res.add(
                "not-exactly-once",
                comp,
                tag,
                f"rid {rid} at {rec['t']}ns changed (received,forwarded,queued,dropped,depth) by {d}: not exactly one of forwarded/queued/dropped",
            )
            disposition[rid] = "unclear"
            continue
        disp = ("forwarded", "queued", "dropped")[units.index(1)]
        disposition[rid] = disp
        if disp == "forwarded":
            if len(fwd_outs) != 1 or fwd_outs[0][2] != rid or d[4] != 0:
                res.add("not-exactly-once", comp, tag, f"rid {rid} counted forwarded but emitted {[(o[0], o[2]) for o in fwd_outs]} depth change {d[4]}")
            expect_forward.extend(o[2] for o in fwd_outs)
        else:
            if fwd_outs:
                res.add("not-exactly-once", comp, tag, f"rid {rid} counted {disp} but also emitted a forward")
            if disp == "queued" and d[4] != 1 or disp == "dropped" and d[4] != 0:
                res.add("not-exactly-once", comp, tag, f"rid {rid} counted {disp} but queue depth changed by {d[4]}")

    # ---- every arrival reached the limiter
    if sorted(arrival_order) != list(range(len(arrivals))):
        missing = sorted(set(range(len(arrivals))) - set(arrival_order))
        res.inconclusive = f"{len(missing)} arrivals never delivered to the limiter (harness horizon)"
        return res

    # ---- downstream view: only the harness's own requests may arrive, as forwards of "req"
    want_type = "req" if which == "null" else "forward::req"
    phantom = [g for g in down.got if g[2] != want_type or not isinstance(g[3], int) or not 0 <= g[3] < len(arrivals)]
    if phantom:
        res.add(
            "phantom-forward",
            comp,
            tag,
            f"downstream received {len(phantom)} events nobody sent, first: type {phantom[0][2]!r} rid {phantom[0][3]!r} at {phantom[0][0]}ns",
        )
    got = [g[3] for g in down.got]
    seen: dict[int, int] = {}
    for r in got:
        seen[r] = seen.get(r, 0) + 1
    dup = [r for r, c in seen.items() if c > 1]
    if dup:
        res.add("forwarded-twice", comp, tag, f"rids {dup[:5]} reached downstream more than once")
    for r, dsp in disposition.items():
        if dsp == "dropped" and r in seen:
            res.add("not-exactly-once", comp, tag, f"rid {r} counted dropped and forwarded downstream")
        if dsp == "forwarded" and r not in seen:
            res.add("forward-lost", comp, tag, f"rid {r} counted forwarded but never reached downstream")
    for r in expect_forward:
        if r not in seen:
            res.add("forward-lost", comp, tag, f"rid {r}: forward event emitted but never delivered downstream")
            break
    first_seen = {}
    for g in down.got:
        first_seen.setdefault(g[3], g[0])
    res.count(
        "cancels_on_queued_requests",
        sum(1 for clk, r in canceller.done if disposition.get(r) == "queued" and first_seen.get(r, clk + 1) > clk),
    )
    still_queued = [r for r, dsp in disposition.items() if dsp == "queued" and r not in seen]
    if hasattr(lim, "queue_depth"):
        if len(still_queued) != lim.queue_depth:
            res.add(
                "not-exactly-once",
                comp,
                tag,
                f"{len(still_queued)} queued requests never forwarded but final queue_depth={lim.queue_depth}",
            )
        s = lim.stats
        if s.forwarded != len(got) or s.received != len(arrivals):
            res.add("counter-mismatch", comp, tag, f"stats {s} vs downstream {len(got)} arrivals {len(arrivals)}")
        if lim.queue_depth > 0:
            stag = tag
            if which == "rle" and case["policy"]["kind"] == "adaptive" and lim.policy.current_rate * case["policy"]["params"]["window"] < 1.0:
                stag = "policy=adaptive:rate-times-window-below-one-token"
            res.add(
                "drain-stalled",
                comp,
                stag,
                f"{lim.queue_depth} requests still queued {(end_ns - last) / NS:.3f}s after the last arrival (horizon {periods} admission periods + 1s)",
            )
    for g in down.got:
        if g[0] != g[1]:
            res.add("forward-time-mismatch", comp, tag, f"downstream delivery clock {g[0]} != event time {g[1]}")
            break

    # ---- order
    rank = {r: i for i, r in enumerate(arrival_order)}
    prev = None
    shapes_seen: set = set()
    idle_instants = sorted(idle_at_end)
    for r in got:
        if not isinstance(r, int) or not 0 <= r < len(arrivals):
            continue  # phantom delivery, reported above
        if prev is not None and rank.get(r, -1) < rank.get(prev, -1):
            # r arrived earlier than prev but was forwarded later => prev overtook r
            over = prev
            pp = poll_at_arrival.get(over)
            if disposition.get(over) == "forwarded" and queue_before.get(over, 0) > 0:
                # Mechanism classes, measured from the log:
                #  * the limiter ended an EARLIER instant with requests queued although its policy had a free slot
                #    (clone probe), and the overtaker arrived after that: the drain left capacity unused across a
                #    clock advance (RateLimitedEntity only; an Inductor has no policy to ask);
                #  * otherwise capacity returned at the overtaker's own instant and it was delivered before the
                #    drain poll (tie), or the limiter is an Inductor.
                k_prev = bisect.bisect_left(idle_instants, arrivals[over]) - 1
                if which == "rle" and k_prev >= 0 and idle_at_end[idle_instants[k_prev]]:
                    shape = "arrival-after-capacity-left-idle-while-queue-nonempty"
                else:
                    shape = "arrival-admitted-while-queue-nonempty"
            else:
                shape = "other"
            if shape not in shapes_seen:
                shapes_seen.add(shape)
                res.add(
                    "forward-order",
                    comp,
                    shape,
                    f"rid {over} (arrived {arrivals[over]}ns, {disposition.get(over)}, queue depth before = {queue_before.get(over)}, "
                    f"pending drain poll at {pp}ns) forwarded before rid {r} (arrived {arrivals[r]}ns, {disposition.get(r)})",
                    {"overtaker": over, "overtaken": r, "pending_poll_ns": pp},
                )
        prev = r
    res.count("forwards_checked", len(got))

    # ---- end-to-end bound on what reached downstream
    if which == "rle" and case["policy"]["kind"] != "adaptive":
        check_bounds(res, type(lim.policy).__name__ + "@RateLimitedEntity", case["policy"], [g[0] for g in down.got])
    nq = sum(1 for v in disposition.values() if v in ("queued", "dropped"))
    res.count("queued_or_dropped", nq)
    if which == "null":
        res.nontrivial = len(arrivals) >= 2
    else:
        res.nontrivial = nq > 0
    return res


def run_dist(case: dict) -> Result:
    from happysimulator.components.datastore.kv_store import KVStore
    from happysimulator.components.rate_limiter import DistributedRateLimiter
    from happysimulator.core.event import Event
    from happysimulator.core.simulation import Simulation
    from happysimulator.core.temporal import Instant
    from hsverif.probe import EngineProbe

    H = _harness_classes()
    res = Result()
    comp = "DistributedRateLimiter"
    tag = "store-latency-positive"
    store = KVStore("store", read_latency=case["read_latency"], write_latency=case["write_latency"])
    downs = [H["Recorder"]("down0")]
    downs.append(downs[0] if case["shared_downstream"] else H["Recorder"]("down1"))
    lims = [
        DistributedRateLimiter(
            f"lim{i}",
            downstream=downs[i],
            backing_store=store,
            global_limit=case["global_limit"],
            window_size=case["window"],
            local_threshold=case["local_threshold"],
        )
        for i in range(2)
    ]
    arrival_order: list[list[int]] = [[], []]
    for i, lim in enumerate(lims):
        orig = lim.handle_event

        def handle(event, orig=orig, i=i):
            arrival_order[i].append(event.context.get("metadata", {}).get("rid"))
            return orig(event)

        lim.handle_event = handle
    arrivals = case["arrivals"]
    ents = [store, *lims, downs[0]] + ([] if case["shared_downstream"] else [downs[1]])
    feeder = None
    if case["inject"] == "feeder":
        feeder = H["Feeder"]("feeder")
        ents.append(feeder)
    start_ns = case.get("start_ns", 0)
    rename = case.get("rename")
    renamer = None
    if rename and rename["at"] is None:
        for k, lim in enumerate(lims):
            lim.name = f"{rename['name']}{k}"
        res.count("renames_applied", 2)
    elif rename:
        renamer = H["Renamer"]("renamer", lims, rename["name"])
        ents.append(renamer)
    sim = Simulation(entities=ents, start_time=Instant(start_ns))
    if renamer is not None:
        sim.schedule(Event(time=Instant(max(start_ns, rename["at"])), event_type="rename", target=renamer))
    if feeder is None:
        for rid, (t, i) in enumerate(arrivals):
            sim.schedule(Event(time=Instant(t), event_type="req", target=lims[i], context={"metadata": {"rid": rid}}))
    else:
        feeder.plan = [(t, lims[i], rid) for rid, (t, i) in enumerate(arrivals)]
        sim.schedule(Event(time=Instant(start_ns), event_type="kick", target=feeder))
    with EngineProbe(log_deliveries=False, instant_cap=3000, total_cap=300_000) as p:
        status = p.run(sim)
    res.count("events_monitored", p.n_deliveries)
    res.count("requests_tracked", len(arrivals))
    res.count("simulations_run")
    if status == "spin":
        res.add("frozen-clock", comp, tag, f"{p.spin.count} deliveries at t={p.spin.time_ns}ns")
        return res
    if status == "budget":
        res.inconclusive = "delivery budget exhausted"
        return res
    if renamer is not None:
        res.count("renames_applied", renamer.done)
    for d in {id(x): x for x in downs}.values():
        ph = [g for g in d.got if g[2] != "forward::req" or not isinstance(g[3], int) or not 0 <= g[3] < len(arrivals)]
        if ph:
            res.add("phantom-forward", comp, tag, f"downstream received {len(ph)} events nobody sent, first: {ph[0]}")
    total_f = total_d = 0
    for i, lim in enumerate(lims):
        s = lim.stats
        mine = [rid for rid, (t, j) in enumerate(arrivals) if j == i]
        if sorted(arrival_order[i]) != mine:
            res.inconclusive = "arrivals not all delivered"
            return res
        if s.requests_received != len(mine) or s.requests_forwarded + s.requests_dropped != len(mine):
            res.add(
                "not-exactly-once",
                comp,
                tag,
                f"lim{i}: received {s.requests_received} of {len(mine)}; forwarded {s.requests_forwarded} + dropped {s.requests_dropped}",
            )
        total_f += s.requests_forwarded
        total_d += s.requests_dropped
        mine_set = set(mine)
        got = [g[3] for g in downs[i].got if g[3] in mine_set]
        if len(set(got)) != len(got):
            res.add("forwarded-twice", comp, tag, f"lim{i}: downstream saw {got}")
        if len(got) != s.requests_forwarded:
            res.add(
                "forward-lost",
                comp,
                tag,
                f"lim{i} counts {s.requests_forwarded} forwarded but downstream received {len(got)} "
                f"(time-travel discards seen by the engine: {len(p.time_travel)})",
                {"time_travel": p.time_travel[:2]},
            )
        rank = {r: k for k, r in enumerate(arrival_order[i])}
        if any(rank[a] > rank[b] for a, b in zip(got, got[1:])):
            res.add("forward-order", comp, tag, f"lim{i}: arrival order {arrival_order[i]} forwarded {got}")
        res.count("forwards_checked", len(got))
        for g in downs[i].got:
            if g[0] != g[1]:
                res.add("forward-time-mismatch", comp, tag, f"{g}")
                break
    res.count("dist_forwarded", total_f)
    res.count("dist_rejected", total_d)
    res.nontrivial = total_f > 0 and total_d > 0
    return res


def shrink_sim(case: dict, still_fails) -> dict:
    r = run_dist(case) if case["limiter"] == "dist" else run_sim(case)
    if not _worth_shrinking(r):
        return case
    return {**case, "arrivals": _shrink_list(case["arrivals"], lambda a: still_fails({**case, "arrivals": a}))}


# --------------------------------------------------------------------------

def _once(run):
    """Report each mechanism key once per case (a probing case would repeat it at every op)."""

    def f(case: dict) -> Result:
        r = run(case)
        seen: set = set()
        out = []
        for v in r.violations:
            if v.key() not in seen:
                seen.add(v.key())
                out.append(v)
        r.violations = out
        return r

    return f


run_policy_once, run_sim_once, run_dist_once = _once(run_policy), _once(run_sim), _once(run_dist)

FAMILIES = {
    "token": Family("token", gen_policy("token"), run_policy_once, shrink_policy),
    "leaky": Family("leaky", gen_policy("leaky"), run_policy_once, shrink_policy),
    "sliding": Family("sliding", gen_policy("sliding"), run_policy_once, shrink_policy),
    "fixed": Family("fixed", gen_policy("fixed"), run_policy_once, shrink_policy),
    "adaptive": Family("adaptive", gen_policy("adaptive"), run_policy_once, shrink_policy),
    "rle": Family("rle", gen_sim("rle"), run_sim_once, shrink_sim),
    "inductor": Family("inductor", gen_sim("inductor"), run_sim_once, shrink_sim),
    "dist": Family("dist", gen_sim("dist"), run_dist_once, shrink_sim),
    "null": Family("null", gen_sim("null"), run_sim_once, shrink_sim),
    "long": Family("long", gen_long, _once(run_long), shrink_policy, case_timeout=120.0),
    "rle_long": Family("rle_long", gen_rle_long, _once(run_rle_long), shrink_sim, case_timeout=120.0),
}

for _n, _sz in {"token": 2500, "leaky": 2000, "sliding": 2500, "fixed": 1500, "adaptive": 1250, "rle": 200, "inductor": 100, "dist": 75, "null": 40, "long": 15, "rle_long": 8}.items():
    FAMILIES[_n].shard_size = _sz  # fewer interpreter start-ups (2.5 s each) than the runner's default sharding

BUDGET = {
    "quick": {"token": 2500, "leaky": 2000, "sliding": 2500, "fixed": 3000, "adaptive": 2500, "rle": 800, "inductor": 300, "dist": 150, "null": 40, "long": 60, "rle_long": 24},
    "thorough": {
        "token": 150000,
        "leaky": 100000,
        "sliding": 150000,
        "fixed": 200000,
        "adaptive": 150000,
        "rle": 40000,
        "inductor": 12000,
        "dist": 5000,
        "null": 1000,
        "long": 2500,
        "rle_long": 600,
    },
}

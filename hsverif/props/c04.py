"""C04  Observing, pausing or stepping a run does not change it.

Monitor shape: differential history oracle.  The same generated program is
run unobserved (M0: fast path when end_time is set) and under observation
modes (control attached, event/time hooks, trace recorder, event tracing,
pause/step/resume scripts, breakpoints, combinations); the delivery logs,
final clock and summary counters must be identical.  step(n) and breakpoint
positions are checked against the harness's own record of deliveries; reset()
+ run() must repeat the delivery sequence.
"""

from __future__ import annotations

import copy
import json
import random

from hsverif.core import Family, Result
from hsverif.proggen import gen_program, shrink_program
from hsverif.progmodel import RealRun, program_is_valid

PID = "C04"
LEVEL = "exploration"
RULE = (
    "Generated programs (as in C01/C02) run once unobserved and once per observation mode drawn from: control touched, "
    "event+time hooks, InMemoryTraceRecorder, enable_event_tracing(), scripts of pause / step(n) / resume / get_state / "
    "peek_next (also a pause requested from inside an event hook at the k-th delivery), time / count / type / condition / "
    "metric breakpoints added at the start and at pauses, and combinations. Oracles: delivery log, final clock and "
    "summary counters equal to the unobserved run; each step(n) advances events_processed by exactly n unless the run "
    "ended; with breakpoints and resume only, every pause happens right after the first delivery satisfying an active "
    "breakpoint and none is missed (also when the same immutable breakpoint objects are registered on a second, fresh "
    "simulation); pause() pressed while already paused followed by step(n); a step(n) that delivers nothing while "
    "the run is active with events pending is a violation in every mode; reset()+run() repeats the delivery sequence "
    "(type, target, time). Non-trivial: the "
    "run had >= 20 deliveries and the script paused at least once inside the run. Distinct by hash of (program, mode)."
)
ASSUMPTIONS = [
    "the unobserved run of the same program in the same process is the baseline (C03 covers cross-process determinism)",
    "reset() is judged only on programs whose entities are stateless for the harness too: no futures, no in-run cancels through handles",
]
MUST_OBSERVE = ["modes_compared"]


# --------------------------------------------------------------------------
# mode generation


def _bp_spec(rng, n_ent, horizon_ns, n_events):
    k = rng.choice(["time", "count", "type", "cond-mod", "cond-time", "metric"] if n_ent else ["time", "count", "type", "cond-mod", "cond-time"])
    if k == "time":
        return {"k": "time", "t": rng.choice([0, 1, horizon_ns // 2, horizon_ns, horizon_ns + 1]), "one_shot": rng.random() < 0.7}
    if k == "count":
        return {"k": "count", "n": rng.randrange(1, max(2, n_events + 2)), "one_shot": rng.random() < 0.7}
    if k == "type":
        return {"k": "type", "type": rng.choice(["T0", "T1", "T2", "T3", "T4"] if n_ent else ["Request", "Done", "source_event", "Request"]), "one_shot": rng.random() < 0.4}
    if k == "cond-mod":
        return {"k": "cond-mod", "m": rng.randrange(2, 9), "r": rng.randrange(0, 2), "one_shot": rng.random() < 0.4}
    if k == "cond-time":
        return {"k": "cond-time", "t": rng.choice([1, horizon_ns // 3, horizon_ns]), "one_shot": True}
    return {
        "k": "metric",
        "ent": rng.randrange(n_ent),
        "op": rng.choice(["ge", "gt", "eq"]),
        "thr": rng.randrange(1, 6),
        "one_shot": rng.random() < 0.6,
    }


def _gen_mode(rng, prog, kind, n_events, horizon_ns):
    mode = {"kind": kind, "control": False, "hooks": False, "recorder": False, "tracing": False, "script": [], "bps": [], "hook_pause_at": None, "pause_first": False}
    if kind == "M1":
        mode["control"] = True
    elif kind == "M2":
        mode["control"] = mode["hooks"] = True
    elif kind == "M3":
        mode["recorder"] = True
    elif kind == "M4":
        mode["tracing"] = True
    elif kind in ("M5", "M7"):
        mode["control"] = True
        mode["hooks"] = rng.random() < 0.5 or kind == "M7"
        mode["pause_first"] = rng.random() < 0.7
        if rng.random() < 0.5:
            mode["hook_pause_at"] = rng.randrange(1, max(2, n_events + 1))
            mode["hooks"] = True
        if rng.random() < 0.35:
            # round 8: pause() pressed from inside an on_time_advance hook, at the k-th advance of the clock, i.e. after
            # the next event has been taken off the heap and before it is invoked (C04-r8-1: the loop put that event
            # back through schedule(), which renumbered it behind its same-instant peers)
            mode["time_pause_at"] = rng.randrange(1, max(2, n_events + 1))
            mode["hooks"] = True
        for _ in range(rng.randrange(1, 12)):
            r = rng.random()
            if r < 0.5:
                mode["script"].append({"op": "step", "n": rng.choice([1, 1, 2, 3, 5, 10, max(1, n_events // 2), n_events + 5])})
            elif r < 0.65:
                mode["script"].append({"op": "resume"})
            elif r < 0.8:
                mode["script"].append({"op": "peek", "n": rng.randrange(1, 4)})
            elif r < 0.9:
                mode["script"].append({"op": "state"})
            elif r < 0.95:
                mode["script"].append({"op": "pause"})
            else:
                # "pause" pressed while already paused, then a step
                mode["script"].append({"op": "pause_step", "n": rng.choice([1, 2, 3, 5])})
        if kind == "M7":
            mode["recorder"] = rng.random() < 0.5
            mode["tracing"] = rng.random() < 0.5
            mode["bps"] = [_bp_spec(rng, prog["n_ent"], horizon_ns, n_events) for _ in range(rng.randrange(0, 3))]
            if rng.random() < 0.3:
                mode["script"].insert(rng.randrange(len(mode["script"]) + 1), {"op": "add_bp", "bp": _bp_spec(rng, prog["n_ent"], horizon_ns, n_events)})
    elif kind == "M8":
        # steps AND breakpoints: pause_first, then only step(n) / resume commands, no pause requests
        mode["control"] = mode["hooks"] = mode["pause_first"] = True
        mode["bps"] = [_bp_spec(rng, prog["n_ent"], horizon_ns, n_events) for _ in range(rng.randrange(1, 4))]
        for _ in range(rng.randrange(1, 10)):
            if rng.random() < 0.75:
                mode["script"].append({"op": "step", "n": rng.choice([1, 1, 2, 3, 5, 9, max(1, n_events // 3)])})
            else:
                mode["script"].append({"op": "resume"})
        # half of the time make one step end exactly on the first delivery satisfying a count breakpoint
        if rng.random() < 0.5 and n_events >= 2:
            k = rng.randrange(1, n_events + 1)
            mode["bps"].append({"k": "count", "n": k, "one_shot": rng.random() < 0.7})
            mode["script"].insert(0, {"op": "step", "n": k})
    elif kind == "M6":
        mode["control"] = mode["hooks"] = True
        mode["bps"] = [_bp_spec(rng, prog["n_ent"], horizon_ns, n_events) for _ in range(rng.randrange(1, 4))]
        if rng.random() < 0.5:
            # no breakpoint registered when run() is entered; all are armed from an event hook during the run
            mode["hook_bps"] = [{"at": rng.randrange(1, max(2, n_events)), "bp": b} for b in mode["bps"]]
            mode["bps"] = []
        elif rng.random() < 0.3:
            mode["hook_bps"] = [{"at": rng.randrange(1, max(2, n_events)), "bp": _bp_spec(rng, prog["n_ent"], horizon_ns, n_events)}]
        for _ in range(rng.randrange(0, 3)):
            mode["script"].append({"op": "add_bp", "bp": _bp_spec(rng, prog["n_ent"], horizon_ns, n_events)})
            mode["script"].append({"op": "resume"})
        # the same breakpoint *objects* (immutable value objects) registered on a second, fresh simulation
        mode["repeat_shared_bps"] = rng.random() < 0.4
    return mode


def _baseline_shape(prog):
    """Number of deliveries and last instant of the unobserved run (from the reference: cheap, harness-side only)."""
    from hsverif.progmodel import run_reference

    try:
        ref = run_reference(prog, exact_overshoot=True)
    except RuntimeError:  # a program the generator could not bring under the reference budget
        return 3000, 10**9
    times = [e[1] for e in ref.log]
    return ref.processed, (max(times) if times else 0)


def gen_modes(rng: random.Random, tier: str) -> dict:
    prog = gen_program(rng, futures=rng.random() < 0.4, hooks=rng.random() < 0.4, max_pre=20)
    n_events, horizon = _baseline_shape(prog)
    kinds = ["M1", "M2", "M3", "M4", "M5", "M5", "M6", "M6", "M7", "M7", "M8", "M8"]
    modes = [_gen_mode(rng, prog, k, n_events, horizon) for k in kinds]
    return {"program": prog, "modes": modes}


def gen_reset(rng: random.Random, tier: str) -> dict:
    prog = gen_program(rng, futures=False, hooks=rng.random() < 0.5, max_pre=20)
    # harness-side statelessness: no cancels through handles during the run
    for act in prog["table"].values():
        act["cancel"] = []
        if act.get("body"):
            act["body"] = [s for s in act["body"] if s["op"] != "cancel"]
    n_events, _ = _baseline_shape(prog)
    return {
        "program": prog,
        "reset_after": rng.choice(["complete", "complete", "paused", "stepped-to-the-end"]),
        "step_n": rng.choice([1, 1, 3, n_events + 7]),
        "more_resets": rng.choice([0, 0, 1, 2]),
        "pause_at": rng.randrange(0, max(1, n_events)),
        "second_run_control": rng.random() < 0.5,
        # user-level clean-up between the first run and reset(): cancel some of the (old) pre-run event
        # objects, e.g. a watchdog that already fired; the replay must not be affected
        "cancel_after_run": sorted(rng.sample(range(len(prog["pre"])), rng.randrange(0, min(3, len(prog["pre"])) + 1))) if prog["pre"] and rng.random() < 0.5 else [],
    }


# --------------------------------------------------------------------------
# driving one run


class _BP:
    """Harness model of one breakpoint: predicate over the delivery record."""

    def __init__(self, spec, since=0):
        self.spec = spec
        self.one_shot = spec["one_shot"]
        self.since = since  # applies to deliveries numbered > since (1-based)

    def holds(self, d) -> bool:
        s = self.spec
        k = s["k"]
        if d["i"] <= self.since:
            return False
        if k in ("time", "cond-time"):
            return d["t"] >= s["t"]
        if k == "count":
            return d["n"] >= s["n"]
        if k == "type":
            return d["type"] == s["type"]
        if k == "cond-mod":
            return d["n"] % s["m"] == s["r"]
        v = d["handled"][s["ent"]]
        return {"ge": v >= s["thr"], "gt": v > s["thr"], "eq": v == s["thr"]}[s["op"]]

    def build(self, cache=None):
        if cache is None:
            return self._build()
        key = json.dumps(self.spec, sort_keys=True)
        if key not in cache:
            cache[key] = self._build()
        return cache[key]

    def _build(self):
        from happysimulator.core.control.breakpoints import (
            ConditionBreakpoint,
            EventCountBreakpoint,
            EventTypeBreakpoint,
            MetricBreakpoint,
            TimeBreakpoint,
        )
        from happysimulator.core.temporal import Instant

        s = self.spec
        k = s["k"]
        if k == "time":
            return TimeBreakpoint(time=Instant(s["t"]), one_shot=s["one_shot"])
        if k == "count":
            return EventCountBreakpoint(count=s["n"], one_shot=s["one_shot"])
        if k == "type":
            return EventTypeBreakpoint(event_type=s["type"], one_shot=s["one_shot"])
        if k == "cond-mod":
            m, r = s["m"], s["r"]
            return ConditionBreakpoint(fn=lambda ctx: ctx.events_processed % m == r, description="mod", one_shot=s["one_shot"])
        if k == "cond-time":
            t = s["t"]
            return ConditionBreakpoint(fn=lambda ctx: ctx.current_time.nanoseconds >= t, description="time", one_shot=s["one_shot"])
        return MetricBreakpoint(entity_name=f"e{s['ent']}", attribute="handled", operator=s["op"], threshold=s["thr"], one_shot=s["one_shot"])


def drive(prog, mode, res: Result | None = None, check_positions: bool = True, builder=None, bp_cache=None):
    """Run `prog` under `mode`. Returns (RealRun, sim, info)."""
    from happysimulator.core import event as _ev
    from happysimulator.instrumentation.recorder import InMemoryTraceRecorder

    rec = InMemoryTraceRecorder() if mode.get("recorder") else None
    rr = builder(prog, rec) if builder is not None else RealRun(prog, trace_recorder=rec)
    sim = rr.make()
    info = {"pauses_inside_run": 0, "steps_checked": 0, "bp_pauses_checked": 0, "time_hook_calls": 0}
    if mode.get("tracing"):
        _ev.enable_event_tracing()
    try:
        if not mode.get("control"):
            sim.run()
            return rr, sim, info
        ctl = sim.control
        deliveries: list[dict] = []
        since_resume = [0]
        active: list[_BP] = []
        if mode.get("hooks") or mode.get("hook_pause_at") is not None or mode.get("bps") or mode.get("hook_bps") or any(c["op"] == "add_bp" for c in mode["script"]):
            k_pause = mode.get("hook_pause_at")

            def on_event(ev):
                st_n = sim._events_processed  # same number BreakpointContext.events_processed exposes
                deliveries.append(
                    {
                        "i": len(deliveries) + 1,
                        "n": st_n,
                        "t": sim._clock.now.nanoseconds,
                        "type": ev.event_type,
                        "handled": [e.handled for e in rr.entities],
                    }
                )
                if k_pause is not None and len(deliveries) == k_pause:
                    ctl.pause()
                for hb in mode.get("hook_bps") or []:
                    if hb["at"] == len(deliveries):
                        # a breakpoint armed from inside the run (event hook), while the loop is executing
                        nb = _BP(hb["bp"], since=len(deliveries) - 1)
                        ctl.add_breakpoint(nb.build(bp_cache))
                        active.append(nb)

            ctl.on_event(on_event)

            t_pause = mode.get("time_pause_at")

            def on_time(t):
                info["time_hook_calls"] += 1
                if t_pause is not None and info["time_hook_calls"] == t_pause:
                    info["pauses_from_time_hook"] = info.get("pauses_from_time_hook", 0) + 1
                    ctl.pause()

            ctl.on_time_advance(on_time)
        for spec in mode.get("bps") or []:
            bp = _BP(spec)
            ctl.add_breakpoint(bp.build(bp_cache))
            active.append(bp)
        only_bps = mode["kind"] == "M6"
        steps_and_bps = mode["kind"] == "M8"
        last_cmd = None
        if mode.get("pause_first"):
            ctl.pause()
        sim.run()
        script = list(mode.get("script") or [])
        i = 0
        guard = 0
        while ctl.is_paused:
            guard += 1
            if guard > 5000:
                raise RuntimeError("control script did not terminate")
            st = ctl.get_state()
            if st.events_processed > 0 and sim._event_heap.has_events():
                info["pauses_inside_run"] += 1
            # breakpoint position oracle (only when breakpoints are the sole source of pauses)
            if only_bps and res is not None and check_positions:
                seg = deliveries[since_resume[0] :]
                _check_bp_pause(res, seg, active, paused=True)
                info["bp_pauses_checked"] += 1
                if seg:
                    last = seg[-1]
                    active[:] = [b for b in active if not (b.one_shot and b.holds(last))]
                since_resume[0] = len(deliveries)
            if steps_and_bps and res is not None and check_positions:
                seg = deliveries[since_resume[0] :]
                _check_step_bp_pause(res, seg, active, last_cmd)
                info["bp_pauses_checked"] += 1
                if seg:
                    last = seg[-1]
                    active[:] = [b for b in active if not (b.one_shot and b.holds(last))]
                since_resume[0] = len(deliveries)
            cmd = script[i] if i < len(script) else {"op": "resume"}
            i += 1
            op = cmd["op"]
            last_cmd = cmd
            if op in ("step", "pause_step"):
                before = st.events_processed
                if op == "pause_step":
                    ctl.pause()
                ctl.step(cmd["n"])
                after = ctl.get_state()
                info["steps_checked"] += 1
                if res is not None and after.events_processed == before and after.is_running and after.is_paused and sim._event_heap.has_events():
                    res.add(
                        "step-count",
                        "SimulationControl",
                        "step-delivered-nothing" + ("-after-pause-while-paused" if op == "pause_step" else ""),
                        f"step({cmd['n']}) delivered no event although the run is still active with events pending",
                    )
                if res is not None and not mode.get("bps") and mode.get("hook_pause_at") is None and mode.get("time_pause_at") is None and not mode.get("hook_bps") and not any(c["op"] == "add_bp" for c in script):
                    got = after.events_processed - before
                    if got != cmd["n"] and (after.is_running or got > cmd["n"]):
                        res.add(
                            "step-count",
                            "SimulationControl",
                            "step-n-delivered-other-than-n",
                            f"step({cmd['n']}) delivered {got} events (run still active={after.is_running})",
                        )
            elif op == "resume":
                ctl.resume()
            elif op == "peek":
                ctl.peek_next(cmd["n"])
            elif op == "state":
                ctl.get_state()
            elif op == "pause":
                ctl.pause()
                ctl.resume()
            elif op == "add_bp":
                bp = _BP(cmd["bp"], since=len(deliveries))
                ctl.add_breakpoint(bp.build(bp_cache))
                active.append(bp)
        if (only_bps or steps_and_bps) and res is not None and check_positions:
            _check_bp_pause(res, deliveries[since_resume[0] :], active, paused=False)
        info["deliveries_seen_by_hook"] = len(deliveries)
        return rr, sim, info
    finally:
        if mode.get("tracing"):
            _ev.disable_event_tracing()


def _check_step_bp_pause(res, seg, active, last_cmd):
    """Paused with steps and breakpoints as the only sources of pauses.  seg: deliveries since the last command.
    The pause must come right after min(n-th delivery of step(n), first delivery satisfying an active breakpoint)."""
    if last_cmd is None:
        if seg:
            res.add("breakpoint-position", "SimulationControl", "pause-before-first-event-came-late", f"{len(seg)} deliveries before the initial pause")
        return
    n = last_cmd["n"] if last_cmd["op"] == "step" else None
    first = None
    for j, d in enumerate(seg):
        hit = [b for b in active if b.holds(d)]
        if hit:
            first = (j, hit[0].spec["k"])
            break
    want = min([x for x in (n, first[0] + 1 if first else None) if x is not None], default=None)
    if want is None:
        res.add("breakpoint-position", "SimulationControl", "paused-without-step-or-satisfied-breakpoint", f"paused after {len(seg)} deliveries of resume() with active {[b.spec for b in active]}")
    elif len(seg) != want:
        why = "step-budget" if first is None or (n is not None and n < first[0] + 1) else f"breakpoint-{first[1]}" + ("-on-last-delivery-of-step" if n == first[0] + 1 else "")
        res.add(
            "breakpoint-position",
            "SimulationControl",
            ("paused-late-" if len(seg) > want else "paused-early-") + why,
            f"{last_cmd} then paused after {len(seg)} deliveries, expected {want} (first satisfying delivery: {first})",
        )


def _check_bp_pause(res, seg, active, paused):
    """seg: deliveries since the last resume. If paused, the pause must be right after the FIRST
    delivery in seg satisfying an active breakpoint; if the run ended, none may satisfy one."""
    first = None
    for j, d in enumerate(seg):
        hit = [b for b in active if b.holds(d)]
        if hit:
            first = (j, hit[0].spec["k"])
            break
    if paused:
        if not seg:
            return
        if first is None:
            res.add("breakpoint-position", "SimulationControl", "paused-without-satisfied-breakpoint", f"paused after {seg[-1]} with active {[b.spec for b in active]}")
        elif first[0] != len(seg) - 1:
            res.add(
                "breakpoint-position",
                "SimulationControl",
                f"paused-late-{first[1]}",
                f"first satisfying delivery was #{first[0]} of {len(seg)} since resume: {seg[first[0]]}",
            )
    elif first is not None:
        res.add("breakpoint-position", "SimulationControl", f"breakpoint-missed-{first[1]}", f"delivery {seg[first[0]]} satisfied an active breakpoint but the run did not pause")


# --------------------------------------------------------------------------
# oracles


def _outcome(rr, sim):
    s = sim.summary
    return {
        "log": [list(e) for e in rr.log],
        "clock": sim._clock.now.nanoseconds,
        "processed": s.total_events_processed if s else None,
        "cancelled": s.events_cancelled if s else None,
        "duration": s.duration_s if s else None,
        "handled": [e.handled for e in rr.entities],
    }


def run_modes(case: dict) -> Result:
    from hsverif.probe import EngineProbe, quiet_library_logging

    quiet_library_logging()
    res = Result()
    prog = case["program"]
    if not program_is_valid(prog):
        res.inconclusive = "invalid program"
        return res
    with EngineProbe(log_deliveries=False, instant_cap=50000, total_cap=400000) as p:
        box = {}

        def base():
            rr, sim, _ = drive(prog, {"kind": "M0"})
            box["base"] = _outcome(rr, sim)

        if p.run(None, base) != "completed":
            res.inconclusive = "baseline did not complete within caps"
            return res
        base_out = box["base"]
        res.count("events_monitored", p.n_deliveries)
        inside = 0
        for mode in case["modes"]:
            def one(mode=mode):
                cache = {} if mode.get("repeat_shared_bps") else None
                rr, sim, info = drive(prog, mode, res, bp_cache=cache)
                if cache is not None:
                    # second fresh simulation, same breakpoint objects; judged like the first
                    res.count("shared_breakpoint_reruns")
                    rr, sim, info = drive(prog, mode, res, bp_cache=cache)
                box["out"] = _outcome(rr, sim)
                box["info"] = info

            status = p.run(None, one)
            if status != "completed":
                res.add("mode-did-not-complete", "SimulationControl", mode["kind"], f"status {status}")
                continue
            out, info = box["out"], box["info"]
            res.count("modes_compared")
            res.count("steps_checked", info["steps_checked"])
            res.count("breakpoint_pauses_checked", info["bp_pauses_checked"])
            res.count("pauses_from_time_hook", info.get("pauses_from_time_hook", 0))
            inside += info["pauses_inside_run"]
            comp = "SimulationControl" if mode.get("control") else ("TraceRecorder" if mode.get("recorder") else "EventTracing")
            if out["log"] != base_out["log"]:
                i = 0
                a, b = out["log"], base_out["log"]
                while i < len(a) and i < len(b) and a[i] == b[i]:
                    i += 1
                res.add(
                    "delivery-log-differs",
                    comp,
                    mode["kind"] + ("-longer" if len(a) > len(b) else "-shorter" if len(a) < len(b) else "-reordered-or-changed"),
                    f"first difference at {i}: observed {a[i] if i < len(a) else None} vs unobserved {b[i] if i < len(b) else None}",
                    witness={"mode": mode},
                )
            else:
                for k in ("clock", "processed", "cancelled", "duration", "handled"):
                    if out[k] != base_out[k]:
                        res.add("final-state-differs", comp, f"{mode['kind']}-{k}", f"{k}: observed {out[k]} vs unobserved {base_out[k]}", witness={"mode": mode})
                        break
        res.nontrivial = len(base_out["log"]) >= 20 and inside > 0
        if inside:
            res.count("cases_with_pause_inside_run")
    return res


def run_reset(case: dict) -> Result:
    from hsverif.probe import EngineProbe, quiet_library_logging

    quiet_library_logging()
    res = Result()
    prog = case["program"]
    if not program_is_valid(prog):
        res.inconclusive = "invalid program"
        return res

    def key_log(rr, log):
        out = []
        for e in log:
            if e[0] == "D":
                ev = rr.events[e[3]]
                out.append(("D", e[1], e[2], ev.event_type, ev.target.name))
            elif e[0] == "R":
                out.append(("R", e[1], e[3]))
            elif e[0] == "H":
                out.append(("H", e[1], e[2], e[3]))
            else:
                out.append(("F", e[1]))
        return out

    with EngineProbe(log_deliveries=False, instant_cap=50000, total_cap=400000) as p:
        box = {}

        def go():
            # reference: a completely fresh, uninterrupted run
            rr0 = RealRun(prog)
            rr0.make().run()
            box["first"] = key_log(rr0, rr0.log)
            rr = RealRun(prog)
            sim = rr.make()
            if case["reset_after"] == "paused":
                ctl = sim.control
                ctl.pause()
                sim.run()
                if case["pause_at"] > 0 and ctl.is_paused:
                    ctl.step(case["pause_at"])
            elif case["reset_after"] == "stepped-to-the-end":
                # single steps / one over-long step: the run ends while a step budget is still outstanding
                ctl = sim.control
                ctl.pause()
                sim.run()
                guard = 0
                while ctl.is_paused and guard < 5000:
                    ctl.step(case.get("step_n") or 1)
                    guard += 1
            else:
                sim.run()
            n1 = len(rr.log)
            for i in case.get("cancel_after_run") or []:
                if i in rr.events:
                    rr.events[i].cancel()
            sim.control.reset()
            sim.run()
            box["replay_paused"] = bool(sim.control.is_paused)
            while sim.control.is_paused:
                sim.control.resume()
            # further reset + run rounds: each must again equal the fresh run
            for _ in range(int(case.get("more_resets") or 0)):
                if key_log(rr, rr.log[n1:]) != box["first"]:
                    break
                n1 = len(rr.log)
                sim.control.reset()
                sim.run()
                while sim.control.is_paused:
                    sim.control.resume()
            box["second"] = key_log(rr, rr.log[n1:])

        status = p.run(None, go)
        if status != "completed":
            res.inconclusive = f"run did not complete: {status}"
            return res
    res.count("modes_compared")
    res.count("resets_compared")
    a, b = box["second"], box["first"]
    pre = prog["pre"]
    if box.get("replay_paused"):
        # nothing asks the replayed run to pause: no breakpoint is registered and every pause request was consumed
        res.add("reset-replay-pauses", "SimulationControl", "after-" + case["reset_after"], "run() after reset() returned paused although no pause was requested and no breakpoint is registered")
    if a != b:
        i = 0
        while i < len(a) and i < len(b) and a[i] == b[i]:
            i += 1
        has_cancel = any(s.get("cancel_pre") for s in pre)
        has_hooks = any(s.get("hooks") for s in pre)
        shape = "plain"
        if case.get("cancel_after_run"):
            shape = "pre-run-event-cancelled-after-first-run"
        elif has_cancel and not has_hooks:
            shape = "pre-run-cancelled-event"
        elif has_hooks and not has_cancel:
            shape = "pre-run-event-with-completion-hooks"
        elif has_hooks and has_cancel:
            shape = "pre-run-cancelled-and-hooks"
        res.add(
            "reset-replay-differs",
            "SimulationControl",
            shape + "-after-" + case["reset_after"] + ("-repeated-reset" if case.get("more_resets") else ""),
            f"first difference at {i}: after reset {a[i] if i < len(a) else None} vs original {b[i] if i < len(b) else None}",
        )
    res.nontrivial = len(b) >= 10
    return res


# --------------------------------------------------------------------------
# library-component pipeline under the same modes


class Pipeline:
    """Source -> QueuedResource server (random service times) -> Sink, plus a daemon probe source."""

    def __init__(self, spec, recorder=None):
        self.spec = spec
        self.recorder = recorder
        self.entities = []  # no script entities (metric breakpoints are not generated)
        self.log = []

    def make(self):
        import random as _r

        from happysimulator import Event, Instant, Simulation, Sink, Source
        from happysimulator.components.queue_policy import FIFOQueue
        from happysimulator.components.queued_resource import QueuedResource

        spec = self.spec
        _r.seed(spec["seed"])
        import numpy as _np

        _np.random.seed(spec["seed"] % (2**32))
        sink = Sink()

        class Srv(QueuedResource):
            def __init__(self, name, downstream, conc, mean):
                super().__init__(name, policy=FIFOQueue())
                self.downstream, self.conc, self.mean, self.inflight, self.done = downstream, conc, mean, 0, 0

            def has_capacity(self):
                return self.inflight < self.conc

            def handle_queued_event(self, event):
                self.inflight += 1
                yield _r.expovariate(1.0 / self.mean)
                self.inflight -= 1
                self.done += 1
                return [Event(time=self.now, event_type="Done", target=self.downstream, context=event.context)]

        srv = Srv("srv", sink, spec["conc"], spec["mean"])
        mk = Source.poisson if spec["poisson"] else Source.constant
        src = mk(rate=spec["rate"], target=srv, event_type="Request", stop_after=spec["stop_after"])
        tick = Sink("ticks")
        probe = Source.constant(rate=spec["probe_rate"], target=tick, event_type="Tick", name="probe")
        kw = {"trace_recorder": self.recorder} if self.recorder is not None else {}
        end = spec["end"]
        self.sim = Simulation(
            sources=[src],
            entities=[srv, sink, tick],
            probes=[probe],
            end_time=Instant.from_seconds(end) if end is not None else None,
            **kw,
        )
        self.parts = {"src": src, "srv": srv, "sink": sink, "tick": tick}
        return self.sim

    def outcome(self):
        p = self.parts
        s = self.sim.summary
        return {
            "generated": p["src"].generated_count,
            "received": p["sink"].events_received,
            "completion": [t.nanoseconds for t in p["sink"].completion_times],
            "latencies": list(p["sink"].latencies_s),
            "done": p["srv"].done,
            "accepted": p["srv"].stats_accepted,
            "dropped": p["srv"].stats_dropped,
            "ticks": p["tick"].events_received,
            "clock": self.sim._clock.now.nanoseconds,
            "processed": s.total_events_processed if s else None,
            "cancelled": s.events_cancelled if s else None,
        }


def gen_pipeline(rng: random.Random, tier: str) -> dict:
    spec = {
        "seed": rng.randrange(1 << 30),
        "poisson": rng.random() < 0.6,
        "rate": rng.choice([5.0, 20.0, 50.0]),
        "stop_after": rng.choice([1.0, 2.0, 4.0]),
        "conc": rng.choice([1, 2, 4]),
        "mean": rng.choice([0.01, 0.05, 0.2]),
        "probe_rate": rng.choice([1.0, 10.0]),
        "end": rng.choice([0.5, 3.0, 10.0, 30.0]),
    }
    n_events = int(spec["rate"] * spec["stop_after"] * 4)
    horizon = int((spec["end"] or spec["stop_after"] + 1) * 1e9)
    prog = {"n_ent": 0}
    kinds = ["M1", "M2", "M3", "M4", "M5", "M6", "M7", "M7"]
    return {"spec": spec, "modes": [_gen_mode(rng, prog, k, n_events, horizon) for k in kinds]}


def run_pipeline(case: dict) -> Result:
    from hsverif.probe import EngineProbe, quiet_library_logging

    quiet_library_logging()
    res = Result()
    spec = case["spec"]
    with EngineProbe(log_deliveries=True, instant_cap=50000, total_cap=2_000_000) as p:
        box = {}

        def go(mode):
            n0 = len(p.deliveries)
            rr, sim, info = drive(spec, mode, res, builder=Pipeline)
            box["out"] = rr.outcome()
            box["out"]["deliveries"] = [d[:5] for d in p.deliveries[n0:]]
            box["info"] = info

        if p.run(None, lambda: go({"kind": "M0"})) != "completed":
            res.inconclusive = "baseline did not complete within caps"
            return res
        base_out = box["out"]
        inside = 0
        for mode in case["modes"]:
            status = p.run(None, lambda mode=mode: go(mode))
            if status != "completed":
                res.add("mode-did-not-complete", "SimulationControl", mode["kind"], f"status {status}")
                continue
            out, info = box["out"], box["info"]
            res.count("modes_compared")
            res.count("steps_checked", info["steps_checked"])
            res.count("breakpoint_pauses_checked", info["bp_pauses_checked"])
            inside += info["pauses_inside_run"]
            comp = "SimulationControl" if mode.get("control") else ("TraceRecorder" if mode.get("recorder") else "EventTracing")
            for k in out:
                if out[k] != base_out[k]:
                    a, b = out[k], base_out[k]
                    det = f"{k}: observed {str(a)[:120]} vs unobserved {str(b)[:120]}"
                    if isinstance(a, list):
                        i = 0
                        while i < len(a) and i < len(b) and a[i] == b[i]:
                            i += 1
                        det = f"{k}: first difference at {i}: {a[i] if i < len(a) else None} vs {b[i] if i < len(b) else None} (lengths {len(a)}/{len(b)})"
                    res.add("library-pipeline-differs", comp, f"{mode['kind']}-{k}", det, witness={"mode": mode})
                    break
        # reset()+run() with sources and probes in the model: pre-run events scheduled on exactly the first tick
        # instants of the source / probe must keep their tie order in the replay
        def tied_pipeline():
            from happysimulator import Event

            pl = Pipeline(spec)
            sim = pl.make()
            firsts = sorted({e.time.nanoseconds for e in sim._event_heap._heap})
            from happysimulator.core.temporal import Instant

            for j, t in enumerate(firsts[:2]):
                sim.schedule(Event(time=Instant(t), event_type="Request", target=pl.parts["srv"], context={"created_at": Instant(t), "request_id": -1 - j}))
            return pl, sim

        def reset_go():
            n0 = len(p.deliveries)
            pl, sim = tied_pipeline()
            sim.run()
            box["fresh"] = [d[1:5] for d in p.deliveries[n0:]]
            pl, sim = tied_pipeline()
            sim.run()
            n1 = len(p.deliveries)
            sim.control.reset()
            # a reset does not reset the (stateful) library components; rebuild the comparison on a pristine
            # pipeline is impossible, so only the tie order at the first instants is compared
            sim.run()
            box["again"] = [d[1:5] for d in p.deliveries[n1:]]

        # only with a deterministic (constant-rate) source: a Poisson source legitimately draws a new first arrival
        if not spec["poisson"] and p.run(None, reset_go) == "completed":
            res.count("resets_with_sources_compared")
            first_t = box["fresh"][0][0] if box["fresh"] else None
            # the server is stateful (queue, in-flight work), so only the order in which the source tick and the
            # tied pre-run arrivals reach their targets at the first instant is compared
            a = [x for x in box["again"] if x[0] == first_t and x[2] in ("Source", "srv", "probe", "ticks")]
            b = [x for x in box["fresh"] if x[0] == first_t and x[2] in ("Source", "srv", "probe", "ticks")]
            if a != b:
                res.add("reset-replay-differs", "SimulationControl", "tie-between-source-tick-and-pre-run-event", f"first instant after reset {a} vs original {b}")
        res.count("events_monitored", p.n_deliveries)
        res.nontrivial = len(base_out["deliveries"]) >= 20 and inside > 0
        if inside:
            res.count("cases_with_pause_inside_run")
    return res


def _shrink_modes(case, still_fails):
    cur = copy.deepcopy(case)
    # keep only one mode if possible
    for m in list(cur["modes"]):
        cand = copy.deepcopy(cur)
        cand["modes"] = [m]
        if still_fails(cand):
            cur = cand
            break
    prog = shrink_program(cur["program"], lambda pr: still_fails({**cur, "program": pr}))
    cur["program"] = prog
    return cur


def _shrink_reset(case, still_fails):
    cur = copy.deepcopy(case)
    cur["program"] = shrink_program(cur["program"], lambda pr: still_fails({**cur, "program": pr}))
    return cur


FAMILIES = {
    "modes": Family("modes", gen_modes, run_modes, shrink=_shrink_modes, case_timeout=60.0),
    "reset": Family("reset", gen_reset, run_reset, shrink=_shrink_reset, case_timeout=60.0),
    "pipeline": Family("pipeline", gen_pipeline, run_pipeline, case_timeout=120.0),
}
BUDGET = {"quick": {"modes": 300, "reset": 250, "pipeline": 60}, "thorough": {"modes": 20000, "reset": 10000, "pipeline": 3000}}

"""C02  Generator processes and futures resume at the right instant, value, and once.

Monitor shape: history + executable reference model.  Abstract process
scripts (delays, delay+side effects, awaits of futures and nested any_of /
all_of, yield from, resolves, completion hooks) are run by one generic
generator handler in the real engine and by the reference interpreter; the
per-process resume logs, hook firings and side-effect deliveries must match.
"""

from __future__ import annotations

import random
from collections import Counter, defaultdict

from hsverif.core import Family, Result
from hsverif.proggen import gen_program, shrink_program
from hsverif.progmodel import RealRun, program_is_valid, run_reference
from hsverif.props.c01 import compare_logs

PID = "C02"
LEVEL = "exploration"
RULE = (
    "Generated process scripts: bodies built from `yield d`, `yield d, events`, `yield future`, nested any_of/all_of "
    "(depth <= 3), `yield from` sub-bodies, resolves of named futures from handlers and from other processes (before, at "
    "and after the awaiting instant, often twice), cancels, completion hooks on triggering events; delays from "
    "{0, 0.3ns, 1ns, 2.5ns, 0.1+0.2, 0.7, 1ms, 1s, 1e6s}. Per process the (resume instant, received value) log, hook "
    "firings (count, instant, time argument), finish instants and side-effect deliveries are compared with the "
    "reference interpreter. Non-trivial: the executed script awaited an already-resolved future, or a nested combinator, "
    "or had hooks on a process that parked, or resolved a future twice. Family `wiring`: 2-5 futures, each yielded "
    "directly by at most one process and at the same time an input of any number of (nested) combinators awaited by "
    "other processes, resolved in random order (same instant, twice, before anyone waits, never). Distinct by hash of the program."
)
ASSUMPTIONS = [
    "a resumption (after a delay or a resolve) is an event created at that instant and ordered by creation among same-instant events (C01)",
    "delays are converted as documented for Instant + float: truncation of seconds * 1e9 to whole nanoseconds",
    "each named future is awaited by at most one process (programs violating this are regenerated)",
]
MUST_OBSERVE = ["resumes_compared"]


def gen(rng: random.Random, tier: str) -> dict:
    return gen_program(rng, futures=True, hooks=True, max_pre=12)


def run(case: dict) -> Result:
    from hsverif.probe import EngineProbe, quiet_library_logging

    quiet_library_logging()
    res = Result()
    if not program_is_valid(case):
        res.inconclusive = "invalid program (two processes on one future)"
        return res
    ref = run_reference(case)
    rr = RealRun(case)
    sim = rr.make()
    with EngineProbe(log_deliveries=False, instant_cap=50000, total_cap=200000) as p:
        status = p.run(sim)
    if status == "spin":
        res.add("frozen-clock", "Simulation", "finite-program", detail=str(p.spin))
        return res
    if status != "completed":
        res.inconclusive = "delivery budget exceeded"
        return res
    end_ns = case.get("end_ns")
    live = lambda e: end_ns is None or e[1] <= end_ns  # noqa: E731
    real = [tuple(e) for e in rr.log if live(e)]
    want = [tuple(e) for e in ref.log if live(e)]
    res.count("events_monitored", p.n_deliveries)

    # ---- per-process resume logs
    def per_proc(log):
        d = defaultdict(list)
        for e in log:
            if e[0] == "R":
                d[e[2]].append((e[1], e[3], _j(e[4])))
        return d

    rp, wp = per_proc(real), per_proc(want)
    n_res = sum(len(v) for v in wp.values())
    res.count("resumes_compared", n_res)
    for pid in sorted(set(rp) | set(wp)):
        a, b = rp.get(pid, []), wp.get(pid, [])
        if a == b:
            continue
        i = 0
        while i < len(a) and i < len(b) and a[i] == b[i]:
            i += 1
        x = a[i] if i < len(a) else None
        y = b[i] if i < len(b) else None
        stmt = _stmt_at(case, ref, pid, (y or x)[1])
        kind = _stmt_kind(stmt)
        if x is None:
            res.add("resume-missing", "ProcessContinuation", kind, f"process {pid}: expected resume {y}, process never resumed there")
        elif y is None:
            res.add("resume-extra", "ProcessContinuation", kind, f"process {pid}: unexpected resume {x}")
        elif x[1] != y[1]:
            res.add("resume-wrong-step", "ProcessContinuation", kind, f"process {pid}: real {x} reference {y}")
        elif x[0] != y[0]:
            res.add("resume-time", "ProcessContinuation", kind, f"process {pid} step {x[1]}: resumed at {x[0]}ns, expected {y[0]}ns (stmt {stmt})")
        else:
            res.add("resume-value", "SimFuture", kind, f"process {pid} step {x[1]}: received {x[2]!r}, expected {y[2]!r} (stmt {stmt})")
        break

    # ---- hooks: exactly once each, at the finish instant, with the finish time as argument
    rh = Counter((e[2], e[1], e[3]) for e in real if e[0] == "H")
    wh = Counter((e[2], e[1], e[3]) for e in want if e[0] == "H")
    res.count("hooks_compared", sum(wh.values()))
    if rh != wh:
        missing = list((wh - rh).elements())[:3]
        extra = list((rh - wh).elements())[:3]
        ids_m = {m[0] for m in missing}
        ids_e = {m[0] for m in extra}
        if ids_m & ids_e:
            shape = "hook-at-wrong-instant"
        elif extra:
            shape = "hook-fired-extra"
        else:
            shape = "hook-never-fired"
        res.add("completion-hook", "Event", shape, f"missing (id, now, time arg) {missing}; extra {extra}")

    # ---- finish instants
    rf = Counter((e[2], e[1]) for e in real if e[0] == "F")
    wf = Counter((e[2], e[1]) for e in want if e[0] == "F")
    if rf != wf:
        res.add("finish-instant", "ProcessContinuation", "generator-finish", f"missing {list((wf - rf).elements())[:3]} extra {list((rf - wf).elements())[:3]}")

    # ---- side-effect / return event deliveries (as a multiset first, then the full sequence)
    rd = Counter(e for e in real if e[0] == "D")
    wd = Counter(e for e in want if e[0] == "D")
    res.count("deliveries_compared", sum(wd.values()))
    if rd != wd:
        miss = list((wd - rd).elements())[:3]
        extra = list((rd - wd).elements())[:3]
        origins = {ref.events[m[3]]["origin"] for m in miss if m[3] in ref.events} | {
            ref.events[m[3]]["origin"] for m in extra if m[3] in ref.events
        }
        res.add("event-delivery", "ProcessContinuation", "origin-" + "+".join(sorted(origins) or ["unknown"]), f"missing {miss} extra {extra}")
    if not res.violations:
        compare_logs(res, rr.log, ref, end_ns, component="Simulation")

    st = ref.stats
    for k in ("await_already_resolved", "nested_combinator_awaits", "combinator_awaits", "hooks_on_parked_process", "second_resolves", "resolve_with_waiter_and_combinator"):
        if st.get(k):
            res.count("cases_with_" + k)
    res.nontrivial = bool(
        st.get("await_already_resolved") or st.get("nested_combinator_awaits") or st.get("hooks_on_parked_process") or st.get("second_resolves")
    )
    return res


def _j(v):
    if isinstance(v, (list, tuple)):
        return [_j(x) for x in v]
    return v


def _stmt_at(case, ref, pid, path):
    rec = ref.events.get(pid)
    if rec is None:
        return None
    action = case["table"].get(f"{rec['ent']}:{rec['type']}")
    if not action or action["kind"] != "gen":
        return None
    body = action["body"]
    stmt = None
    try:
        for part in str(path).split("."):
            stmt = body[int(part)]
            body = stmt.get("body", [])
    except (ValueError, IndexError, AttributeError):
        return None
    return stmt


def _stmt_kind(stmt):
    if not stmt:
        return "unknown-stmt"
    if stmt["op"] == "delay":
        return "after-delay-with-side-effects" if stmt.get("side") is not None else "after-delay"
    if stmt["op"] == "await":
        fx = stmt["f"]
        if isinstance(fx, str):
            return "after-await-future"
        k = "any_of" if "any" in fx else "all_of"
        nested = any(isinstance(x, dict) for x in fx.get("any") or fx.get("all"))
        return f"after-await-{k}" + ("-nested" if nested else "")
    return "after-" + stmt["op"]


def _gen_wiring(rng: random.Random, tier: str) -> dict:
    """Waiter / resolver wiring: a handful of futures, each yielded directly by at most one process and at the
    same time an input of any number of (nested) combinators awaited by other processes (worker + watchdog +
    auditor on one `done` future); a resolver resolves them in a random order, some at one instant, some twice,
    some before anybody waits, some never."""
    for _attempt in range(30):
        n_fut = rng.randrange(2, 6)
        futs = [f"f{i}" for i in range(n_fut)]
        n_wait = rng.randrange(2, 6)
        directs = rng.sample(futs, min(n_fut, rng.randrange(1, n_wait + 1)))
        max_depth = rng.choice([2, 2, 3, 4])

        def tree(depth=0):
            if depth >= max_depth or (depth > 0 and rng.random() < 0.55):
                return rng.choice(futs)
            k = rng.randrange(2, 4)
            return {rng.choice(["any", "all"]): [tree(depth + 1) for _ in range(k)]}

        table = {}
        for w in range(n_wait):
            body = []
            if rng.random() < 0.6:
                body.append({"op": "delay", "d": rng.choice([0.0, 1e-9, 1e-3, 0.01]), "side": None, "side_style": "none"})
            body.append({"op": "await", "f": directs[w] if w < len(directs) else tree()})
            if rng.random() < 0.3:
                body.append({"op": "await", "f": tree()})
            if rng.random() < 0.3:
                body.append({"op": "delay", "d": rng.choice([0.0, 1e-9, 1e-3]), "side": None, "side_style": "none"})
            table[f"{w}:T0"] = {"kind": "gen", "body": body, "ret": [], "style": "list", "wrapped": rng.random() < 0.15}
        # resolvers: entity n_wait + j, one action per event type
        value = [200]
        slots = []
        n_res = rng.randrange(1, 3)
        for j in range(n_res):
            for t in ("T1", "T2", "T3", "T4"):
                value[0] += 1
                names = rng.sample(futs, rng.randrange(1, min(3, n_fut) + 1))
                table[f"{n_wait + j}:{t}"] = {
                    "kind": "emit",
                    "events": [],
                    "cancel": [],
                    "resolve": [[f, value[0] * 10 + i if rng.random() < 0.8 else rng.choice([None, 0, "", False, [], ["<exc>", "TimeoutError", "late"]])] for i, f in enumerate(names)],
                    "style": "list",
                }
                slots.append((n_wait + j, t))
        start = rng.choice([0, 1000, 10**9])
        pre = []
        for w in range(n_wait):
            pre.append({"t": start + rng.choice([0, 0, 1, 1000, 10**6]), "dt": 0, "ent": w, "type": "T0", "daemon": False, "handle": None, "phase": "after", "cancel_pre": False})
        times = [start + x for x in rng.sample([0, 1, 1000, 10**6, 10**6 + 1, 2 * 10**7, 10**9, 3 * 10**9], rng.randrange(1, 4))]
        for ent, t in rng.sample(slots, rng.randrange(1, len(slots) + 1)):
            pre.append({"t": rng.choice(times), "dt": 0, "ent": ent, "type": t, "daemon": False, "handle": None, "phase": "after", "cancel_pre": False})
        order = list(range(len(pre)))
        rng.shuffle(order)
        prog = {"n_ent": n_wait + n_res, "end_ns": None, "pre": pre, "sched_order": order, "table": table}
        if program_is_valid(prog):
            return prog
    return prog


def _gen_reuse(rng: random.Random, tier: str) -> dict:
    """Futures that outlive the run they were created in: the model is run, reset through the control surface and
    run again; entities keep their (by then mostly resolved) future objects."""
    prog = None
    for _attempt in range(40):
        prog = gen_program(rng, futures=True, hooks=False, max_pre=12)
        prog["end_ns"] = None  # no horizon: the engine's one-event overshoot would make "resolved in run 1" ambiguous
        prog.pop("use_duration", None)
        for act in prog["table"].values():  # the harness keeps handles to the first run's events: no in-run cancels
            act["cancel"] = []
            if act.get("body"):
                act["body"] = _strip_cancels(act["body"])
        try:
            ref1 = run_reference(prog)
            if ref1.n_parked or not ref1.futures:
                continue  # a process of the first run is still parked (it would wake up inside the second run)
            init = {n: [f.resolved, f.value] for n, f in ref1.futures.items()}
            run_reference(prog, initial_futures=init)
        except Exception:  # noqa: BLE001
            continue
        prog["reuse"] = True
        return prog
    return prog


def _strip_cancels(body):
    out = []
    for st in body:
        if st["op"] == "cancel":
            continue
        if st["op"] == "sub":
            st = {**st, "body": _strip_cancels(st["body"])}
        out.append(st)
    return out


def run_reuse(case: dict) -> Result:
    from hsverif.probe import EngineProbe, quiet_library_logging

    quiet_library_logging()
    res = Result()
    try:
        ref1 = run_reference(case)
        if ref1.n_parked:
            raise ValueError("parked")
        init = {n: [f.resolved, f.value] for n, f in ref1.futures.items()}
        ref2 = run_reference(case, initial_futures=init)
    except Exception:  # noqa: BLE001
        res.inconclusive = "program not reusable"
        return res
    rr = RealRun(case)
    sim = rr.make()
    end_ns = case.get("end_ns")
    box = {}
    with EngineProbe(log_deliveries=False, instant_cap=50000, total_cap=400000) as p:

        def go():
            sim.run()
            box["first"] = rr.log
            rr.log = []
            rr.pid = len(case["pre"])
            sim.control.reset()
            sim.run()

        status = p.run(sim, go)
    if status != "completed":
        res.inconclusive = f"run did not complete: {status}"
        return res
    res.count("events_monitored", p.n_deliveries)
    res.count("reuse_runs_compared")
    res.count("resumes_compared", sum(1 for e in ref2.log if e[0] == "R"))
    if compare_logs(res, box["first"], ref1, end_ns):
        compare_logs(res, rr.log, ref2, end_ns, component="SimFuture(created in an earlier run)")
    st = ref2.stats
    if st.get("await_already_resolved"):
        res.count("cases_with_await_of_future_resolved_in_earlier_run")
    res.nontrivial = bool(st.get("await_already_resolved"))
    return res


FAMILIES = {
    "reuse": Family("reuse", _gen_reuse, run_reuse, shrink=shrink_program, case_timeout=30.0),
    "scripts": Family("scripts", gen, run, shrink=shrink_program, case_timeout=30.0),
    "wiring": Family("wiring", _gen_wiring, run, shrink=shrink_program, case_timeout=30.0),
}
BUDGET = {"quick": {"scripts": 2500, "wiring": 1500, "reuse": 600}, "thorough": {"scripts": 100000, "wiring": 60000, "reuse": 20000}}

"""C07  No library component emits an event into the past or spins at a frozen clock.

Monitor shape: invariant at a hook (every heap push, every delivery) over runs
of the *real* components built by the scenario catalogue
(`hsverif.scenarios`), plus - thorough tier - the repository's own test suite
executed in-process under the same probes (`hsverif.pytest_plugin`).

Refuting observations
  past-emission        an event pushed with time < clock-at-push whose responsible code
                       (creating frame / innermost generator / delivered entity) is defined
                       in `happysimulator.` outside `happysimulator.core`
  time-travel-discard  a "Time travel detected" record of the engine that no recorded past
                       emission explains (cross-check of the emission probe)
  frozen-clock         more than the cap of deliveries at one instant under a finite workload
"""

from __future__ import annotations

import json
import os
import random
import subprocess
import sys
import tempfile

from hsverif.core import Family, Result, repo_root

PID = "C07"
LEVEL = "exploration"
INSTANT_CAP_MIN = 20_000
INSTANT_CAP_PER_ARRIVAL = 200
TOTAL_CAP = 400_000
MUTATED_FRACTION = 0.5  # share of exploration cases that also get 1-2 constructor-parameter mutations

RULE = (
    "Layer 1: every case = (scenario builder from hsverif.scenarios, seed, hostile parameters): arrival instants "
    "in integer nanoseconds with bursts on one nanosecond (2..89 arrivals), every latency knob of the component a "
    "positive awkward value (1e-9 .. 0.25 s, thirds, non-representable decimals), capacity 1..5 below the burst "
    "size, structural counts from {1,2,3,5,9,10,11,12}, holders keeping a lock / permit / connection for a positive time "
    "while others wait, wrappers behind delaying stages and in front of zero-latency targets, degenerate operations "
    "(empty results, zero durations, size 0/1); half of the cases additionally replace 1-2 numeric constructor "
    "parameters of the library objects the builder creates (hsverif.scenarios._mutate: 0 where accepted, 1 ns, 0.0003 / "
    "0.3 / 0.29 / 2.01, x1000, /1000, x7, /7; counts 1..12; probabilities 0/1). Each component "
    "family under happysimulator/components has >= 1 builder; the family of a check = the component family. "
    "The real Simulation runs under EngineProbe (push probe, 'Time travel detected' log probe, per-instant "
    "delivery counter with cap max(20000, 200 x arrivals), total cap 400000). Non-trivial: library code emitted "
    ">= 1 event strictly in the future, or emitted after simulated time had passed since the first delivery, or a "
    "library generator was resumed after a positive delay, or >= 1 process parked on a SimFuture (blocked waiter); "
    "and the clock visited >= 2 instants. Distinct by hash of the case. "
    "Mechanism key: component = class of the responsible library code (creating frame / polling generator / "
    "self re-arming entity), oracle, shape = normalised event type or spin:<generator> / rearm:<event type> "
    "(@<policy class> for a RateLimitedEntity, whose waits are its policy's). "
    "Layer 2 (thorough): the repository test suite under the same probes, emitters/creators defined in test "
    "files ignored; only the emission and discard probes decide there (finiteness of a test's workload is unknown)."
)
ASSUMPTIONS = [
    "a library emitter is code whose module is happysimulator.* outside happysimulator.core; events stamped by "
    "harness entities or user callbacks are not judged",
    "frozen clock is the bounded restatement: more than max(20000, 200 x scheduled arrivals) deliveries at one "
    "instant of a finite workload; every scenario schedules <= 100 arrivals, so a polynomial same-instant hand-off "
    "chain stays far below the cap",
    "attribution of a past emission uses the frame that constructed the Event (when it was constructed already "
    "stale), the innermost generator of a continuation, else the entity whose delivery pushed it",
    "layer 2 cannot decide frozen clocks (it reports the largest per-instant delivery count only)",
]
MUST_OBSERVE = ["pushes_monitored", "deliveries_monitored"]


# --------------------------------------------------------------------------
# running one scenario under the probes

CASE_WALL_BUDGET_S = 4.0


class _WallBudgetExceeded(BaseException):
    """BaseException so that `except Exception` inside the library cannot swallow it."""


class _WallBudget:
    """CPU-time budget for one run (ITIMER_VIRTUAL / SIGVTALRM): independent of the machine's load and of the
    worker's own wall-clock watchdog (ITIMER_REAL / SIGALRM), which stays untouched."""

    def __init__(self, seconds: float):
        self.seconds = seconds
        self.prev_handler = None
        self.active = False

    def __enter__(self):
        import signal
        import threading

        if threading.current_thread() is not threading.main_thread():
            return self

        def fire(signum, frame):
            raise _WallBudgetExceeded()

        self.prev_handler = signal.signal(signal.SIGVTALRM, fire)
        signal.setitimer(signal.ITIMER_VIRTUAL, self.seconds)
        self.active = True
        return self

    def __exit__(self, *exc):
        if self.active:
            import signal

            signal.setitimer(signal.ITIMER_VIRTUAL, 0)
            signal.signal(signal.SIGVTALRM, self.prev_handler or signal.SIG_DFL)
        return False

_COV = None


def _coverage():
    global _COV
    if _COV is None:
        from hsverif.c07_probe import CoverageMonitor

        _COV = CoverageMonitor()
        _COV.start()
    else:
        _COV.reset()
    return _COV


def run_scenario(
    name: str, seed: int, params: dict, res: Result | None = None, coverage: bool = True, mutate: dict | None = None
) -> Result:
    from hsverif.c07_probe import C07Probe, driven_classes, is_library_module, norm_type
    from hsverif.probe import quiet_library_logging
    from hsverif.scenarios import CATALOGUE

    quiet_library_logging()
    res = res if res is not None else Result()
    cov = _coverage() if coverage else None
    applied: list = []
    if mutate:
        # generic hostile layer over the numeric constructor parameters (hsverif.scenarios._mutate):
        # pass 1 records the sites, the case's own RNG picks replacements, pass 2 builds with them.
        from hsverif.scenarios import _mutate

        def build():
            return CATALOGUE[name](seed, params)

        plan = mutate.get("plan")
        if plan is None:
            plan = _mutate.plan_mutations(_mutate.record_sites(build), int(mutate.get("seed", 0)), int(mutate.get("k", 1)))
        try:
            sc, applied = _mutate.build_mutated(build, plan)
        except Exception as exc:  # noqa: BLE001
            # the builder's own code could not cope with the replaced value (harness limitation, not a verdict)
            res.inconclusive = f"builder {name} cannot be built with constructor mutation {plan}: {type(exc).__name__}: {exc}"[:300]
            res.count("mutated_builds_failed")
            return res
        res.count("ctor_mutations_applied", sum(1 for a in applied if "rejected" not in a))
        res.count("ctor_mutations_rejected_by_constructor", sum(1 for a in applied if "rejected" in a))
        for a in applied:
            if "rejected" not in a:
                res.seen("mutated_parameters", f"{a['cls']}.{a['param']}")
    else:
        sc = CATALOGUE[name](seed, params)
    cap = max(INSTANT_CAP_MIN, INSTANT_CAP_PER_ARRIVAL * max(1, sc.workload))
    probe = C07Probe(log_deliveries=False, instant_cap=cap, total_cap=TOTAL_CAP)

    lib_exc = None
    with probe, _WallBudget(CASE_WALL_BUDGET_S) as wb:
        try:
            status = probe.run(sc.sim)
        except _WallBudgetExceeded:
            # CPU-bound work inside single deliveries (a 1 ns slide over a 0.3 s window ...): no verdict
            res.inconclusive = f"CPU budget {CASE_WALL_BUDGET_S}s exceeded in {name} (mutations: {applied})"[:300]
            res.count("wall_budget_exceeded")
            return res
        except Exception as exc:  # noqa: BLE001
            # An exception raised by library code on legitimate API use is a defect, but not C07's
            # subject (the statement is about timestamps and frozen clocks): it is recorded as an
            # observation, and what the probes saw up to that point is still judged.
            from hsverif.worker import _classify_exception

            origin, where = _classify_exception(exc)
            if origin != "library":
                if not applied:
                    raise
                res.inconclusive = f"harness code of {name} failed under constructor mutation: {type(exc).__name__}: {exc}"[:300]
                res.count("mutated_runs_harness_failed")
                return res
            status = "exception"
            lib_exc = f"{where}:{type(exc).__name__}"
    if lib_exc is not None:
        res.count("library_exceptions_seen")
        res.seen("library_exception", f"{name} -> {lib_exc}")
    res.count("scenarios_run")
    res.count("deliveries_monitored", probe.n_deliveries)
    res.count("pushes_monitored", probe.n_pushes)
    res.count("parks_seen", probe.parks)
    res.count("future_library_emissions", probe.future_lib_emissions)
    res.count("library_emissions_after_time_passed", probe.late_lib_emissions)
    res.count("library_generator_resumes_after_delay", probe.lib_resumes_after_delay)
    res.seen("scenario", name)

    # ---- past emissions (library-attributed)
    past = probe.attributed_past_emissions()
    res.count("past_emissions_all_emitters", len(probe.c07_past))
    explained_ids = {r["event_id"] for r in probe.c07_past if r.get("event_id") is not None}
    explained_types = {r["event_type"] for r in probe.c07_past if r.get("event_id") is None}
    by_key: dict[tuple, list] = {}
    for r in past:
        by_key.setdefault((r["component"], r["event_type"]), []).append(r)
    for (comp, et), recs in by_key.items():
        r0 = recs[0]
        res.add(
            "past-emission",
            comp,
            et,
            detail=(
                f"{len(recs)} event(s) '{et}' pushed {r0['behind_ns']} ns before the clock "
                f"(clock={r0['clock_ns']} ns, event.time={r0['event_time_ns']} ns) by {r0.get('creator') or comp} "
                f"[{r0['how']}] during a delivery to {r0['delivery_class']} in scenario {name}"
            ),
            witness={
                "scenario": name,
                "count": len(recs),
                "first": {k: v for k, v in r0.items() if k != "event_id"},
                "ctor_mutations": applied,
            },
        )
    # ---- discards the emission probe does not explain
    n_tt = len(probe.time_travel)
    res.count("time_travel_records", n_tt)
    unexplained = []
    for rec in probe.time_travel:
        msg = rec.get("msg", "")
        eid = msg.rsplit("event_id=", 1)[-1].strip() if "event_id=" in msg else None
        if eid in explained_ids:
            continue
        if eid in (None, "None") and norm_type(rec.get("event_type")) in explained_types:
            continue  # continuation without a context id: matched by type
        unexplained.append(rec)
    for rec in unexplained[:3]:
        last = rec.get("last_emitter") or ("?", "", None)
        if is_library_module(last[1] or ""):
            res.add(
                "time-travel-discard",
                last[0],
                norm_type(rec.get("event_type")),
                detail=f"engine discarded an event no recorded push explains: {rec.get('msg')}",
                witness={"scenario": name, "record": {k: str(v) for k, v in rec.items()}},
            )
    # every past push must later be discarded or still be pending when the run stops: cross-check
    if len(probe.c07_past) != len(probe.past_emissions):
        res.count("probe_disagreements")

    # ---- frozen clock
    if status == "spin":
        spin = probe.spin
        if sc.finite:
            tag = (sc.extras or {}).get("mechanism_tag")  # e.g. the policy class a limiter delegates its waits to
            for comp, shape, cycle in probe.spin_signatures():
                res.add(
                    "frozen-clock",
                    comp,
                    f"{shape}@{tag}" if tag else shape,
                    detail=(
                        f"{spin.count} deliveries at t={spin.time_ns} ns (cap {cap}, {sc.workload} arrivals scheduled) "
                        f"in scenario {name}; cycle={cycle[:6]}"
                    ),
                    witness={"scenario": name, "time_ns": spin.time_ns, "cap": cap, "cycle": cycle, "ctor_mutations": applied},
                )
        else:
            res.inconclusive = "spin under a non-finite workload"
    elif status == "budget":
        res.inconclusive = f"total delivery cap {TOTAL_CAP} reached while time was advancing ({name})"
        res.count("budget_exhausted")

    # ---- non-triviality, measured
    active = (
        probe.future_lib_emissions > 0
        or probe.lib_resumes_after_delay > 0
        or probe.parks > 0
        or probe.late_lib_emissions > 0
    )
    res.nontrivial = bool(active and probe.instants >= 2)
    res.count("instants_visited", probe.instants)
    if probe.n_deliveries == 0 and not res.violations:
        res.inconclusive = f"no delivery observed in {name}"

    # ---- coverage accounting
    if cov is not None:
        for fam, classes in driven_classes(cov.seen).items():
            for c in classes:
                res.seen(f"driven/{fam}", c)
    return res


# --------------------------------------------------------------------------
# layer 1 families: one per component family of the catalogue


def _gen_for(family: str):
    def gen(rng: random.Random, tier: str) -> dict:
        from hsverif.scenarios import names
        from hsverif.scenarios._kit import hostile_params

        pool = names(family)
        name = rng.choice(pool)
        case = {"scenario": name, "seed": rng.randrange(0, 10_000), "params": hostile_params(rng, tier)}
        if rng.random() < MUTATED_FRACTION:
            case["mutate"] = {"seed": rng.randrange(0, 1_000_000), "k": rng.choice([1, 1, 2])}
        return case

    return gen


def run_case(case: dict) -> Result:
    return run_scenario(case["scenario"], case["seed"], case["params"], mutate=case.get("mutate"))


_KNOWN_KEYS = None


def _known_keys() -> set:
    global _KNOWN_KEYS
    if _KNOWN_KEYS is None:
        try:
            from hsverif import findings as kf

            _KNOWN_KEYS = {kf.key_of(e) for e in kf.for_property(PID) if e.get("status") == "known"}
        except Exception:  # noqa: BLE001
            _KNOWN_KEYS = set()
    return _KNOWN_KEYS


def _freeze_plan(case: dict) -> dict:
    from hsverif.scenarios import CATALOGUE, _mutate

    m = case.get("mutate") or {}
    if "plan" in m:
        return case

    def build():
        return CATALOGUE[case["scenario"]](case["seed"], case["params"])

    plan = _mutate.plan_mutations(_mutate.record_sites(build), int(m.get("seed", 0)), int(m.get("k", 1)))
    out = json.loads(json.dumps(case))
    out["mutate"] = {"plan": plan}
    return out


def _shrink(case: dict, still_fails) -> dict:
    """Cheap shrinking (each probe re-runs the scenario): builder defaults first, then fewer arrivals.

    A violation whose mechanism key is already a recorded known finding is not shrunk at all:
    its pinned witness is the small case, and spin cases cost 20000 deliveries per re-run.
    """
    key = (getattr(still_fails, "__defaults__", None) or [None])[0]
    if key is not None and tuple(key) in _known_keys():
        return case
    base = {"scenario": case["scenario"], "seed": case["seed"], "params": {}}
    if still_fails(base):
        return base
    cur = json.loads(json.dumps(case))
    if cur.get("mutate"):
        # freeze the plan (so that shrinking the arrivals cannot move the sites), then try without it
        cur = _freeze_plan(cur)
        cand = {k: v for k, v in cur.items() if k != "mutate"}
        if still_fails(cand):
            cur = cand
    arr = cur["params"].get("arrivals_ns") or []
    for _ in range(3):
        if len(arr) <= 2:
            break
        cand = json.loads(json.dumps(cur))
        cand["params"]["arrivals_ns"] = arr[: max(2, len(arr) // 2)]
        if not still_fails(cand):
            break
        cur = cand
        arr = cur["params"]["arrivals_ns"]
    return cur


# --------------------------------------------------------------------------
# catalogue coverage: every builder once with its defaults, driven / undriven per family


def gen_coverage(rng: random.Random, tier: str) -> dict:
    return {"all_builders": True, "seed": 0}


def run_coverage(case: dict) -> Result:
    from hsverif.c07_probe import component_class_table, driven_classes
    from hsverif.scenarios import CATALOGUE, LOAD_ERRORS

    res = Result()
    seen_total: set = set()
    for name in sorted(CATALOGUE):
        run_scenario(name, case.get("seed", 0), {}, res=res, coverage=True)
        seen_total |= set(_COV.seen)
    res.inconclusive = None if res.obs.get("deliveries_monitored", 0) else "nothing ran"
    table = component_class_table()
    driven = driven_classes(seen_total)
    fams: dict[str, list[str]] = {}
    for cls, info in table.items():
        fams.setdefault(info["family"], []).append(cls)
    n_driven = n_all = 0
    for fam, classes in sorted(fams.items()):
        d = set(driven.get(fam, []))
        und = sorted(set(classes) - d)
        n_driven += len(d)
        n_all += len(classes)
        res.sets[f"coverage/{fam}/driven"] = [", ".join(sorted(d)) or "-"]
        res.sets[f"coverage/{fam}/undriven"] = [", ".join(und) or "-"]
    res.count("component_classes_total", n_all)
    res.count("component_classes_driven", n_driven)
    res.count("catalogue_builders", len(CATALOGUE))
    if LOAD_ERRORS:
        res.sets["scenario_modules_missing"] = sorted(LOAD_ERRORS)
    res.nontrivial = True
    return res


# --------------------------------------------------------------------------
# layer 2: the repository's own suite under the probes


def gen_suite(rng: random.Random, tier: str) -> dict:
    return {"select": ["tests"], "nshards": int(os.environ.get("C07_SUITE_SHARDS", "6"))}


def run_suite(case: dict) -> Result:
    import concurrent.futures as cf
    import glob

    res = Result()
    root = repo_root()
    files: list[str] = []
    for sel in case["select"]:
        pth = os.path.join(root, sel)
        if os.path.isdir(pth):
            files += sorted(glob.glob(os.path.join(pth, "**", "test_*.py"), recursive=True))
        elif os.path.exists(pth):
            files.append(pth)
    files = [os.path.relpath(f, root) for f in files if "/perf/" not in f]
    n = max(1, min(int(case.get("nshards", 6)), len(files) or 1))
    shards = [files[i::n] for i in range(n)]
    here = os.path.dirname(os.path.dirname(os.path.dirname(os.path.abspath(__file__))))
    tmpdir = tempfile.mkdtemp(prefix="c07-suite-", dir=os.path.join(here, ".work"))

    def one(i: int, paths=None, tag=None):
        out = os.path.join(tmpdir, f"s{tag or i}.json")
        env = dict(os.environ)
        env["PYTHONPATH"] = here + os.pathsep + root
        env["HS_REPO"] = root
        env["HSVERIF_C07_OUT"] = out
        env["PYTHONDONTWRITEBYTECODE"] = "1"
        env.setdefault("PYTHONHASHSEED", "0")
        cmd = [sys.executable, "-m", "pytest", "-p", "hsverif.pytest_plugin", "-q", "-p", "no:cacheprovider", "--no-header"]
        cmd += ["-o", "addopts="] + (paths if paths is not None else shards[i])
        p = subprocess.run(cmd, cwd=root, env=env, capture_output=True, text=True, timeout=1500, check=False)
        data = json.load(open(out)) if os.path.exists(out) else None
        return i, p.returncode, p.stdout[-600:], data

    with cf.ThreadPoolExecutor(max_workers=n) as ex:
        results = list(ex.map(one, range(n)))
    # A test that fails inside a shard may merely depend on the order of the files (the repository has
    # one such test): re-run the failed ids alone, still under the probes; only a failure that
    # persists in isolation counts as "failed under the probes".
    failed_ids = []
    for _i, _rc, _tail, data in results:
        if data:
            failed_ids += [f.rsplit("[", 1)[0] for f in data.get("failed_ids", [])]
    failed_ids = sorted(set(failed_ids))
    persistent = []
    if failed_ids:
        _i, rc2, _tail2, data2 = one(0, paths=failed_ids[:40], tag="retry")
        if data2 is not None:
            persistent = [f.rsplit("[", 1)[0] for f in data2.get("failed_ids", [])]
            results.append((-1, 0, "", {**data2, "tests": 0, "failed": 0}))
        else:
            persistent = failed_ids
    import shutil

    for i, rc, tail, data in results:
        if data is None:
            res.inconclusive = f"suite shard {i} wrote no report (rc={rc}): {tail[-300:]}"
            res.count("suite_shards_failed")
            continue
        res.count("suite_tests_run", data["tests"])
        res.count("deliveries_monitored", data["deliveries"])
        res.count("pushes_monitored", data["pushes"])
        res.count("suite_time_travel_records", data["time_travel"])
        res.count("suite_past_emissions_ignored_test_emitters", data["ignored_past"])
        res.obs["suite_max_deliveries_at_one_instant"] = max(
            res.obs.get("suite_max_deliveries_at_one_instant", 0), data["max_instant"]
        )
        for v in data["violations"]:
            res.add(v["oracle"], v["component"], v["shape"], detail=v["detail"], witness=v["witness"])
        for fam, classes in (data.get("driven") or {}).items():
            for c in classes:
                res.seen(f"suite_driven/{fam}", c)
    shutil.rmtree(tmpdir, ignore_errors=True)
    # de-duplicate violations by key (many tests hit the same defect)
    uniq = {}
    for v in res.violations:
        uniq.setdefault(v.key(), v)
    res.violations = list(uniq.values())
    res.nontrivial = res.obs.get("suite_tests_run", 0) > 0
    res.count("suite_tests_failed_in_shard_order_only", len(set(failed_ids) - set(persistent)))
    for f in sorted(set(failed_ids) - set(persistent)):
        res.seen("suite_order_dependent_tests", f)
    if persistent and not res.inconclusive:
        res.count("suite_tests_failed", len(persistent))
        res.inconclusive = f"{len(persistent)} suite test(s) fail under the probes even in isolation: {persistent[:5]}"
    return res


# --------------------------------------------------------------------------


def _families() -> dict[str, Family]:
    from hsverif.scenarios import families

    fams: dict[str, Family] = {}
    for f in families():
        fams[f] = Family(f, _gen_for(f), run_case, shrink=_shrink, case_timeout=60.0)
    fams["zz_catalogue_coverage"] = Family("zz_catalogue_coverage", gen_coverage, run_coverage, case_timeout=300.0)
    fams["repo_suite"] = Family("repo_suite", gen_suite, run_suite, case_timeout=1700.0)
    return fams


FAMILIES = _families()

_L1 = [f for f in FAMILIES if f not in ("zz_catalogue_coverage", "repo_suite")]


def _budget(per_builder: int, floor: int) -> dict[str, int]:
    from hsverif.scenarios import names

    # the coverage case runs every builder once (about 15 s on one core): first in the dict = submitted first
    b = {"zz_catalogue_coverage": 1}
    b.update({f: max(floor, per_builder * len(names(f))) for f in _L1})
    return b


BUDGET = {"quick": _budget(2, 4), "thorough": {**_budget(30, 30), "repo_suite": 1}}

"""C15  Durably acknowledged writes survive a crash at any point.

Crash-point enumeration.  A generated put/delete workload (concurrent
writers, LSMTree + WriteAheadLog, tiny memtables) is run once to count its E
delivered events; then, for every chosen k in 0..E, the same workload is
rebuilt, stepped exactly k events (`sim.control.pause(); sim.run();
sim.control.step(k)`), `crash()` and `recover_from_crash()` are called and
every key is read back with `get_sync`.

A case is (workload, crash points): case["ks"] is "all", {"sample": n,
"seed": s} or an explicit list, so a replay re-executes exactly the same
crash points.
"""

from __future__ import annotations

import random

from hsverif.c14_harness import build_sim, gen_burst_clients, gen_client_ops, gen_keys, gen_lsm_cfg, gen_think
from hsverif.c14_oracle import before
from hsverif.c15_epochs import gen_epochs, run_epochs, shrink_epochs
from hsverif.core import Family, Result, ddmin
from hsverif.probe import EngineProbe

PID = "C15"
LEVEL = "fault_enumeration"
EXHAUSTIVE = False
RULE = (
    "Generated workloads: 1-4 concurrent writer processes, 6-40 put/delete operations (plus a few gets) over 2-6 "
    "keys with unique values, LSMTree with memtable 1-4 entries, 2-4 levels, size-tiered / leveled / FIFO thresholds "
    "1-3, WriteAheadLog with sync policy every-write / batch(2-4) / periodic, think times 0..4x the flush latency; "
    "half of the workloads add 1-3 bursts of 2-5 one-shot clients (put / delete / get) starting within 0-12 us of one "
    "instant, often the same nanosecond, so that writes of different clients overlap inside the 10 us memtable latency. "
    "Each workload is run to the end to count E delivered events; thorough tier crashes at every k in 0..E, quick "
    "tier at <=40 sampled k (always including 0 and E). The runner's 'evaluations' counts workloads; the (workload, k) "
    "pairs are in observed.crash_points_checked. Non-trivial crash point: a write operation was still open at the "
    "crash for longer than the log + memtable path takes (so it was inside its flush or compaction), or the log "
    "held entries beyond synced_up_to; a workload is non-trivial if it has such a crash point "
    "(observed.nontrivial_crash_points counts the pairs). Distinct by hash of (workload, crash points). "
    "Family epochs: 2-4 epochs over the SAME tree and log, each epoch = optional put_sync/get_sync preamble with no "
    "simulation running + a fresh Simulation (time continues) with 1-4 concurrent clients (put/delete/get, in a third "
    "of the cases also put_sync/get_sync), bursts, and a client retrying the tail of a previous-epoch program; the "
    "epoch is cut after k events (or at quiescence), crash(), recover_from_crash(), get_sync sweep, second recover; "
    "10 (quick) / 40 (thorough) crash schedules per workload; non-trivial = schedule with >= 2 crashes. A third of the "
    "epochs workloads are in pile-up mode (memtable 1-2, batch / periodic sync, put_sync from inside the simulation, "
    "bursts in every epoch, 60 % of the crashes at quiescence) so that several memtables are in flight and one flush "
    "call installs more than one SSTable (observed.flush_calls_installing_two_or_more_sstables, from the public "
    "flush counter: >= 2 installs in one delivery that are not put_sync flushes of that delivery)."
)
ASSUMPTIONS = [
    "an operation is durable iff its WAL sequence number (position of its append, taken from the public "
    "wal.stats.writes at invocation) is <= the highest wal.synced_up_to ever OBSERVED up to the crash (sampled after "
    "every delivery; a completed sync stays completed, so the value read at crash time is deliberately not used), or "
    "its put()/delete() generator returned under SyncEveryWrite (put_sync never syncs and does not count)",
    "invariant at a hook: wal.synced_up_to never decreases between two observations (after every delivery, at the "
    "crash, after crash+recovery); own oracle durable-watermark-decreased on component WriteAheadLog",
    "order between operations on one key is real time at the client boundary (completed before began); operations "
    "that overlap in simulated time may be applied in either order, so neither can 'overwrite' the other for the "
    "oracle; an operation not yet returned at the crash has not completed",
    "crash() then recover_from_crash() are called from outside the event loop at an event boundary; suspended "
    "flush / compaction generators are simply never resumed",
    "epochs family: a write is certain for a read if it completed in the read's own epoch (acknowledged after the last "
    "recovery) or was durable (seq <= synced_up_to) at the crash that ended its epoch; a read (ordinary or recovery "
    "sweep) may return any write not superseded by a certain write that began after it completed and completed "
    "before the read began; writes of earlier epochs that were not durable may or may not have survived; a power "
    "failure kills the operations in progress (the interrupted Simulation is abandoned and garbage-collected)",
    "nothing-volatile clause: when crash() itself reports 0 memtable and 0 immutable-memtable entries lost (its public "
    "return value) and no put/delete was in flight, everything visible before the crash was in installed SSTables, so "
    "crash()+recover_from_crash() must leave get_sync of every key unchanged (this is how a resurrection of a value "
    "overwritten by a flushed-but-never-synced operation is decided without looking into the tree)",
    "FIFO compaction may drop data by design: under FIFO a lost durable write is tolerated once a compaction has "
    "completed, resurrection and never-written values are not",
]
MUST_OBSERVE = [
    "crash_points_checked",
    "keys_checked",
    "durable_ops_at_crash",
    "flush_calls_installing_two_or_more_sstables",
    "keys_checked_at_crashes_with_nothing_volatile",
]

MIX = {"put": 0.62, "delete": 0.28, "get": 0.10}


def gen_workload(policy: str):
    def gen(rng: random.Random, tier: str) -> dict:
        kind = rng.choice(["size_tiered", "leveled", "size_tiered", "leveled", "fifo"])
        cfg = gen_lsm_cfg(rng, kind, wal=True, wal_policy=policy)
        if rng.random() < 0.15:
            # round 8: one level only, so every compaction rewrites L0 in place while flushes keep installing newer
            # tables into the same level (C15-r8-2: merged table appended behind them, stale value durable after a crash)
            cfg["max_levels"] = 1
        keys = gen_keys(rng, 2, 6)
        scale = cfg["sstable_write_latency"]
        n_clients = rng.randint(1, 4)
        total = rng.choice([6, 12, 24, 40])
        clients = []
        for _ in range(n_clients):
            n = max(1, total // n_clients)
            clients.append({"start": gen_think(rng, 2 * scale), "ops": gen_client_ops(rng, keys, n, scale, MIX, scans=False)})
        if rng.random() < 0.5:
            clients += gen_burst_clients(rng, keys, scale, MIX, scans=False)
        ks = "all" if tier == "thorough" else {"sample": 40, "seed": rng.randrange(1 << 30)}
        return {"store": cfg, "keys": keys, "clients": clients, "ks": ks}

    return gen


def _ledger_factory(wal):
    def ledger(rec):
        rec["seq"] = wal.stats.writes + 1

    return ledger


def _count_events(case: dict) -> tuple[int | None, str]:
    sim, store, wal, hist, sampler, _ = build_sim(case, _ledger_factory)
    with EngineProbe(instant_cap=20000, total_cap=50_000, record_emissions=False) as p:
        status = p.run(sim)
    return (sampler.events if status == "completed" else None), status


def _choose_ks(spec, E: int) -> list[int]:
    if spec == "all":
        return list(range(E + 1))
    if isinstance(spec, dict):
        n = spec["sample"]
        if E + 1 <= n:
            return list(range(E + 1))
        r = random.Random(spec["seed"])
        return sorted(set([0, E] + r.sample(range(1, E), n - 2)))
    return [k for k in spec if 0 <= k <= E]


def _crash_at(case: dict, k: int, res: Result) -> None:
    cfg = case["store"]
    sim, store, wal, hist, sampler, _ = build_sim(case, _ledger_factory)
    with EngineProbe(instant_cap=20000, total_cap=50_000, record_emissions=False) as p:

        def drive():
            sim.control.pause()
            sim.run()
            if k > 0:
                sim.control.step(k)

        status = p.run(sim, drive)
    if status != "completed" or sampler.events != k:
        res.count("crash_points_skipped")
        return
    crash_ns = sampler.now_ns
    # durability fact = the highest watermark ever OBSERVED (after every delivery), not the value at crash time
    sampler.observe_wal(crash_ns, "at-crash")
    synced = sampler.max_synced
    appended = wal.stats.writes
    recs = [dict(r) for r in hist.recs]
    flushes, compactions = list(sampler.flushes), list(sampler.compactions)

    # what the store answers just before the crash (read-only; used for the mechanism shape, not for the verdict)
    state0 = {key: store.get_sync(key) for key in case["keys"]}
    lost = store.crash()
    store.recover_from_crash()
    state1 = {key: store.get_sync(key) for key in case["keys"]}
    store.recover_from_crash()
    state2 = {key: store.get_sync(key) for key in case["keys"]}
    store.crash()
    store.recover_from_crash()
    state3 = {key: store.get_sync(key) for key in case["keys"]}

    res.count("crash_points_checked")
    res.count("events_monitored", k)
    res.count("flush_calls_installing_two_or_more_sstables", sampler.multi_install_events)
    sampler.observe_wal(crash_ns, "across-crash-and-recovery")
    res.count("watermark_observations", sampler.events + 2)
    _report_watermark(res, sampler, flushes, f"crash after event {k}")
    # a crash that found nothing volatile (public return value of crash()) and no write in flight must not change
    # what any key reads: everything visible was in installed SSTables, the log may only replay what they contain
    if (
        lost["memtable_entries_lost"] == 0
        and lost["immutable_memtable_entries_lost"] == 0
        and not any(r["op"] in ("put", "delete") and r["t1"] is None for r in recs)
    ):
        for key in case["keys"]:
            res.count("keys_checked_at_crashes_with_nothing_volatile")
            if state1[key] != state0[key]:
                res.add(
                    "crash-with-nothing-volatile-changes-state",
                    "LSMTree",
                    f"no-write-in-flight-memtables-empty-policy-{cfg['wal']['policy']['kind']}",
                    f"crash after event {k}: nothing volatile was lost, get_sync({key!r}) was {state0[key]!r} before and is {state1[key]!r} after crash+recovery",
                    {"k": k, "key": key, "crash_report": lost},
                )
    width = int(round(cfg["sstable_write_latency"] * 1e9))
    fifo = cfg["strategy"]["kind"] == "fifo"
    policy = cfg["wal"]["policy"]["kind"]

    # in-flight flush / compaction: a write operation that is still open and has been open for longer than the
    # log + memtable path can take is inside its flush / compaction
    in_structure_change = False
    base = int(round((cfg["wal"]["write_latency"] + cfg["wal"]["sync_latency"] + 1e-5) * 1e9))
    for r in recs:
        if r["op"] in ("put", "delete") and r["t1"] is None and crash_ns - r["t0"] > base:
            in_structure_change = True
    unsynced = appended > synced
    if in_structure_change:
        res.count("crashes_inside_flush_or_compaction")
    if unsynced:
        res.count("crashes_with_unsynced_entries")
    if in_structure_change or unsynced:
        res.nontrivial = True
        res.count("nontrivial_crash_points")

    writes: dict[str, list[dict]] = {}
    for r in recs:
        if r["op"] in ("put", "delete"):
            # ... or, under SyncEveryWrite, the operation returned to its client (its own sync had completed)
            r["durable"] = r["seq"] <= synced or (policy == "every" and r["t1"] is not None and not r.get("sync"))
            writes.setdefault(r["key"], []).append(r)
            if r["durable"]:
                res.count("durable_ops_at_crash")

    wal_path = int(round((cfg["wal"]["write_latency"] + cfg["wal"]["sync_latency"]) * 1e9))
    fw = [(tf - width, tf) for tf in flushes]

    def flush_shape(d: dict) -> str | None:
        """Structural precondition of a loss through log truncation: some flush completed at or after the
        operation's log append although the operation can have reached the memtable only after that flush had
        begun (so its SSTable does not contain it), and no flush that began after the operation was in the
        memtable has completed before the crash (so no SSTable contains it)."""
        ins_max = d["t0"] + wal_path
        if any(a >= ins_max for a, _ in fw):
            return None
        if any(d["t0"] <= b and ins_max > a for a, b in fw):
            return "log-truncated-by-flush-that-does-not-contain-the-durable-write"
        return None

    cw = sorted((tc - width, tc) for tc in compactions)
    overlapping_compactions = any(cw[i + 1][0] < cw[i][1] for i in range(len(cw) - 1))

    for key in case["keys"]:
        res.count("keys_checked")
        ws = writes.get(key, [])
        durable = [w for w in ws if w["durable"]]
        got = state1[key]

        def superseding(w):
            """durable operations that began after w completed (w None = initial absence)"""
            if w is None:
                return durable
            return [d for d in durable if before(w, d)]

        clause = None
        sup: list[dict] = []
        if got is None:
            cands = [None] + [w for w in ws if w["op"] == "delete"]
            if not any(not superseding(w) for w in cands):
                clause = "durable-write-lost"
                sup = durable
        else:
            src = [w for w in ws if w["op"] == "put" and w["val"] == got]
            if not src:
                clause = "never-written-value"
            else:
                sup = superseding(src[0])
                if sup:
                    clause = "deleted-value-resurrected" if sup[-1]["op"] == "delete" else "overwritten-value-resurrected"
        if clause == "durable-write-lost" and fifo and compactions:
            res.count("fifo_loss_tolerated")
            clause = None
        if clause:
            d = max(sup, key=lambda w: w["seq"]) if sup else None
            if d is None:
                shape = "no-durable-operation-involved"
            elif flush_shape(d):
                shape = flush_shape(d)
            elif overlapping_compactions:
                # C14's subject: two compactions that overlapped in time leave stale SSTable contents behind
                shape = "overlapping-compactions-completed-before-the-crash"
            elif state0[key] == got:
                # the store already answered this before the crash: the SSTables themselves are wrong (C14's subject)
                shape = "same-answer-already-given-before-the-crash"
            else:
                shape = "no-flush-explains-the-loss"
            res.add(
                "never-written-value" if clause == "never-written-value" else "durable-op-not-reflected-after-recovery",
                "LSMTree",
                shape,
                f"{clause}: crash after event {k} (t={crash_ns}ns, policy {policy}, synced_up_to={synced}, appended={appended}): "
                f"get_sync({key!r}) after recovery = {got!r}; durable ops on key: "
                f"{[(w['seq'], w['op'], w['val']) for w in durable]}",
                {"k": k, "key": key, "clause": clause, "recovered": got, "ops_on_key": ws, "flush_completions": flushes, "synced_up_to": synced},
            )
        if state2[key] != got:
            res.add(
                "second-recovery-changes-state",
                "LSMTree",
                "recover-called-twice",
                f"crash after event {k}: {key!r} = {got!r} after one recover_from_crash(), {state2[key]!r} after a second",
                {"k": k, "key": key},
            )
        elif state3[key] != got:
            res.add(
                "second-recovery-changes-state",
                "LSMTree",
                "crash-and-recover-again",
                f"crash after event {k}: {key!r} = {got!r} after recovery, {state3[key]!r} after another crash()+recover_from_crash()",
                {"k": k, "key": key},
            )


def _report_watermark(res: Result, sampler, flushes: list[int], ctx: str) -> None:
    """Invariant at a hook: wal.synced_up_to never decreases between two observations."""
    for d in sampler.synced_decreases[:1]:
        where = d["where"]
        if where == "after-delivery":
            where = "in-a-delivery-that-installed-a-flush" if d["t"] in flushes else "in-a-delivery-without-flush-install"
        res.add(
            "durable-watermark-decreased",
            "WriteAheadLog",
            where,
            f"{ctx}: wal.synced_up_to went from {d['from']} to {d['to']} at t={d['t']}ns ({d['where']}); "
            f"{len(sampler.synced_decreases)} decrease(s) in this run",
            {"decreases": sampler.synced_decreases[:5]},
        )


def run_workload(case: dict) -> Result:
    res = Result()
    E, status = _count_events(case)
    if E is None:
        res.inconclusive = f"reference run status {status}"
        return res
    ks = _choose_ks(case["ks"], E)
    res.count("workloads_run")
    res.count("reference_events", E)
    if case["ks"] == "all":
        res.count("workloads_enumerated_exhaustively")
    for k in ks:
        _crash_at(case, k, res)
    res.seen("crash_points_per_workload", len(ks))
    if not res.obs.get("crash_points_checked"):
        res.inconclusive = "no crash point could be executed"
    return res


_SHRUNK: dict[tuple, int] = {}


def shrink(case: dict, still_fails) -> dict:
    """First reduce to one crash point, then ddmin the operations (keeping think times), re-searching k."""

    def with_ks(c, ks):
        c2 = dict(c)
        c2["ks"] = ks
        return c2

    keys = {v.key() for v in run_workload(case).violations}
    if keys and all(_SHRUNK.get(k, 0) >= 1 for k in keys):
        return case  # one shrunken witness per mechanism key and worker is enough
    for k in keys:
        _SHRUNK[k] = _SHRUNK.get(k, 0) + 1

    E, _ = _count_events(case)
    ks = _choose_ks(case["ks"], E or 0)
    one = None
    for k in ks:
        if still_fails(with_ks(case, [k])):
            one = k
            break
    if one is None:
        return case
    best = with_ks(case, [one])
    flat = [(ci, oi) for ci, cl in enumerate(case["clients"]) for oi in range(len(cl["ops"]))]

    def build(keep):
        keep = set(keep)
        c2 = dict(case)
        c2["clients"] = []
        for ci, cl in enumerate(case["clients"]):
            ops, carry = [], 0.0
            for oi, op in enumerate(cl["ops"]):
                if (ci, oi) in keep:
                    ops.append([round(op[0] + carry, 9), *op[1:]])
                    carry = 0.0
                else:
                    carry += op[0]
            c2["clients"].append({"start": cl["start"], "ops": ops})
        c2["ks"] = "all"
        return c2

    kept = ddmin(flat, lambda kp: still_fails(build(kp)), max_tests=16)
    small = build(kept)
    E2, _ = _count_events(small)
    for k in range((E2 or 0) + 1):
        if still_fails(with_ks(small, [k])):
            return with_ks(small, [k])
    return best


def _fam(policy):
    f = Family(f"crash_{policy}", gen_workload(policy), run_workload, shrink=shrink, case_timeout=120.0)
    f.shard_size = 5  # a fresh worker pays ~3 s to import the library; a workload costs 0.05-0.5 s
    return f


FAMILIES = {f"crash_{p}": _fam(p) for p in ("every", "batch", "periodic")}
FAMILIES["epochs"] = Family("epochs", gen_epochs, run_epochs, shrink=shrink_epochs, case_timeout=120.0)
FAMILIES["epochs"].shard_size = 8

BUDGET = {
    "quick": {"crash_every": 24, "crash_batch": 20, "crash_periodic": 16, "epochs": 80},
    "thorough": {"crash_every": 600, "crash_batch": 500, "crash_periodic": 400, "epochs": 2500},
}

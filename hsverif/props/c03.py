"""C03  The same model and seeds give the same run, every time and in every process.

Monitor shape: differential digests.  A batch of catalogue scenarios (same
seeds) is executed in four fresh interpreters that differ in PYTHONHASHSEED,
in the order / repetition of the scenarios (so each scenario runs after
different preceding activity, and twice in a row), and in wall-clock
behaviour (time.time / monotonic / perf_counter replaced by offset, jumping
clocks).  Every execution of one (scenario, seed) must give the same canonical
digest (delivery log + public stats, wall-clock fields removed).
"""

from __future__ import annotations

import json
import os
import random
import subprocess
import sys

from hsverif.core import Family, Result, repo_root

PID = "C03"
LEVEL = "exploration"
RULE = (
    "A case is a batch of 12 scenarios taken in turn from a seed-shuffled permutation of the shared catalogue of library-component scenarios, so the quick tier (ceil(N/12) batches) executes every one of the N ~ 300 scenarios (catalogue + determinism-specific ones: string-fed sketches, every cache eviction policy under string keys, default-clock TTL cache, a ParallelSimulation fan-in whose worker threads are slowed in real time, load-balancer strategies fed with key-less requests, CRDT stores with a late joiner) (all families: "
    "sources, queues, servers, networks, consensus, storage, caches, sketches fed with str/bytes/tuple items, messaging, "
    "...; default or hostile parameters) with one seed each (seed 0, a legal and falsy seed, 12 % of the time), executed in 4 fresh interpreters: PYTHONHASHSEED=0 in "
    "catalogue order; =1 in reverse order, each model preceded by a run of the same model with another seed and by the construction (never run) of an unrelated Simulation between building it and running it; =12345 shuffled, every scenario run twice in a row; =random with "
    "time.time/monotonic/perf_counter replaced by offset+jumping clocks (the wall clock also stepping backwards). All executions of one (scenario, seed) must "
    "have equal digests = sha256(delivery log (time ns, event type, target) from the engine probe + public stats "
    "snapshot of every component, wall-clock fields removed). A mismatch is diagnosed by re-running that scenario alone "
    "under controlled variations to name the factor (hash seed / preceding activity / wall clock / unstable). "
    "Non-trivial: the scenario's run drew from a global RNG or delivered >= 50 events; distinct by (scenario, params, seed)."
)
ASSUMPTIONS = [
    "scenario builders seed random / numpy / seed= arguments from the case seed the way a user would",
    "ids that never influence order or statistics (uuid4 message ids, hook ids) are not part of the digest unless a component exposes them in public state",
]
MUST_OBSERVE = ["executions_compared"]

HERE = os.path.dirname(os.path.dirname(os.path.dirname(os.path.abspath(__file__))))


def _names():
    import hsverif.c03_extra  # noqa: F401
    from hsverif.scenarios import CATALOGUE

    return sorted(CATALOGUE)


def gen(rng: random.Random, tier: str) -> dict:
    from hsverif.scenarios._kit import hostile_params

    names = _names()
    # systematic coverage: batch i takes the next 6 names of a seed-shuffled permutation of the whole
    # catalogue, so ceil(len/6) batches (= the quick tier) execute every scenario at least once
    perm = list(names)
    random.Random(f"{getattr(rng, 'verif_seed', 0)}/c03-perm").shuffle(perm)
    idx = getattr(rng, "case_index", rng.randrange(10**6))
    items = []
    for j in range(BATCH):
        n = perm[(idx * BATCH + j) % len(perm)]
        params = hostile_params(rng, tier) if rng.random() < 0.4 else {}
        # 0 is a legal seed (and a falsy one)
        items.append({"name": n, "seed": 0 if rng.random() < 0.12 else rng.randrange(1 << 20), "params": params})
    shuffled = list(range(len(items)))
    rng.shuffle(shuffled)
    return {
        "items": items,
        "shuffle": shuffled,
        "time": {"offset": rng.choice([0.0, 3600.0, -1e6, 1e9]), "jump": rng.choice([0.0, 0.01, 5.0]), "back": rng.choice([0.0, 1.0, 100.0]), "seed": rng.randrange(1000)},
    }


def _child(job: dict, hashseed: str, timeout: float = 240.0):
    env = dict(os.environ)
    env["PYTHONHASHSEED"] = hashseed
    env["PYTHONPATH"] = HERE + (":" + env["PYTHONPATH"] if env.get("PYTHONPATH") else "")
    env["HS_REPO"] = repo_root()
    p = subprocess.run(
        [sys.executable, "-m", "hsverif.c03_child"], input=json.dumps(job), text=True, capture_output=True, env=env, timeout=timeout, cwd=HERE, check=False
    )
    if p.returncode != 0:
        raise RuntimeError(f"child failed (hashseed {hashseed}): {p.stderr[-600:]}")
    return json.loads(p.stdout)


def run(case: dict) -> Result:
    res = Result()
    items = case["items"]
    n = len(items)
    # "slow": which partition of a parallel scenario is slowed down in real time (thread timing is wall-clock too)
    # the reverse-order interpreter also constructs an unrelated Simulation between building each model and running it
    plans = [
        ("0", list(range(n)), None, "A"),
        ("1", list(reversed(range(n))), None, "B+bystander"),
        # shuffled order, every scenario twice in a row (state a component family leaves behind in the process -
        # module-level buffers, caches, counters - meets the next model of the same family)
        ("12345", [i for i in case["shuffle"] for _ in (0, 1)], None, None),
        ("random", list(range(n)), case["time"], "A"),
    ]
    runs = []
    for hs, order, perturb, slow in plans:
        out = _child({"items": items, "order": order, "perturb_time": perturb, "slow": (slow or "")[:1] or None, "interleave_construct": bool(slow and "bystander" in slow), "precede_other_seed": bool(slow and "bystander" in slow)}, hs)
        runs.append((hs, order, perturb, out["results"]))
    per_item: dict[int, list] = {i: [] for i in range(n)}
    for hs, order, perturb, results in runs:
        for r in results:
            per_item[r["i"]].append((hs, r["pos"], bool(perturb), r))
    nontrivial_any = False
    for i, execs in per_item.items():
        res.count("executions_compared", len(execs))
        digests = {e[3]["digest"] for e in execs}
        first = execs[0][3]
        if first.get("status") == "exception":
            # a scenario that cannot be built/run is a harness problem of the catalogue, not a verdict
            res.count("scenario_exceptions")
            res.seen("scenario_exceptions", f"{items[i]['name']}: {first.get('error', '')[-160:]}")
            continue
        res.count("events_monitored", sum(e[3].get("n", 0) for e in execs))
        if first.get("rng_used") or first.get("n", 0) >= 50:
            nontrivial_any = True
            res.count("nontrivial_scenarios")
        res.seen("scenarios", items[i]["name"])
        if len(digests) > 1:
            factor, detail = _diagnose(items[i], case)
            comps = sorted({k for e in execs for k, v in (e[3].get("per_comp") or {}).items() if v != (first.get("per_comp") or {}).get(k)})
            deliv_differs = len({e[3].get("deliv_digest") for e in execs}) > 1
            comp_cls = items[i]["name"]
            res.add(
                "digest-differs",
                comp_cls,
                factor + ("-deliveries" if deliv_differs else "-stats-only"),
                detail=f"{items[i]}: digests by (hashseed, position, perturbed clock): "
                + str([(e[0], e[1], e[2], e[3]['digest'][:10]) for e in execs])
                + f"; differing components {comps}; {detail}",
            )
    res.nontrivial = nontrivial_any
    res.fingerprint = json.dumps([(it["name"], it["seed"], it["params"]) for it in items], sort_keys=True)
    return res


def _diagnose(item, case) -> tuple[str, str]:
    """Name the factor that changes the digest of one scenario, by controlled re-runs."""
    alone = {"items": [item], "order": [0], "perturb_time": None, "detail": True}
    a0 = _child(alone, "0")["results"][0]
    a0b = _child(alone, "0")["results"][0]
    if a0["digest"] != a0b["digest"]:
        return "unstable-same-conditions", _first_diff(a0, a0b)
    a1 = _child(alone, "1")["results"][0]
    a2 = _child(alone, "987654")["results"][0]
    if a0["digest"] != a1["digest"] or a0["digest"] != a2["digest"]:
        return "hash-seed", _first_diff(a0, a1 if a0["digest"] != a1["digest"] else a2)
    for hs in ("2", "3", "31337", "4242"):  # a coarse statistic may coincide for a few hash seeds
        ax = _child(alone, hs)["results"][0]
        if ax["digest"] != a0["digest"]:
            return "hash-seed", _first_diff(a0, ax)
    t = _child({**alone, "perturb_time": case["time"]}, "0")["results"][0]
    t2 = _child({**alone, "perturb_time": {"offset": 1e7, "jump": 0.02, "back": 2.0, "seed": 1}}, "0")["results"][0]
    if a0["digest"] != t["digest"] or a0["digest"] != t2["digest"]:
        return "wall-clock", _first_diff(a0, t if a0["digest"] != t["digest"] else t2)
    sa = _child({**alone, "slow": "A"}, "0")["results"][0]
    sb = _child({**alone, "slow": "B"}, "0")["results"][0]
    if sa["digest"] != sb["digest"]:
        return "thread-timing", _first_diff(sa, sb)
    os_ = _child({**alone, "precede_other_seed": True}, "0")["results"][0]
    if os_["digest"] != a0["digest"]:
        return "same-model-run-with-another-seed-before", _first_diff(a0, os_)
    by = _child({**alone, "interleave_construct": True}, "0")["results"][0]
    if by["digest"] != a0["digest"]:
        return "other-simulation-constructed-before-run", _first_diff(a0, by)
    twice = _child({"items": [item], "order": [0, 0], "perturb_time": None, "detail": True}, "0")["results"]
    if twice[0]["digest"] != twice[1]["digest"]:
        return "preceding-activity-same-scenario", _first_diff(twice[0], twice[1])
    others = {"items": case["items"] + [item], "order": list(range(len(case["items"]))) + [len(case["items"])], "perturb_time": None, "detail": True}
    o = _child(others, "0")["results"][-1]
    if o["digest"] != a0["digest"]:
        return "preceding-activity-other-scenarios", _first_diff(a0, o)
    return "unexplained", ""


def _first_diff(a, b) -> str:
    da, db = a.get("deliveries") or [], b.get("deliveries") or []
    for i, (x, y) in enumerate(zip(da, db)):
        if x != y:
            return f"first differing delivery #{i}: {x} vs {y}"
    if len(da) != len(db):
        return f"delivery counts {len(da)} vs {len(db)}"
    sa, sb = a.get("snapshot") or {}, b.get("snapshot") or {}
    for k in sorted(set(sa) | set(sb)):
        if sa.get(k) != sb.get(k):
            va, vb = sa.get(k), sb.get(k)
            if isinstance(va, dict) and isinstance(vb, dict):
                for kk in sorted(set(va) | set(vb)):
                    if va.get(kk) != vb.get(kk):
                        return f"stats differ at {k}.{kk}: {str(va.get(kk))[:120]} vs {str(vb.get(kk))[:120]}"
            return f"stats differ at {k}"
    return "no visible difference in detail view"


# --------------------------------------------------------------------------
# second layer (thorough tier): the repository's own seeded tests as scenarios


def gen_suite(rng: random.Random, tier: str) -> dict:
    return {"hashseeds": ["0", "0", "1", "12345"], "select": ["tests/integration", "tests/unit"]}


def run_suite(case: dict) -> Result:
    import tempfile
    from concurrent.futures import ThreadPoolExecutor

    res = Result()
    root = repo_root()
    tmp = tempfile.mkdtemp(prefix="c03suite-", dir=os.path.join(HERE, ".work"))

    def one(idx_hs):
        idx, hs = idx_hs
        out = os.path.join(tmp, f"run{idx}.json")
        env = dict(os.environ)
        env["PYTHONHASHSEED"] = hs
        env["PYTHONPATH"] = HERE + ":" + root
        env["HSVERIF_C03_OUT"] = out
        env["HS_REPO"] = root
        subprocess.run(
            [sys.executable, "-m", "pytest", "-q", "-p", "no:cacheprovider", "-p", "hsverif.c03_pytest_plugin", "--timeout=900", *case["select"]],
            cwd=root, env=env, capture_output=True, text=True, timeout=3000, check=False,
        )
        return json.load(open(out)) if os.path.exists(out) else {}

    try:
        with ThreadPoolExecutor(max_workers=4) as ex:
            runs = list(ex.map(one, enumerate(case["hashseeds"])))
    finally:
        import shutil

        shutil.rmtree(tmp, ignore_errors=True)
    a, b = runs[0], runs[1]
    if not a or not b:
        res.inconclusive = "suite run produced no digests"
        return res
    eligible = [t for t in a if t in b and a[t] == b[t] and a[t][0] > 0]
    res.count("executions_compared", len(eligible) * len(runs))
    res.count("suite_tests_with_deliveries", sum(1 for t in a if a[t][0] > 0))
    res.count("suite_tests_eligible", len(eligible))
    res.count("events_monitored", sum(a[t][0] for t in eligible))
    for t in eligible:
        for hs, r in zip(case["hashseeds"][2:], runs[2:]):
            if t in r and r[t] != a[t]:
                res.add("suite-test-digest-differs", t.split("::")[0], "hash-seed-deliveries", f"{t}: hashseed 0 -> {a[t]}, hashseed {hs} -> {r[t]}")
    res.nontrivial = len(eligible) > 50
    res.fingerprint = "suite-layer"
    return res


FAMILIES = {
    "batches": Family("batches", gen, run, case_timeout=1200.0),
    "suite": Family("suite", gen_suite, run_suite, case_timeout=3400.0),
}
BATCH = 12


def _quick_batches() -> int:
    try:
        return -(-len(_names()) // BATCH)  # one pass over the whole catalogue
    except Exception:  # noqa: BLE001  (catalogue not importable at manifest-generation time)
        return 52


BUDGET = {"quick": {"batches": _quick_batches()}, "thorough": {"batches": 1500, "suite": 1}}

"""C14  Storage engines behave like a map under any flushes, compactions and overlap.

Monitor shape: client-boundary history + interval (regular register) oracle.
Client processes inside a real Simulation issue put / get / delete / scan with
unique values against the real LSMTree (size-tiered / leveled / FIFO), BTree
and KVStore; transactions go through the real TransactionManager.  Verdicts
come only from what the clients were told.
"""

from __future__ import annotations

import random

from hsverif.c14_harness import (
    component_name,
    gen_btree_cfg,
    gen_burst_clients,
    gen_client_ops,
    gen_keys,
    gen_kv_cfg,
    gen_lsm_cfg,
    gen_think,
    run_history,
)
from hsverif.c14_oracle import (
    ABSENT,
    admissible,
    check_scan,
    classify_read,
    writes_by_key,
)
from hsverif.c14_txn import gen_txn, gen_txn_long, run_txn
from hsverif.core import Family, Result, ddmin

PID = "C14"
LEVEL = "exploration"
RULE = (
    "Generated client programs (2-6 concurrent clients, <=120 ops, 3-8 keys, unique values, think times of 0..4x the "
    "engine's latencies in whole microseconds so that operations start inside flush / compaction / split latencies; "
    "40 % of histories add 1-3 bursts of 2-5 one-shot clients starting within 0-12 us of one instant, often the same "
    "nanosecond; family lsm_big: memtables of 15-47 entries over 40-64 keys with 3-8 back-to-back writers, so that "
    "SSTable sizes and flush durations differ; 10-15 % of puts write a falsy value 0 / 0.0 / '' / False / [] / {}; a "
    "quarter of the concurrent LSM histories mix put_sync / get_sync into the clients; 8 % use max_levels=1; family "
    "lsm_bulk: 1500-3200 keys in sorted batches, point read of every key) "
    "run inside a real Simulation against LSMTree (memtable 1-4 entries, 2-4 levels, size-tiered / leveled / FIFO "
    "thresholds 1-3, WAL on or off), BTree (order 3-5) and KVStore (no capacity); one-client programs mixing the "
    "generator API with put_sync/get_sync/delete_sync are compared with a dict exactly; transaction programs (2-5 "
    "clients x 1-3 transactions of 1-4 reads/writes over 2-4 keys, all three isolation levels) run through "
    "TransactionManager; family txn_long: one or two long-lived SERIALIZABLE / SNAPSHOT_ISOLATION transactions over "
    "KVStore stay open while 3-4200 short READ_COMMITTED blind writers commit, the one conflicting short transaction "
    "commits early in that window (blind writers to keys no judged transaction reads are left out of the serial-order "
    "search).  Non-trivial: LSM history with >=1 read whose interval overlaps a flush or compaction "
    "window (located from the public stats counters) and >=1 delete completed before a later compaction finished; "
    "BTree history with >=1 read overlapping a node split and >=1 delete; KVStore history with >=1 read "
    "overlapping a write to the same key; sequential program with >=1 overwrite and >=1 delete (LSM: also >=1 "
    "compaction); transaction history with >=2 committed transactions whose lifetimes overlap and whose key sets "
    "intersect.  Distinct by hash of the case."
)
ASSUMPTIONS = [
    "an operation begins when the client invokes the generator and completes when it returns; simulated time "
    "decides before/after, and on an exact timestamp tie only one client's program order counts (cross-client ties "
    "are treated as concurrent)",
    "per-key regular-register semantics (not linearizability): a read may return any write overlapping it; scans "
    "are checked key by key, not as one atomic snapshot",
    "FIFO compaction is documented as dropping the oldest SSTables: under FIFO a read may find a key absent once a "
    "compaction has completed, but never a superseded value and never a deleted key",
    "flush / compaction windows used for shapes and non-triviality are reconstructed from public stats counters and "
    "the configured sstable_write_latency (one page per SSTable, true below 32 keys)",
    "SERIALIZABLE: all committed transactions (any level) are placed in the serial order, only SERIALIZABLE "
    "transactions' reads must be explained; snapshot isolation: the reads of a committed SI transaction (other "
    "than reads of its own writes) must equal one of the committed states S_0..S_n, any n",
]
MUST_OBSERVE = ["reads_checked", "scans_checked", "txn_serial_checks", "txn_si_checks", "txns_open_across_1024_or_more_commits"]


# --------------------------------------------------------------------------
# concurrent histories


def _scale(cfg: dict) -> float:
    e = cfg["engine"]
    if e == "lsm":
        return cfg["sstable_write_latency"]
    if e == "btree":
        return cfg["page_write_latency"]
    return cfg["write_latency"]


MIX = {"put": 0.4, "get": 0.3, "delete": 0.14, "scan": 0.16}
BURST_MIX = {"put": 0.6, "get": 0.15, "delete": 0.2, "scan": 0.05}


def gen_concurrent(engine: str):
    def gen(rng: random.Random, tier: str) -> dict:
        if engine.startswith("lsm_"):
            cfg = gen_lsm_cfg(rng, engine[4:])
            if rng.random() < 0.08:
                cfg["max_levels"] = 1  # L0 compacts into itself
        elif engine == "btree":
            cfg = gen_btree_cfg(rng)
        else:
            cfg = gen_kv_cfg(rng)
        keys = gen_keys(rng)
        scale = _scale(cfg)
        mix = MIX
        if cfg["engine"] == "lsm" and rng.random() < 0.25:
            # both write / read APIs on one tree: put_sync / get_sync land inside running flushes and compactions
            mix = {"put": 0.32, "get": 0.24, "delete": 0.12, "scan": 0.12, "put_sync": 0.12, "get_sync": 0.08}
        n_clients = rng.randint(2, 6)
        total = rng.choice([12, 30, 60, 120])
        clients = []
        for _ in range(n_clients):
            n = max(1, total // n_clients)
            clients.append(
                {
                    "start": gen_think(rng, 2 * scale),
                    "ops": gen_client_ops(rng, keys, n, scale, mix, scans=cfg["engine"] != "kv", falsy=0.12),
                }
            )
        if rng.random() < 0.4:
            clients += gen_burst_clients(rng, keys, scale, BURST_MIX, scans=cfg["engine"] != "kv", falsy=0.12)
        return {"store": cfg, "keys": keys, "clients": clients}

    return gen


_SUPERSEDED = ("completed-write-not-visible", "stale-value-returned", "deleted-key-returned")


def _oracle_name(clause: str) -> str:
    """Mechanism-key oracle: the three ways of returning a superseded write (absent / older value / value of a
    deleted key) are one clause of the statement and one mechanism; the sub-clause stays in the detail text."""
    scan = clause.startswith("scan-")
    base = clause[5:] if scan else clause
    if base in _SUPERSEDED:
        base = "superseded-write-returned"
    return ("scan-" if scan else "") + base


def gen_big(rng: random.Random, tier: str) -> dict:
    """Memtables of 15-47 entries over 40-64 keys, 3-8 writers putting back to back: memtables overshoot their
    threshold by the puts that arrive during the last insert's 10 us latency, so SSTable sizes (and therefore flush
    durations, one page per 16 keys) differ between consecutive flushes."""
    nk = rng.choice([40, 48, 64])
    keys = [f"k{i:02d}" for i in range(nk)]
    cfg = gen_lsm_cfg(rng, rng.choice(["size_tiered", "leveled"]), wal="maybe")
    cfg["memtable_size"] = rng.choice([31, 31, 32, 47, 16, 15])
    cfg["max_levels"] = rng.choice([3, 4])
    if cfg["strategy"]["kind"] == "size_tiered":
        cfg["strategy"]["min_sstables"] = rng.choice([3, 4, 6])
    else:
        cfg["strategy"].update(level_0_max=rng.choice([3, 4]), base_size_keys=rng.choice([16, 64]))
    clients = []
    for _ in range(rng.randint(3, 8)):
        ops = []
        for _ in range(rng.choice([20, 40, 60])):
            think = rng.choice([0.0, 0.0, 0.0, 1e-6, 5e-6, 2e-5]) if rng.random() < 0.9 else rng.choice([0.0005, 0.002])
            ops.append([think, rng.choices(["put", "get", "delete", "scan"], [0.72, 0.18, 0.06, 0.04])[0], rng.choice(keys)])
            if ops[-1][1] == "scan":
                a, b = sorted(rng.sample(keys, 2))
                ops[-1] = [think, "scan", a, b]
        clients.append({"start": rng.choice([0.0, 0.0, 1e-6, 5e-6, 0.0004]), "ops": ops})
    return {"store": cfg, "keys": keys, "clients": clients}


def _windows(times: list[int], width_ns: int) -> list[tuple[int, int]]:
    return [(t - width_ns, t) for t in times]


def _lsm_shape(read: dict, adm: list[dict], flush_w, comp_w, single_level=False) -> str:
    """Structural precondition of an inadmissible LSM read, most specific first.

    0. a flush that began later was installed before an older one and before the read ended: the newer SSTable
       sits below the older data (older immutable memtable, or older SSTable appended after it) - persistent;
    1. flush window: the read began while a flush was in progress AND some admissible write can have been
       in the memtable being flushed (its interval meets (start of previous flush, start of this flush]);
    2. two compactions overlapped in time before the read ended (their effect is persistent, so it is tested
       before the transient one);
    3. a compaction completed strictly inside the read (level lists change under a suspended reader);
    4. none of these.
    """
    t0, t1 = read["t0"], read["t1"]
    fw = sorted(flush_w)
    if single_level and any(a < fb <= b and b <= t1 for a, b in comp_w for _, fb in fw):
        # max_levels == 1: L0 is compacted into itself; a flush was installed during that compaction's write latency
        return "flush-installed-during-in-place-compaction-of-L0"
    for i, (a, b) in enumerate(fw):
        # a flush that began earlier but was installed later than another one (bigger SSTable, more pages)
        if any(a < a2 and b2 < b and b2 <= t1 for a2, b2 in fw[i + 1 :]):
            return "read-after-out-of-order-flush-completion"
    for i, (a, b) in enumerate(fw):
        if a <= t0 < b:
            prev = fw[i - 1][0] if i else float("-inf")
            for w in adm:
                w1 = float("inf") if w["t1"] is None else w["t1"]
                if w["t0"] <= a and w1 > prev:
                    return "read-began-inside-flush-window"
    done = sorted(w for w in comp_w if w[1] <= t1)
    for i in range(len(done) - 1):
        if done[i + 1][0] < done[i][1]:
            return "read-after-overlapping-compactions"
    if any(t0 < b <= t1 for _, b in comp_w):
        return "compaction-completed-during-read"
    return "no-flush-or-compaction-in-flight"


def _btree_shape(read: dict, splits: list[int]) -> str:
    if any(read["t0"] <= t <= read["t1"] for t in splits):
        return "read-overlaps-node-split"
    return "no-split-in-flight"


def check_history(case: dict, res: Result, store, hist, sampler):
    cfg = case["store"]
    comp = component_name(cfg)
    recs = hist.recs
    wbk = writes_by_key(recs, case.get("preload", ()))
    engine = cfg["engine"]
    fifo = engine == "lsm" and cfg["strategy"]["kind"] == "fifo"
    flush_w = comp_w = []
    if engine == "lsm":
        width = int(round(cfg["sstable_write_latency"] * 1e9))
        # one page per 16 keys (max(1, key_count // 16)), key count from the public level summary
        flush_w = [(t - width * max(1, n // 16), t) for t, n in zip(sampler.flushes, sampler.flush_keys)]
        comp_w = _windows(sampler.compactions, width)

    def shape_of(r, adm=()):
        if engine == "lsm":
            return _lsm_shape(r, list(adm), flush_w, comp_w, single_level=cfg.get("max_levels") == 1)
        if engine == "btree":
            return _btree_shape(r, sampler.splits)
        return "plain"

    def tolerated_fifo(clause: str, r) -> bool:
        if fifo and clause.endswith("completed-write-not-visible") and any(t <= r["t1"] for t in sampler.compactions):
            res.count("fifo_absent_tolerated")
            return True
        return False

    reads_in_window = 0
    incomplete = 0
    for r in recs:
        if r["t1"] is None:
            incomplete += 1
            continue
        if r["op"] == "get":
            ws = wbk.get(r["key"], [])
            adm = admissible(r, ws)
            res.count("reads_checked")
            if len(adm) > 1:
                res.count("reads_with_concurrent_writes")
            clause = classify_read(r["res"], adm, ws, r)
            if clause and not tolerated_fifo(clause, r):
                res.add(
                    _oracle_name(clause),
                    comp,
                    shape_of(r, adm),
                    f"{clause}: get({r['key']!r}) by client {r['c']} op {r['i']} over [{r['t0']},{r['t1']}]ns returned "
                    f"{r['res']!r}; admissible {[w['val'] for w in adm]}",
                    {"read": r, "writes_to_key": ws[-8:], "flushes": sampler.flushes[-6:], "compactions": sampler.compactions[-6:]},
                )
        elif r["op"] == "scan":
            res.count("scans_checked")
            for clause, key, detail in check_scan(r, wbk, case["keys"]):
                if tolerated_fifo(clause, r):
                    continue
                res.add(
                    _oracle_name(clause),
                    comp,
                    shape_of(r, admissible(r, wbk.get(key, [])) if key else ()),
                    f"{clause}: scan[{r['start']!r},{r['end']!r}) by client {r['c']} op {r['i']} over [{r['t0']},{r['t1']}]ns, key {key!r}: {detail}",
                    {"read": r, "writes_to_key": wbk.get(key, [])[-8:] if key else None},
                )
        if r["op"] in ("get", "scan"):
            if engine == "lsm" and any(a <= r["t1"] and r["t0"] <= b for a, b in flush_w + comp_w):
                reads_in_window += 1
            elif engine == "btree" and any(r["t0"] < t <= r["t1"] for t in sampler.splits):
                reads_in_window += 1
            elif engine == "kv" and r["op"] == "get" and any(
                w["t0"] <= r["t1"] and (w["t1"] is None or r["t0"] <= w["t1"]) for w in wbk.get(r["key"], []) if not w.get("pre")
            ):
                reads_in_window += 1
    res.count("ops_recorded", len(recs))
    res.count("reads_overlapping_structure_change", reads_in_window)
    if incomplete:
        res.count("ops_incomplete", incomplete)
    deletes = [r for r in recs if r["op"] == "delete" and r["t1"] is not None]
    if engine == "lsm":
        res.count("flushes_seen", len(sampler.flushes))
        res.count("compactions_seen", len(sampler.compactions))
        tomb_compacted = any(any(d["t1"] < t for t in sampler.compactions) for d in deletes)
        if tomb_compacted:
            res.count("histories_with_tombstone_before_compaction")
        res.nontrivial = reads_in_window > 0 and tomb_compacted
    elif engine == "btree":
        res.count("splits_seen", len(sampler.splits))
        res.nontrivial = reads_in_window > 0 and bool(deletes)
    else:
        res.nontrivial = reads_in_window > 0
    return incomplete


def run_concurrent(case: dict) -> Result:
    res = Result()
    status, store, wal, hist, sampler = run_history(case)
    res.count("events_monitored", sampler.events)
    if status != "completed":
        res.inconclusive = f"run status {status}"
        return res
    incomplete = check_history(case, res, store, hist, sampler)
    if incomplete and not res.violations:
        res.inconclusive = f"{incomplete} operations never returned"
    return res


_SHRUNK: dict[tuple, int] = {}  # per worker process: how often each mechanism key has been shrunk already


def shrink_ops(case: dict, still_fails) -> dict:
    """ddmin over the flattened (client, op) list; keeps think times.

    Only the first two cases per mechanism key are shrunk in one worker: on a tree with a common defect every
    fourth history fails and shrinking them all would dominate the quick tier.
    """
    run = run_sequential if len(case["clients"]) == 1 else run_concurrent
    keys = {v.key() for v in run(case).violations}
    if keys and all(_SHRUNK.get(k, 0) >= 2 for k in keys):
        return case
    for k in keys:
        _SHRUNK[k] = _SHRUNK.get(k, 0) + 1
    flat = [(ci, oi) for ci, cl in enumerate(case["clients"]) for oi in range(len(cl["ops"]))]

    def build(keep):
        keep = set(keep)
        c2 = dict(case)
        c2["clients"] = []
        for ci, cl in enumerate(case["clients"]):
            ops = []
            carry = 0.0
            for oi, op in enumerate(cl["ops"]):
                if (ci, oi) in keep:
                    ops.append([round(op[0] + carry, 9), *op[1:]])
                    carry = 0.0
                else:
                    carry += op[0]
            c2["clients"].append({"start": cl["start"], "ops": ops})
        return c2

    kept = ddmin(flat, lambda k: still_fails(build(k)), max_tests=80)
    return build(kept)


# --------------------------------------------------------------------------
# sequential programs mixing sync and generator APIs == dict


def gen_sequential(rng: random.Random, tier: str) -> dict:
    engine = rng.choice(["lsm_size_tiered", "lsm_leveled", "lsm_fifo", "btree", "kv"])
    if engine.startswith("lsm_"):
        cfg = gen_lsm_cfg(rng, engine[4:])
        mix = {"put": 0.2, "get": 0.15, "delete": 0.15, "scan": 0.1, "put_sync": 0.25, "get_sync": 0.15}
    elif engine == "btree":
        cfg = gen_btree_cfg(rng)
        mix = {"put": 0.2, "get": 0.15, "delete": 0.15, "scan": 0.1, "put_sync": 0.25, "get_sync": 0.15}
    else:
        cfg = gen_kv_cfg(rng)
        mix = {"put": 0.2, "get": 0.15, "delete": 0.1, "put_sync": 0.25, "get_sync": 0.15, "delete_sync": 0.15}
    style = rng.choice(["mixed", "sync_only", "mixed"])
    if style == "sync_only":
        mix = {k: v for k, v in mix.items() if k.endswith("_sync")}
    keys = gen_keys(rng, 3, 10) if rng.random() < 0.8 else [f"key{i:03d}" for i in range(rng.choice([20, 40, 70]))]
    n = rng.choice([10, 40, 120]) if len(keys) <= 10 else rng.choice([120, 300])
    ops = gen_client_ops(rng, keys, n, _scale(cfg) if style == "mixed" else 0.0, mix, scans=cfg["engine"] != "kv", falsy=0.15)
    return {"store": cfg, "keys": keys, "clients": [{"start": 0.0, "ops": ops}]}


def gen_bulk(rng: random.Random, tier: str) -> dict:
    """Thousands of keys loaded in non-overlapping sorted batches (put_sync, some put) so that levels >= 1 hold many
    SSTables with disjoint key ranges, a sprinkle of overwrites / deletes, then a point read of every key
    (final get_sync sweep + some generator gets): bloom-filter false positives of neighbouring tables are the norm."""
    n_keys = rng.choice([1500, 2400, 3200])
    keys = [f"key{i:05d}" for i in range(n_keys)]
    cfg = gen_lsm_cfg(rng, "leveled", wal=False)
    cfg["memtable_size"] = rng.choice([40, 50, 64])
    cfg["max_levels"] = rng.choice([3, 4, 7])
    cfg["strategy"] = {"kind": "leveled", "level_0_max": rng.choice([2, 3]), "size_ratio": 10, "base_size_keys": 100_000}
    if rng.random() < 0.3:
        cfg["strategy"] = {"kind": "size_tiered", "min_sstables": rng.choice([2, 3])}
    ops = []
    api = rng.choice(["put_sync", "put_sync", "put"])
    for k in keys:
        ops.append([0.0, api, k])
    for _ in range(rng.randint(0, 60)):
        ops.append([0.0, rng.choice(["put_sync", "delete", "put"]), rng.choice(keys)])
    for _ in range(120):
        ops.append([0.0, rng.choice(["get", "get_sync"]), rng.choice(keys)])
    return {"store": cfg, "keys": keys, "clients": [{"start": 0.0, "ops": ops}]}


def run_sequential(case: dict) -> Result:
    res = Result()
    status, store, wal, hist, sampler = run_history(case)
    res.count("events_monitored", sampler.events)
    if status != "completed":
        res.inconclusive = f"run status {status}"
        return res
    comp = component_name(case["store"])
    fifo = case["store"]["engine"] == "lsm" and case["store"]["strategy"]["kind"] == "fifo"
    model: dict = {}
    overwrites = dels = 0
    for r in hist.recs:
        if r["t1"] is None:
            res.inconclusive = "operation never returned"
            return res
        api = "sync-api" if r.get("sync") else "generator-api"
        if r["op"] == "put":
            overwrites += r["key"] in model
            model[r["key"]] = r["val"]
        elif r["op"] == "delete":
            dels += r["key"] in model
            model.pop(r["key"], None)
        elif r["op"] == "get":
            res.count("reads_checked")
            res.count("sync_reads_checked" if r.get("sync") else "sequential_generator_reads_checked")
            exp = model.get(r["key"], ABSENT)
            if r["res"] != exp:
                if fifo and r["res"] is ABSENT and sampler.compactions:
                    res.count("fifo_absent_tolerated")
                    continue
                clause = "completed-write-not-visible" if r["res"] is ABSENT else (
                    "deleted-key-returned" if exp is ABSENT else "stale-value-returned"
                )
                res.add(_oracle_name(clause), comp, f"sequential-{api}", f"{clause}: op {r['i']} get({r['key']!r}) returned {r['res']!r}, dict says {exp!r}", {"read": r})
        elif r["op"] == "scan":
            res.count("scans_checked")
            exp = [[k, v] for k, v in sorted(model.items()) if r["start"] <= k < r["end"]]
            if r["res"] != exp:
                if fifo and sampler.compactions and _is_sublist(r["res"], exp):
                    res.count("fifo_absent_tolerated")
                    continue
                res.add("scan-differs-from-dict", comp, f"sequential-{api}", f"op {r['i']} scan[{r['start']!r},{r['end']!r}) returned {r['res']}, dict says {exp}", {"read": r})
    # final sweep with get_sync
    for k in case["keys"]:
        res.count("reads_checked")
        res.count("sync_reads_checked")
        got = store.get_sync(k)
        exp = model.get(k, ABSENT)
        if got != exp and not (fifo and got is ABSENT and sampler.compactions):
            sub = "completed-write-not-visible" if got is ABSENT else ("deleted-key-returned" if exp is ABSENT else "stale-value-returned")
            res.add(
                _oracle_name(sub),
                comp,
                "sequential-final-sweep",
                f"{sub}: final get_sync({k!r}) returned {got!r}, dict says {exp!r}",
            )
    res.count("ops_recorded", len(hist.recs))
    if case["store"]["engine"] == "lsm":
        res.count("flushes_seen", store.stats.memtable_flushes)
        res.count("compactions_seen", store.stats.compactions)
        res.nontrivial = overwrites > 0 and dels > 0 and store.stats.compactions > 0
    else:
        res.nontrivial = overwrites > 0 and dels > 0
    return res


def _is_sublist(small, big) -> bool:
    it = iter(big)
    return all(any(x == y for y in it) for x in small)


FAMILIES = {
    "lsm_size_tiered": Family("lsm_size_tiered", gen_concurrent("lsm_size_tiered"), run_concurrent, shrink=shrink_ops),
    "lsm_leveled": Family("lsm_leveled", gen_concurrent("lsm_leveled"), run_concurrent, shrink=shrink_ops),
    "lsm_fifo": Family("lsm_fifo", gen_concurrent("lsm_fifo"), run_concurrent, shrink=shrink_ops),
    "lsm_big": Family("lsm_big", gen_big, run_concurrent, shrink=shrink_ops),
    "lsm_bulk": Family("lsm_bulk", gen_bulk, run_sequential),
    "btree": Family("btree", gen_concurrent("btree"), run_concurrent, shrink=shrink_ops),
    "kv": Family("kv", gen_concurrent("kv"), run_concurrent, shrink=shrink_ops),
    "sequential": Family("sequential", gen_sequential, run_sequential, shrink=shrink_ops),
    "txn": Family("txn", gen_txn, run_txn),
    "txn_long": Family("txn_long", gen_txn_long, run_txn),
}
# cases cost 1-5 ms but a fresh worker pays ~3 s to import the library: few, large shards
for _f in FAMILIES.values():
    _f.shard_size = 150
FAMILIES["lsm_bulk"].shard_size = 2
FAMILIES["txn_long"].shard_size = 6

BUDGET = {
    "quick": {"lsm_size_tiered": 300, "lsm_leveled": 300, "lsm_fifo": 200, "lsm_big": 200, "lsm_bulk": 8, "btree": 250, "kv": 150, "sequential": 300, "txn": 600, "txn_long": 24},
    "thorough": {
        "lsm_size_tiered": 12000,
        "lsm_leveled": 12000,
        "lsm_fifo": 8000,
        "lsm_big": 6000,
        "lsm_bulk": 200,
        "btree": 10000,
        "kv": 4000,
        "sequential": 10000,
        "txn": 30000,
        "txn_long": 600,
    },
}

"""C19  Messaging delivers until acknowledged, to the right consumers, in offset order.

Monitor shape: harness consumer / subscriber / member entities inside real
simulations record every delivery the engine hands them (message id, attempt,
time); publishes carry unique payload ids; all client calls (publish, ack,
reject, visibility timeout = schedule_redelivery, subscribe, join, commit)
are made by harness code and logged at the call.  Queue / log / group state is
read through public attributes at the end of every simulated instant.

Families (details in notes/design-C19.md):
  mq        MessageQueue + DeadLetterQueue op strings with a reaction script
  topic     Topic fan-out with subscribe / unsubscribe / replay, three publish paths
  eventlog  EventLog append / read, sharding strategies, size and time retention
  group     ConsumerGroup join / leave / poll / commit under each assignment strategy
  relay     OutboxRelay -> IdempotencyStore -> sink (exactly-once forwarding)
  stream    StreamProcessor: every record fed in is emitted in a window result or accounted as late
  sharedlog 1-3 EventLogs with pluggable sharding (one strategy object shared by logs of different size), interleaved appends
"""

from __future__ import annotations

from hsverif.c19_mq import gen_mq, run_mq, shrink_mq  # noqa: F401  (shrink_mq: used by hand for pinned witnesses)
from hsverif.c19_stream import gen_eventlog, gen_group, gen_sharedlog, gen_stream, run_eventlog, run_group, run_sharedlog, run_stream
from hsverif.c19_topic import gen_relay, gen_topic, run_relay, run_topic
from hsverif.core import Family

PID = "C19"
LEVEL = "exploration"
RULE = (
    "Generated op strings at millisecond times (same-instant ties included) executed by harness entities against the real "
    "MessageQueue+DeadLetterQueue / Topic / EventLog / ConsumerGroup / OutboxRelay+IdempotencyStore inside a Simulation run "
    "under EngineProbe caps. mq: publish/poll/subscribe/unsubscribe ops plus a reaction script applied to the k-th received "
    "delivery (ack, delayed ack, reject with/without requeue, ignore, visibility timeout, timeout then late ack/reject), "
    "1-4 consumers, delivery latency 0 and >0, redelivery limit 0-3, optional capacity, then a drain phase (acknowledging "
    "consumers, timeouts for everything in flight, 2x polls) after which every message must be acknowledged or dead-lettered. "
    "Non-trivial: mq = at least one redelivery dispatched and one scripted membership change; topic = a subscription change "
    "and >=2 publishes with an active subscriber; eventlog = some partition received >=2 appends; group = >=2 rebalances with "
    "a join and a leave; relay = >=2 entries over >=2 poll cycles; stream = >=2 records and an emitted window; sharedlog = a key appended twice and >=3 switches between logs. Distinct by hash of the case."
)
ASSUMPTIONS = [
    "a consumer that unsubscribes while a delivery is already on the wire may still receive it (checked: subscribed at the dispatch instant = receipt - delivery_latency)",
    "a delivery dispatched before the acknowledgement but arriving after it is in transit, not a delivery after the ack",
    "oracles that depend on the order of two different client actions at exactly the same nanosecond are skipped for that instant",
    "'more attempts than the limit' is read generously: attempt number > 1 + max_redeliveries",
    "a commit carrying a lower offset sent by the client itself is a client-requested seek; harness members only commit increasing offsets, so any regression is the group's doing",
    "committed offsets are per (member, partition), as the group's API defines them",
    "dead-letter queue has no capacity / retention in the mq family, so dead-lettered messages stay visible",
    "Topic replay deliveries (is_replay=True) are not counted against exactly-once",
    "bounded 'eventually': the drain issues 2*(n_published*(max_redeliveries+3)+4) polls spaced > delivery latency and waits one redelivery delay twice",
]
MUST_OBSERVE = ["deliveries_received", "accounting_checks", "fanout_pairs_checked", "appends_checked", "rebalances_checked", "entries_checked", "records_checked", "shared_appends_checked"]

FAMILIES = {
    "mq": Family("mq", gen_mq, run_mq, case_timeout=60.0),
    "topic": Family("topic", gen_topic, run_topic),
    "eventlog": Family("eventlog", gen_eventlog, run_eventlog),
    "group": Family("group", gen_group, run_group),
    "relay": Family("relay", gen_relay, run_relay),
    "stream": Family("stream", gen_stream, run_stream),
    "sharedlog": Family("sharedlog", gen_sharedlog, run_sharedlog),
}

BUDGET = {
    "quick": {"mq": 1500, "topic": 600, "eventlog": 500, "group": 600, "relay": 400, "stream": 300, "sharedlog": 300},
    "thorough": {"mq": 200000, "topic": 60000, "eventlog": 40000, "group": 60000, "relay": 30000, "stream": 20000, "sharedlog": 30000},
}

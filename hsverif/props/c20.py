"""C20  Sketches keep one-sided guarantees and merge like the union of their inputs.

Monitor shape: history + exact reference model.  Every case is a generated
stream (JSON), fed to the real sketch classes; the oracle is an exact
Counter / set / sorted list built from the same stream.
"""

from __future__ import annotations

import copy
import random
from collections import Counter

from hsverif.core import Family, Result

PID = "C20"
LEVEL = "exploration"
RULE = (
    "Generated item streams (uniform, zipf-skewed, single-item, empty, weighted adds, tiny tables so that "
    "collisions are the norm; items int / str / tuple) fed to the real sketches and to exact Counter/set models; "
    "merges tried at every generated split point and compared with the sketch of the concatenated stream over the "
    "whole universe plus random probes. Non-trivial: the sketch's own state shows a collision (two distinct items "
    "sharing a cell/bit), an eviction (TopK), a compression (t-digest centroids < samples), a replacement "
    "(reservoir n>k) or a differing key (Merkle). Also: merges of merged sketches (tree reduction through accumulators, "
    "chains), Merkle trees maintained key by key from empty with None / empty-string values, and family `alias`: keys that "
    "compare equal but print differently used side by side in two sketches of one process with up to 5000 unrelated "
    "items hashed in between (truth keyed by printed form). Distinct by hash of the case."
)
ASSUMPTIONS = [
    "items are queried with the very objects that were inserted (no 1 vs 1.0 aliasing)",
    "merge operands are built with equal dimensions and seed, as the API requires",
]
MUST_OBSERVE = ["queries_checked"]


# --------------------------------------------------------------------------
# generators


def _universe(rng: random.Random, n: int) -> list:
    kind = rng.choice(["int", "str", "tuple", "mixed", "negint", "fsets"])
    if kind == "fsets":
        # set-valued keys, each spelled in two insertion orders (equal objects whose repr() may differ: small ints
        # that collide in the set's table, strings), flat and nested
        out = []
        for _ in range(max(1, n // 2)):
            a = rng.randrange(0, 8)
            pair = rng.choice([[a, a + 8], [a, a + 16, a + 8], [f"s{a}", f"t{a}"], [a, f"s{a}"]])
            if rng.random() < 0.4:
                inner = list(pair)
                # a sibling that is itself a set: its text can sort between the two spellings of the inner set
                sib = rng.choice([5, "m", ["<fs>", [rng.randrange(0, 10)]], ["<fs>", [rng.randrange(0, 10)]], ["<fs>", [rng.randrange(0, 20), "k"]]])
                out.append(["<fs>", [["<fs>", inner], sib]])
                out.append(["<fs>", [sib, ["<fs>", inner[::-1]]]])
            else:
                out.append(["<fs>", list(pair)])
                out.append(["<fs>", pair[::-1]])
        return out
    if kind == "int":
        return [rng.randrange(0, 10**6) for _ in range(n)]
    if kind == "negint":
        return [-i for i in range(1, n + 1)]  # hash(-1) == hash(-2) in CPython
    if kind == "str":
        return [f"k{rng.randrange(0, 10**5)}" for _ in range(n)]
    if kind == "tuple":
        return [[rng.randrange(0, 50), f"t{rng.randrange(0, 50)}"] for _ in range(n)]
    out = []
    for i in range(n):
        out.append(rng.choice([i, f"s{i}", [i, i + 1]]))
    return out


def _dedupe(u: list) -> list:
    seen, out = set(), []
    for x in u:
        k = repr(x)
        if k not in seen:
            seen.add(k)
            out.append(x)
    return out


def _stream(rng: random.Random, uni: list, n: int) -> list:
    """list of [item_index, count]"""
    if not uni or n == 0:
        return []
    shape = rng.choice(["uniform", "zipf", "single", "runs", "comeback"])
    if shape == "comeback":
        # a heavy item is evicted by a crowd of others and comes back with a large weight, several times over
        out, hot = [], 0
        while len(out) < n:
            out.append([hot, rng.randrange(1, 9)])
            for _ in range(rng.randrange(1, 6)):
                out.append([rng.randrange(len(uni)), rng.choice([1, 1, 1, 2, 4])])
            if rng.random() < 0.2:
                hot = rng.randrange(len(uni))
        return out[:n]
    out = []
    for _ in range(n):
        if shape == "uniform":
            i = rng.randrange(len(uni))
        elif shape == "zipf":
            i = min(len(uni) - 1, int(rng.paretovariate(1.2)) - 1)
        elif shape == "single":
            i = 0
        else:
            i = (len(out) // 3) % len(uni)
        c = 1 if rng.random() < 0.8 else rng.randrange(0, 6)
        out.append([i, c])
    if out and rng.random() < 0.08:
        # weighted adds far beyond machine-word counters
        for _ in range(rng.randrange(1, 4)):
            out[rng.randrange(len(out))][1] = rng.choice([2**31, 2**32 + 1, 2**63, 2**64 - 1, 2**64 + 5, 10**20])
    return out


def _item(x):
    if isinstance(x, list) and len(x) == 2 and x[0] == "<fs>":
        fs = set()
        for e in x[1]:  # insertion order as written
            fs.add(_item(e))
        return frozenset(fs)
    return tuple(x) if isinstance(x, list) else x


def gen_freq(kind):
    def gen(rng: random.Random, tier: str) -> dict:
        nuni = rng.choice([1, 2, 3, 5, 8, 20, 60])
        uni = _dedupe(_universe(rng, nuni))
        n = rng.choice([0, 1, 2, 5, 20, 60, 200])
        case = {
            "kind": kind,
            "universe": uni,
            "stream": _stream(rng, uni, n),
            "split": rng.randrange(0, n + 1),
            "split2": rng.randrange(0, n + 1),
            "seed": rng.choice([None, 0, 1, 7, 12345]),
            "probes": [f"probe{rng.randrange(10**6)}" for _ in range(10)] + [rng.randrange(10**7, 10**8) for _ in range(5)],
        }
        if kind == "bloom":
            case["size_bits"] = rng.choice([1, 2, 7, 16, 63, 64, 65, 128, 1000])
            case["num_hashes"] = rng.choice([None, 1, 2, 3, 7])
        elif kind == "cms":
            case["width"] = rng.choice([1, 2, 3, 5, 16, 64])
            case["depth"] = rng.choice([1, 2, 3, 5])
        elif kind == "hll":
            case["precision"] = rng.choice([4, 5, 6, 8, 10])
            if rng.random() < 0.4:
                # two very small sketches with a coarse register file: shared registers are likely
                case["precision"] = rng.choice([4, 4, 5])
                m = rng.choice([2, 3, 4, 6])
                case["stream"] = [[i % len(uni), 1] for i in range(min(m, 2 * len(uni)))]
                case["split"] = rng.randrange(1, len(case["stream"])) if len(case["stream"]) > 1 else 0
                case["split2"] = len(case["stream"])
        elif kind == "topk":
            case["k"] = rng.choice([1, 2, 3, 5, 10])
        return case

    return gen


# --------------------------------------------------------------------------
# oracles


def _plain_state(x):
    """The object's own data attributes (ints, floats, strings, lists, dicts, tuples), representation-agnostic."""
    out = {}
    for k, v in vars(x).items():
        if isinstance(v, (int, float, str, bytes, list, dict, tuple, set, frozenset, type(None))):
            out[k] = v
    return out


def _mk(case):
    from happysimulator.sketching import BloomFilter, CountMinSketch, HyperLogLog, TopK

    k = case["kind"]
    if k == "bloom":
        return BloomFilter(size_bits=case["size_bits"], num_hashes=case["num_hashes"], seed=case["seed"])
    if k == "cms":
        return CountMinSketch(width=case["width"], depth=case["depth"], seed=case["seed"])
    if k == "hll":
        return HyperLogLog(precision=case["precision"], seed=case["seed"])
    if k == "topk":
        return TopK(k=case["k"])
    raise KeyError(k)


def _feed(sk, uni, stream):
    for i, c in stream:
        if c == 1:
            sk.add(uni[i])
        else:
            sk.add(uni[i], c)


def _queries(case, uni):
    return uni + [(_item(p)) for p in case["probes"]]


def run_freq(case: dict) -> Result:
    res = Result()
    kind = case["kind"]
    uni = [_item(x) for x in case["universe"]]
    stream = case["stream"]
    truth = Counter()
    for i, c in stream:
        truth[uni[i]] += c
    n_total = sum(truth.values())
    whole = _mk(case)
    comp = type(whole).__name__
    # feed with queries interleaved (a sketch that caches answers must invalidate them on every update)
    sofar = Counter()
    step = max(1, len(stream) // 5)
    for pos, (i, c) in enumerate(stream):
        if c == 1:
            whole.add(uni[i])
        else:
            whole.add(uni[i], c)
        sofar[uni[i]] += c
        if pos % step == 0:
            for x in uni[: 6]:
                res.count("queries_checked")
                if kind == "bloom" and sofar[x] > 0 and not whole.contains(x):
                    res.add("false-negative", comp, "mid-stream-after-earlier-query", f"item {x!r}")
                elif kind == "cms" and whole.estimate(x) < sofar[x]:
                    res.add("underestimate", comp, "mid-stream-after-earlier-query", f"estimate({x!r})={whole.estimate(x)} < {sofar[x]}")
                elif kind == "topk" and x in whole and not (0 <= whole.estimate(x) - sofar[x] <= whole.estimate_with_error(x).error):
                    res.add("error-bound", comp, "mid-stream-after-earlier-query", f"item {x!r}: estimate {whole.estimate(x)} true {sofar[x]}")
                elif kind == "hll":
                    whole.cardinality()

    if whole.item_count != n_total:
        res.add("item-count", comp, "add-only", f"item_count={whole.item_count} true={n_total}")

    # one-sided guarantees on the whole stream
    if kind == "bloom":
        for x in uni:
            res.count("queries_checked")
            if truth[x] > 0 and not whole.contains(x):
                res.add("false-negative", comp, "after-add", f"item {x!r} inserted but contains() is False")
            if truth[x] > 0 and x not in whole:
                res.add("false-negative", comp, "after-add-in-operator", f"item {x!r}")
        distinct = sum(1 for x in uni if truth[x] > 0)
        if distinct * whole.num_hashes > whole._bits_set:
            res.nontrivial = True  # two (item,hash) pairs shared a bit
            res.count("collisions_seen")
    elif kind == "cms":
        for x in _queries(case, uni):
            res.count("queries_checked")
            est = whole.estimate(x)
            if est < truth.get(x, 0):
                res.add("underestimate", comp, "after-add", f"estimate({x!r})={est} < true {truth.get(x, 0)}")
            ewe = whole.estimate_with_error(x)
            if ewe.count != est:
                res.add("estimate-with-error-differs", comp, "after-add", f"{ewe} vs {est}")
        if any(whole.estimate(x) > truth[x] for x in uni):
            res.nontrivial = True
            res.count("collisions_seen")
    elif kind == "topk":
        k = case["k"]
        tracked = 0
        for x in uni:
            res.count("queries_checked")
            est = whole.estimate(x)
            e = whole.estimate_with_error(x)
            if x in whole:
                tracked += 1
                d = est - truth[x]
                if d < 0 or d > e.error:
                    res.add(
                        "error-bound",
                        comp,
                        "after-add",
                        f"item {x!r}: estimate {est}, true {truth[x]}, reported error {e.error}",
                    )
                if e.count != est:
                    res.add("estimate-with-error-differs", comp, "after-add", f"{e} vs {est}")
            else:
                if truth[x] * k > n_total:
                    res.add(
                        "heavy-hitter-untracked",
                        comp,
                        "after-add",
                        f"item {x!r} count {truth[x]} > N/k = {n_total}/{k} but not tracked",
                    )
                if truth[x] > whole.max_error():
                    res.add(
                        "untracked-above-max-error",
                        comp,
                        "after-add",
                        f"item {x!r} untracked with true count {truth[x]} > max_error {whole.max_error()}",
                    )
        top = whole.top()
        if [t.count for t in top] != sorted((t.count for t in top), reverse=True):
            res.add("top-not-sorted", comp, "after-add", str(top)[:200])
        if len(top) > k:
            res.add("tracks-more-than-k", comp, "after-add", f"{len(top)} > {k}")
        if sum(1 for x in uni if truth[x] > 0) > k:
            res.nontrivial = True
            res.count("evictions_seen")
    elif kind == "hll":
        res.count("queries_checked")
        distinct = sum(1 for x in uni if truth[x] > 0)
        card = whole.cardinality()
        if distinct == 0 and card != 0:
            res.add("cardinality-of-empty", comp, "after-add", f"{card}")
        if distinct > 0 and card <= 0:
            res.add("cardinality-zero-nonempty", comp, "after-add", f"{card} for {distinct} distinct")

    # clear() and reuse: everything must hold for the second stream alone
    if stream:
        reused = whole
        reused.clear()
        second = stream[len(stream) // 3 :]
        t2 = Counter()
        for i, c in second:
            t2[uni[i]] += c
        _feed(reused, uni, second)
        n2 = sum(t2.values())
        fresh = _mk(case)
        _feed(fresh, uni, second)
        res.count("reuse_after_clear_checked")
        if reused.item_count != n2:
            res.add("item-count", comp, "after-clear-and-reuse", f"{reused.item_count} vs {n2}")
        for x in uni:
            res.count("queries_checked")
            if kind == "bloom" and reused.contains(x) != fresh.contains(x):
                res.add("differs-from-fresh-sketch", comp, "after-clear-and-reuse", f"contains({x!r})")
            elif kind == "cms" and reused.estimate(x) != fresh.estimate(x):
                res.add("differs-from-fresh-sketch", comp, "after-clear-and-reuse", f"estimate({x!r}) {reused.estimate(x)} vs {fresh.estimate(x)}")
            elif kind == "topk":
                if x in reused:
                    d = reused.estimate(x) - t2[x]
                    if d < 0 or d > reused.estimate_with_error(x).error:
                        res.add("error-bound", comp, "after-clear-and-reuse", f"item {x!r}: estimate {reused.estimate(x)}, true {t2[x]}, error {reused.estimate_with_error(x).error}")
                elif t2[x] * case["k"] > n2:
                    res.add("heavy-hitter-untracked", comp, "after-clear-and-reuse", f"item {x!r} count {t2[x]} > N/k = {n2}/{case['k']}")
        if kind == "hll" and reused.cardinality() != fresh.cardinality():
            res.add("differs-from-fresh-sketch", comp, "after-clear-and-reuse", f"cardinality {reused.cardinality()} vs {fresh.cardinality()}")
        whole = _mk(case)
        _feed(whole, uni, stream)

    # merge == sketch of the concatenated stream
    if kind in ("bloom", "cms", "hll"):
        split = case["split"]
        a, b = _mk(case), _mk(case)
        _feed(a, uni, stream[:split])
        _feed(b, uni, stream[split:])
        # query both operands before the merge: answers computed (or cached) earlier must not survive it
        for x in _queries(case, uni):
            if kind == "bloom":
                a.contains(x), b.contains(x)
            elif kind == "cms":
                a.estimate(x), b.estimate(x)
        if kind == "hll":
            a.cardinality(), b.cardinality()
        b_before = copy.deepcopy(b)
        a.merge(b)
        shape = "merge-vs-concatenated"
        qs = _queries(case, uni)
        if kind == "bloom":
            for x in qs:
                res.count("queries_checked")
                if a.contains(x) != whole.contains(x):
                    res.add("merge-differs", comp, shape, f"contains({x!r}): merged {a.contains(x)} whole {whole.contains(x)}")
            if a._bits != whole._bits:
                res.add("merge-state-differs", comp, shape, "bit arrays differ")
            if abs(a.fill_ratio - whole.fill_ratio) > 1e-12 or abs(a.false_positive_rate - whole.false_positive_rate) > 1e-12:
                res.add("merge-differs", comp, shape + "-fill", f"fill {a.fill_ratio} vs {whole.fill_ratio}")
        elif kind == "cms":
            for x in qs:
                res.count("queries_checked")
                if a.estimate(x) != whole.estimate(x):
                    res.add("merge-differs", comp, shape, f"estimate({x!r}): merged {a.estimate(x)} whole {whole.estimate(x)}")
            if a._counters != whole._counters:
                res.add("merge-state-differs", comp, shape, "counter tables differ")
        else:
            res.count("queries_checked")
            if a.cardinality() != whole.cardinality():
                res.add("merge-differs", comp, shape, f"cardinality merged {a.cardinality()} whole {whole.cardinality()}")
            if getattr(a, "_registers", None) != getattr(whole, "_registers", None):
                res.add("merge-state-differs", comp, shape, "registers differ")
            elif _plain_state(a) != _plain_state(whole):
                # whatever representation the sketch uses internally: "exactly the sketch of the concatenated streams"
                diff = [k for k in _plain_state(whole) if _plain_state(a).get(k) != _plain_state(whole)[k]]
                res.add("merge-state-differs", comp, shape + "-object-state", f"attributes differ: {diff[:4]}")
            # the merged sketch and the sketch of the concatenated stream must STAY equal when both keep growing
            # (a merge that is only right in the small-cardinality range shows later)
            a3, w3 = copy.deepcopy(a), copy.deepcopy(whole)
            for j in range(400):
                x = ("follow-up", j)
                a3.add(x)
                w3.add(x)
                if j < 150 or j % 20 == 19:
                    res.count("queries_checked")
                    if a3.cardinality() != w3.cardinality():
                        res.add("merge-differs", comp, "merged-then-both-grow", f"after {j + 1} follow-up adds: merged {a3.cardinality()} vs sketch of the concatenated stream {w3.cardinality()}")
                        break
        if a.item_count != whole.item_count:
            res.add("merge-differs", comp, shape + "-item-count", f"{a.item_count} vs {whole.item_count}")
        # merge must not disturb its argument, neither at once nor when the receiver is updated later (aliasing)
        def same_state(x, y):
            return (
                kind == "bloom" and x._bits == y._bits or kind == "cms" and x._counters == y._counters or kind == "hll" and (getattr(x, "_registers", None) == getattr(y, "_registers", None) and x.cardinality() == y.cardinality())
            )

        if not same_state(b, b_before):
            res.add("merge-mutates-argument", comp, shape, "")
        a2 = copy.deepcopy(a)
        for x in _queries(case, uni)[:8]:
            a.add(x)
        if not same_state(b, b_before):
            res.add("merge-mutates-argument", comp, "receiver-updated-after-merge" + ("-into-empty" if split == 0 else ""), "adding to the merged sketch changed the sketch that was merged in")
        a = a2
        # idempotent / commutative forms
        c1, c2 = _mk(case), _mk(case)
        _feed(c1, uni, stream[split:])
        _feed(c2, uni, stream[:split])
        c1.merge(c2)
        if kind == "bloom" and c1._bits != a._bits or kind == "cms" and c1._counters != a._counters or kind == "hll" and (getattr(c1, "_registers", None) != getattr(a, "_registers", None) or c1.cardinality() != a.cardinality()):
            res.add("merge-not-commutative", comp, shape, "")
        if 0 < split < len(stream):
            res.nontrivial = res.nontrivial or kind == "hll"
            res.count("merges_with_both_sides_nonempty")
        # merges of merged sketches: tree reduction through accumulators that were never add()ed to, and a chain
        split2 = case.get("split2", (split + len(stream) + 1) // 2)
        lo, hi = min(split, split2), max(split, split2)
        parts = []
        for seg in (stream[:lo], stream[lo:hi], stream[hi:]):
            sk = _mk(case)
            _feed(sk, uni, seg)
            parts.append(sk)

        def state(x):
            return x._bits if kind == "bloom" else x._counters if kind == "cms" else (getattr(x, "_registers", None), x.cardinality())

        acc = _mk(case)
        acc.merge(parts[0])
        acc.merge(parts[1])
        top = _mk(case)
        top.merge(acc)
        top.merge(parts[2])
        res.count("multi_level_merges_checked")
        if state(top) != state(whole) or top.item_count != whole.item_count:
            res.add("merge-state-differs", comp, "tree-reduction-through-accumulators", "leaf -> accumulator -> top differs from the sketch of the whole stream")
        chain = copy.deepcopy(parts[0])
        chain.merge(parts[1])
        last = copy.deepcopy(parts[2])
        last.merge(chain)
        if state(last) != state(whole) or last.item_count != whole.item_count:
            res.add("merge-state-differs", comp, "merged-sketch-merged-again", "c.merge(a.merge(b)) differs from the sketch of the whole stream")
        for x in qs:
            res.count("queries_checked")
            if kind == "bloom" and truth.get(x, 0) > 0 and not (top.contains(x) and last.contains(x)):
                res.add("false-negative", comp, "after-multi-level-merge", f"item {x!r}")
            elif kind == "cms" and min(top.estimate(x), last.estimate(x)) < truth.get(x, 0):
                res.add("underestimate", comp, "after-multi-level-merge", f"estimate({x!r})={min(top.estimate(x), last.estimate(x))} < true {truth.get(x, 0)}")
    elif kind == "topk":
        # Round 8.  The statement claims no exact merge for TopK (the class documents that merging loses accuracy, and
        # an item evicted on one side can be under-counted afterwards), so only the clause that survives a merge is
        # judged: a tracked item's estimate exceeds its true count in the concatenated stream by at most the error the
        # merged sketch reports (C20-r8-1: errors of an item tracked on both sides combined with max() instead of +).
        for sp in sorted({case["split"], case.get("split2", 0), len(stream) // 2}):
            a, b = _mk(case), _mk(case)
            _feed(a, uni, stream[:sp])
            _feed(b, uni, stream[sp:])
            both = [x for x in uni if x in a and x in b]
            a.merge(b)
            res.count("topk_merges_checked")
            if both:
                res.count("topk_merges_with_item_tracked_on_both_sides")
            for x in uni:
                if x in a:
                    res.count("queries_checked")
                    e = a.estimate_with_error(x)
                    if a.estimate(x) - truth[x] > e.error:
                        res.add("error-bound", comp, "after-merge", f"item {x!r}: merged estimate {a.estimate(x)}, true count in the concatenated stream {truth[x]}, reported error {e.error}")
                        break
    return res


# ---- t-digest ------------------------------------------------------------


def gen_tdigest(rng: random.Random, tier: str) -> dict:
    n = rng.choice([1, 2, 3, 5, 10, 50, 200, 600])
    dist = rng.choice(["uniform", "ints", "dups", "exp", "bimodal", "sorted", "reverse", "constant"])
    vals = []
    for i in range(n):
        if dist == "uniform":
            v = rng.uniform(-100, 100)
        elif dist == "ints":
            v = float(rng.randrange(0, 10))
        elif dist == "dups":
            v = rng.choice([0.0, 1.0, 1.0, 5.0])
        elif dist == "exp":
            v = rng.expovariate(1.0)
        elif dist == "bimodal":
            v = rng.gauss(0, 1) if rng.random() < 0.5 else rng.gauss(1000, 5)
        elif dist == "sorted":
            v = float(i)
        elif dist == "reverse":
            v = float(n - i)
        else:
            v = 3.5
        vals.append([v, 1 if rng.random() < 0.85 else rng.randrange(1, 5)])
    if vals and rng.random() < 0.3:
        # a few very heavy samples (pre-aggregated input), in arbitrary value order
        for _ in range(rng.randrange(1, 5)):
            vals[rng.randrange(len(vals))][1] = rng.choice([50, 200, 250, 1000, 3000])
    return {
        "kind": "tdigest",
        "values": vals,
        "compression": rng.choice([1.0, 2.0, 5.0, 10.0, 20.0, 100.0]),
        "split": rng.randrange(0, n + 1),
        "merge": rng.random() < 0.4,
        "grid": rng.choice([11, 51, 201]),
    }


def run_tdigest(case: dict) -> Result:
    from happysimulator.sketching import TDigest

    res = Result()
    comp = "TDigest"
    vals = case["values"]

    def feed(td, part):
        for v, c in part:
            td.add(v, c)

    if case["merge"]:
        td, other = TDigest(compression=case["compression"]), TDigest(compression=case["compression"])
        feed(td, vals[: case["split"]])
        feed(other, vals[case["split"] :])
        g0 = case["grid"]
        before = [other.quantile(i / (g0 - 1)) for i in range(g0)] if case["split"] < len(vals) else None
        td.merge(other)
        shape = "after-merge"
        if before is not None:
            # the digest that was merged in keeps being used (a shard rolled up into a global digest): the
            # receiver's later adds / compressions must not change it
            feed(td, vals[: max(1, len(vals) // 2)])
            feed(td, [[v * 3 + 1000.0, c] for v, c in vals[:20]])
            td.quantile(0.5)
            after = [other.quantile(i / (g0 - 1)) for i in range(g0)]
            res.count("queries_checked", g0)
            if after != before:
                j = next(k for k in range(g0) if after[k] != before[k])
                res.add("merge-mutates-argument", comp, "receiver-updated-after-merge", f"quantile({j / (g0 - 1)}) of the merged-in digest changed from {before[j]} to {after[j]} after the receiver was updated")
            # fresh receiver for the checks below
            td = TDigest(compression=case["compression"])
            feed(td, vals[: case["split"]])
            td.merge(other)
    else:
        td = TDigest(compression=case["compression"])
        feed(td, vals)
        shape = "after-add"
    n = sum(c for _, c in vals)
    lo = min(v for v, _ in vals)
    hi = max(v for v, _ in vals)
    if td.item_count != n:
        res.add("item-count", comp, shape, f"{td.item_count} vs {n}")
    g = case["grid"]
    qs = [i / (g - 1) for i in range(g)]
    prev = None
    prev_q = None
    eps = 1e-9 * max(1.0, abs(lo), abs(hi))
    for q in qs:
        v = td.quantile(q)
        res.count("queries_checked")
        if v < lo - eps or v > hi + eps:
            res.add("quantile-outside-min-max", comp, shape, f"quantile({q})={v} outside [{lo},{hi}]")
        if prev is not None and v < prev - eps:
            res.add("quantile-not-monotone", comp, shape, f"quantile({prev_q})={prev} > quantile({q})={v}")
        prev, prev_q = v, q
    if td.centroid_count < n:
        res.nontrivial = True
        res.count("compressions_seen")
    return res


# ---- reservoir -----------------------------------------------------------


def gen_reservoir(rng: random.Random, tier: str) -> dict:
    n = rng.choice([0, 1, 2, 5, 10, 50, 300, 3000])
    return {
        "kind": "reservoir",
        "size": rng.choice([1, 2, 3, 10, 50]),
        "seed": rng.choice([None, 0, 1, 99]),
        "adds": [[rng.randrange(0, 20), 1 if rng.random() < 0.8 else rng.randrange(0, 4)] for _ in range(n)],
    }


def run_reservoir(case: dict) -> Result:
    from happysimulator.sketching import ReservoirSampler

    res = Result()
    comp = "ReservoirSampler"
    r = ReservoirSampler(size=case["size"], seed=case["seed"] if case["seed"] is not None else 0)
    truth = Counter()
    n = 0
    for step, (item, c) in enumerate(case["adds"]):
        uid = (item, step)  # unique so that multiset inclusion is decidable
        r.add(uid, c)
        truth[uid] += c
        n += c
        res.count("queries_checked")
        s = r.sample()
        if len(s) != min(case["size"], n):
            res.add("sample-size", comp, "after-add", f"holds {len(s)} items, expected min({case['size']},{n})")
            break
        got = Counter(s)
        if any(got[x] > truth[x] for x in got):
            res.add("sample-not-from-stream", comp, "after-add", f"{[x for x in got if got[x] > truth[x]][:3]}")
            break
        if len(r) != len(s) or r.sample_size != len(s) or list(r) != s:
            res.add("views-disagree", comp, "after-add", "")
            break
    if r.item_count != n:
        res.add("item-count", comp, "after-add", f"{r.item_count} vs {n}")
    # merge of two reservoirs (also not yet full ones): min(k, n1+n2) items, all of them from the two streams
    adds = case["adds"]
    for split in sorted({0, len(adds) // 2, len(adds) // 3, len(adds)}):
        ra = ReservoirSampler(size=case["size"], seed=3)
        rb = ReservoirSampler(size=case["size"], seed=4)
        seen, na, nb = set(), 0, 0
        for step, (item, c) in enumerate(adds):
            uid = (item, step)
            (ra if step < split else rb).add(uid, c)
            if c:
                seen.add(uid)
            if step < split:
                na += c
            else:
                nb += c
        ra.merge(rb)
        res.count("queries_checked")
        m = ra.sample()
        if len(m) != min(case["size"], na + nb):
            res.add("sample-size", comp, "after-merge" + ("-of-partly-filled-reservoirs" if min(na, nb) < case["size"] else ""), f"holds {len(m)} items after merging streams of {na} and {nb}, expected min({case['size']},{na + nb})")
            break
        if any(x not in seen for x in m):
            res.add("sample-not-from-stream", comp, "after-merge", "")
            break
        if ra.item_count != na + nb:
            res.add("item-count", comp, "after-merge", f"{ra.item_count} vs {na + nb}")
            break
    # clear() and reuse: the sampler behaves like a fresh one for the second stream (shorter and longer than k)
    for m in sorted({1, max(1, case["size"] // 2), case["size"], case["size"] + 3}):
        r.clear()
        n2 = 0
        for step in range(m):
            r.add(("second", m, step))
            n2 += 1
            res.count("queries_checked")
            s2 = r.sample()
            if len(s2) != min(case["size"], n2) or any(x[0] != "second" or x[1] != m for x in s2):
                res.add("sample-size", comp, "after-clear-and-reuse", f"after clear() and {n2} adds the reservoir (k={case['size']}) holds {len(s2)} items: {s2[:3]}")
                break
        else:
            if r.item_count != n2:
                res.add("item-count", comp, "after-clear-and-reuse", f"{r.item_count} vs {n2}")
            continue
        break
    res.count("reuse_after_clear_checked")
    if n > case["size"]:
        res.nontrivial = True
        res.count("replacements_possible")
    return res


# ---- merkle --------------------------------------------------------------


def gen_merkle(rng: random.Random, tier: str) -> dict:
    n = rng.choice([0, 1, 2, 3, 4, 5, 7, 8, 9, 16, 33])
    keys = _dedupe([rng.choice(["k", "key", "a", "z", ""]) + str(rng.randrange(0, 40)) for _ in range(n)])
    vdom = rng.choice(["int", "int", "mixed", "struct"])

    STRUCT = [
        ["<tuple>", 3, 1, 4], [3, 1, 4], ["<tuple>"], [], ["<dict>", [[1, "x"]]], ["<dict>", [["1", "x"]]], ["<dict>", [[None, 0]]],
        ["<dict>", [["null", 0]]], ["<tuple>", ["<tuple>", 1], 2], [[1], 2], "[3, 1, 4]", "(3, 1, 4)",
    ]

    def val():
        # tombstones / placeholders are ordinary values (no bool / float: 1 == 1.0 == True would alias)
        if vdom == "int":
            return rng.randrange(0, 5)
        if vdom == "struct":
            return rng.choice(STRUCT)
        return rng.choice([None, None, "", "v", 0, 3, "None"])

    a = {k: val() for k in keys}
    b = dict(a)
    ops = []
    for _ in range(rng.choice([0, 0, 1, 1, 2, 3])):
        op = rng.choice(["change", "add", "remove", "swap"])
        if op == "change" and b:
            k = rng.choice(sorted(b))
            old = b[k]
            if vdom == "int":
                b[k] = old + 1 + rng.randrange(3)
            elif vdom == "struct":
                b[k] = rng.choice([x for x in STRUCT if x != old])
            else:
                b[k] = rng.choice([x for x in [None, "", "v", 0, 3, "None"] if x != old or type(x) is not type(old)])
        elif op == "add":
            k = rng.choice(["k", "a", "zz", "0", "m"]) + str(rng.randrange(40, 80))
            b[k] = val()
        elif op == "remove" and b:
            del b[rng.choice(sorted(b))]
        elif op == "swap" and len(b) >= 2:
            k1, k2 = rng.sample(sorted(b), 2)
            b[k1], b[k2] = b[k2], b[k1]
        ops.append(op)
    return {"kind": "merkle", "a": a, "b": b, "via_update": rng.choice([False, False, True, "from-empty"]), "ops": ops, "order_seed": rng.randrange(10**6), "caller_keeps_dict": rng.random() < 0.3}


def run_merkle(case: dict) -> Result:
    from happysimulator.sketching import MerkleTree

    res = Result()
    comp = "MerkleTree"

    def dec(v):
        # JSON encoding of structured values: ["<tuple>", ...] is a tuple, ["<dict>", [[k, v], ...]] a dict
        if isinstance(v, list):
            if v[:1] == ["<tuple>"]:
                return tuple(dec(x) for x in v[1:])
            if v[:1] == ["<dict>"]:
                return {k: dec(x) for k, x in v[1]}
            return [dec(x) for x in v]
        return v

    a = {k: dec(v) for k, v in case["a"].items()}
    b = {k: dec(v) for k, v in case["b"].items()}
    a_live = dict(a)
    ta = MerkleTree.build(a_live)
    if case.get("caller_keeps_dict") and a:
        # the caller goes on using its own dict; the tree is a snapshot and is maintained through update()/remove()
        a_live["zz-foreign-%d" % len(a_live)] = "foreign"
        k0 = sorted(a)[0]
        a_live[k0] = ["changed-by-the-caller"]
        del a_live[sorted(a)[-1]]
        k1 = sorted(a)[len(a) // 2]
        ta.update(k1, a[k1])  # same value: the tree must still describe map `a`
    if case["via_update"] == "from-empty":
        # maintained key by key from an empty tree, in an arbitrary order, some keys written twice
        tb = MerkleTree()
        items = list(b.items())
        random.Random(case.get("order_seed", 0)).shuffle(items)
        for k, v in items:
            tb.update(k, v)
        for k, v in items[: len(items) // 3]:
            tb.update(k, v)
    elif case["via_update"]:
        tb = MerkleTree.build(a)
        for k in list(a):
            if k not in b:
                tb.remove(k)
        for k, v in b.items():
            if a.get(k, object()) != v:
                tb.update(k, v)
    else:
        tb = MerkleTree.build(b)
    differing = sorted(k for k in set(a) | set(b) if a.get(k, "<absent>") != b.get(k, "<absent>"))
    for x, y, tag in ((ta, tb, "a.diff(b)"), (tb, ta, "b.diff(a)")):
        d = x.diff(y)
        res.count("queries_checked")
        if a == b:
            if d:
                res.add("diff-nonempty-for-equal-maps", comp, "equal-maps", f"{tag} -> {d}")
        else:
            if not d:
                res.add("diff-empty-for-unequal-maps", comp, _merkle_shape(a, b), f"{tag}; differing keys {differing}")
            for k in differing:
                if not any(r.contains(k) for r in d):
                    res.add(
                        "diff-misses-key",
                        comp,
                        _merkle_shape(a, b),
                        f"{tag}: key {k!r} differs but no range covers it; ranges {d}",
                    )
    if (ta.root_hash == tb.root_hash) != (a == b):
        res.add("root-hash-equality", comp, _merkle_shape(a, b), f"equal hashes={ta.root_hash == tb.root_hash} equal maps={a == b}")
    if differing:
        res.nontrivial = True
        res.count("unequal_pairs")
    return res


def _merkle_shape(a, b):
    if set(a) == set(b):
        return "same-keys-different-values"
    if len(a) == len(b):
        return "same-size-different-keys"
    return "different-sizes"


# ---- equal-but-differently-printed items, many sketches in one process -----


def gen_alias(rng: random.Random, tier: str) -> dict:
    """Keys that compare equal but are different objects to a sketch that identifies items by their printed form
    (("user", 7) / ("user", 7.0) / ("user", True)), used side by side, in several sketches of one process, with a
    large number of unrelated items hashed in between."""
    m = rng.choice([1, 3, 10, 40])
    base = [rng.randrange(0, 50) for _ in range(m)]
    return {
        "kind": rng.choice(["bloom", "cms"]),
        "base": base,
        "variant": rng.choice(["float", "bool-or-float", "neg-zero"]),
        "filler": rng.choice([0, 50, 600, 5000, 5000]),
        "filler_on_other_sketch": rng.random() < 0.5,
        "second_round": rng.random() < 0.5,
        "seed": rng.choice([None, 0, 7]),
    }


def run_alias(case: dict) -> Result:
    from happysimulator.sketching import BloomFilter, CountMinSketch

    res = Result()
    kind = case["kind"]

    def mk():
        if kind == "bloom":
            return BloomFilter(size_bits=1 << 17, num_hashes=3, seed=case["seed"])
        return CountMinSketch(width=4096, depth=3, seed=case["seed"])

    def variant(i):
        if case["variant"] == "float":
            return ("user", float(i))
        if case["variant"] == "neg-zero":
            return ("user", i, -0.0)
        return ("user", True) if i == 1 else ("user", float(i))

    def original(i):
        return ("user", i, 0.0) if case["variant"] == "neg-zero" else ("user", i)

    sk, other = mk(), mk()
    comp = type(sk).__name__
    truth = Counter()  # keyed by printed form: sound whether the sketch identifies items by repr or by equality

    def add(s, x):
        s.add(x)
        if s is sk:
            truth[repr(x)] += 1

    for i in case["base"]:
        add(sk, original(i))
    rounds = 2 if case["second_round"] else 1
    for r in range(rounds):
        target = other if case["filler_on_other_sketch"] else sk
        for j in range(case["filler"]):
            add(target, ("filler", r, j))
        # the differently printed equals: looked up here, inserted into the other sketch
        for i in case["base"]:
            (sk.contains if kind == "bloom" else sk.estimate)(variant(i))
            add(other, variant(i))
        for i in case["base"]:
            x = original(i)
            res.count("queries_checked")
            if kind == "bloom":
                if not sk.contains(x):
                    res.add("false-negative", comp, "equal-items-with-different-printed-form", f"{x!r} was inserted; contains() is False after {variant(i)!r} was used")
                    break
            elif sk.estimate(x) < truth[repr(x)]:
                res.add("underestimate", comp, "equal-items-with-different-printed-form", f"estimate({x!r})={sk.estimate(x)} < {truth[repr(x)]}")
                break
    res.nontrivial = case["filler"] >= 600
    if case["filler"] >= 5000:
        res.count("alias_cases_with_large_filler")
    return res


# ---- collector entities (components/sketching) driven by a simulation -----


def gen_collectors(rng: random.Random, tier: str) -> dict:
    n = rng.choice([1, 5, 30, 120])
    nuni = rng.choice([1, 2, 4, 9])
    return {
        "kind": "collectors",
        "k": rng.choice([1, 2, 3, 5]),
        "events": [[rng.randrange(nuni) if rng.random() < 0.95 else None, rng.choice([0, 0, 1, 1, 1, 2, 5]), round(rng.uniform(0, 50), 3)] for _ in range(n)],
        "weighted": rng.random() < 0.7,
    }


def run_collectors(case: dict) -> Result:
    from happysimulator.components.sketching import QuantileEstimator, SketchCollector, TopKCollector
    from happysimulator.core.event import Event
    from happysimulator.core.simulation import Simulation
    from happysimulator.core.temporal import Instant
    from happysimulator.sketching import CountMinSketch

    res = Result()
    weighted = case["weighted"]
    val = lambda e: e.context["metadata"]["v"]  # noqa: E731
    cnt = (lambda e: e.context["metadata"]["c"]) if weighted else None
    topk = TopKCollector("topk", k=case["k"], value_extractor=val, count_extractor=cnt)
    cms = SketchCollector("cms", sketch=CountMinSketch(width=8, depth=2, seed=1), value_extractor=val, weight_extractor=cnt)
    qe = QuantileEstimator("qe", value_extractor=lambda e: e.context["metadata"]["x"])
    sim = Simulation(entities=[topk, cms, qe], end_time=Instant.from_seconds(10.0 + len(case["events"])))
    truth, n_total, xs = Counter(), 0, []
    for i, (v, c, x) in enumerate(case["events"]):
        md = {"v": None if v is None else f"item-{v}", "c": c, "x": x}
        for target in (topk, cms, qe):
            sim.schedule(Event(time=Instant.from_seconds(0.01 * i), event_type="Obs", target=target, context={"metadata": dict(md)}))
        if v is not None:
            w = c if weighted else 1
            truth[md["v"]] += w
            n_total += w
        xs.append(x)
    sim.run()
    res.count("collector_events", 3 * len(case["events"]))
    for item, t in truth.items():
        res.count("queries_checked")
        if item in topk:
            d = topk.estimate(item) - t
            err = next((f.error for f in topk.top() if f.item == item), None)
            if d < 0 or (err is not None and d > err):
                res.add("error-bound", "TopKCollector", "event-driven-weighted" if weighted else "event-driven", f"item {item!r}: estimate {topk.estimate(item)}, true {t}, reported error {err}")
        elif t * case["k"] > n_total:
            res.add("heavy-hitter-untracked", "TopKCollector", "event-driven-weighted" if weighted else "event-driven", f"item {item!r} count {t} > N/k = {n_total}/{case['k']}")
        if cms.sketch.estimate(item) < t:
            res.add("underestimate", "SketchCollector", "event-driven-weighted" if weighted else "event-driven", f"estimate({item!r})={cms.sketch.estimate(item)} < {t}")
    if xs:
        prev = None
        for i in range(21):
            q = i / 20
            v = qe.quantile(q)
            res.count("queries_checked")
            if v < min(xs) - 1e-9 or v > max(xs) + 1e-9 or (prev is not None and v < prev - 1e-9):
                res.add("quantile-not-monotone" if prev is not None and v < prev - 1e-9 else "quantile-outside-min-max", "QuantileEstimator", "event-driven", f"quantile({q})={v}, previous {prev}, min {min(xs)} max {max(xs)}")
                break
            prev = v
    res.nontrivial = len(truth) > case["k"]
    return res


FAMILIES = {
    "collectors": Family("collectors", gen_collectors, run_collectors),
    "alias": Family("alias", gen_alias, run_alias),
    "bloom": Family("bloom", gen_freq("bloom"), run_freq),
    "cms": Family("cms", gen_freq("cms"), run_freq),
    "hll": Family("hll", gen_freq("hll"), run_freq),
    "topk": Family("topk", gen_freq("topk"), run_freq),
    "tdigest": Family("tdigest", gen_tdigest, run_tdigest),
    "reservoir": Family("reservoir", gen_reservoir, run_reservoir),
    "merkle": Family("merkle", gen_merkle, run_merkle),
}

BUDGET = {
    "quick": {"collectors": 400, "alias": 60, "bloom": 1000, "cms": 1000, "hll": 500, "topk": 1200, "tdigest": 1000, "reservoir": 600, "merkle": 1500},
    "thorough": {
        "collectors": 20000,
        "alias": 1500,
        "bloom": 40000,
        "cms": 40000,
        "hll": 10000,
        "topk": 60000,
        "tdigest": 40000,
        "reservoir": 20000,
        "merkle": 80000,
    },
}

"""C08  Queueing pipelines never lose, duplicate, misorder or strand work.

Two layers (see hsverif/c08_policy.py and hsverif/c08_pipe.py):

  policy      random push / pop / peek / tick / purge strings against every queue policy,
              judged by exact reference models (order, admission, peek) and model-free
              accounting (capacity, enqueued = dequeued + dropped + held, stats, is_empty)
  qr          tagged requests through Server (all concurrency models), ThreadPool, a user
              QueuedResource and a bare Queue + QueueDriver + worker
  industrial  ShiftedServer, RenegingQueuedResource, BalkingQueue-fronted servers,
              PooledCycleResource, BatchProcessor, ConveyorBelt, GateController
  topology    two-stage chains and router fan-outs of the above (servers feeding servers)
"""

from __future__ import annotations

import copy
import os
import random
import sys

from hsverif.core import Family, Result, ddmin

PID = "C08"
LEVEL = "exploration"
RULE = (
    "policy: random op strings (push with priority/deadline/flow, pop, peek, clock tick, purge) over every policy class "
    "with capacities None/1..8, judged by an exact reference model where the order is documented and by model-free "
    "accounting everywhere; non-trivial = some pop had >= 2 held items to choose from AND the policy was full, expired or "
    "dropped something, or held >= 3. pipelines: 1-24 uniquely tagged requests on a few instants (bursts on one nanosecond), "
    "each arriving directly or through 1-4 zero-delay relay hops, pre-run or run-created, service times 0-8 ticks of 125 ms so "
    "that completions coincide with later bursts, limits 1-6, every policy; ledger / limit sampled after every delivery, "
    "work conservation at every clock advance and at quiescence; non-trivial = at the end of some instant >= 2 items waited "
    "while the limit was >= 2 (or >= 2 held / buffered for gate, batch, conveyor, pool), or arrivals of different hop counts "
    "were delivered at one instant. Distinct by hash of the case."
)
ASSUMPTIONS = [
    "the harness RecordingPolicy (a QueuePolicy that delegates every call to the real policy) does not change behaviour",
    "attaching sim.control hooks selects the instrumented loop, assumed behaviourally equal (that is C04)",
    "end of an instant = the on_time_advance hook (plus one evaluation after run() returned); nothing is demanded mid-instant",
    "work conservation uses the worker's own has_capacity() report for the queue head (weight of the head for WeightedConcurrency); "
    "for ShiftedServer additionally the documented schedule",
    "Server / ThreadPool refusing a dequeued item and counting it (requests_rejected / tasks_rejected) is 'rejected-and-counted'",
    "CoDel, RED and probabilistic balking are judged on conservation, capacity and FIFO-subsequence only",
    "same-instant start order is not compared with pop order (only that a popped item starts within the instant)",
    "BatchProcessor and GateController are judged against their own documented release rule, not 'serve when free'",
]
MUST_OBSERVE = ["policy_ops", "instants_checked", "starts_checked", "conservation_checks"]


# --------------------------------------------------------------------------
# layer (a)


def gen_policy(rng: random.Random, tier: str) -> dict:
    from hsverif.c08_policy import gen_ops, gen_spec

    spec = gen_spec(rng)
    n = rng.choice([5, 10, 20, 40, 80])
    from hsverif.c08_pipe import BIG_ORIGINS_NS

    base = rng.choice(BIG_ORIGINS_NS) if rng.random() < 0.3 else 0
    return {"policy": spec, "ops": gen_ops(rng, n), "base_ns": base, "seed": rng.randrange(1 << 30)}


def run_policy(case: dict) -> Result:
    from happysimulator.core.temporal import Instant

    from hsverif.c08_policy import Item, PolicyAudit, attrs_of, build_policy
    from hsverif.c08_pipe import TICK_NS

    res = Result()
    random.seed(case["seed"])
    spec = case["policy"]
    base = int(case.get("base_ns", 0))  # clock origin: policies must order by integer ns at any absolute time
    clk = [base]
    policy = build_policy(spec, lambda: Instant(clk[0]))
    audit = PolicyAudit(spec, policy)
    for op in case["ops"]:
        k = op[0]
        if k == "push":
            _, iid, prio, dl, flow = op[:5]
            it = Item(iid, prio, base + max(0, dl) * TICK_NS + (op[5] if len(op) > 5 else 0), flow)
            before = len(policy)
            ok = policy.push(it)
            audit.on_push(attrs_of(it), ok, before, clk[0])
        elif k == "pop":
            before = len(policy)
            it = policy.pop()
            audit.on_pop(None if it is None else it.iid, before, clk[0])
        elif k == "peek":
            it = policy.peek()
            audit.on_peek(None if it is None else it.iid, clk[0])
        elif k == "tick":
            clk[0] += op[1] * TICK_NS
        elif k == "purge":
            if hasattr(policy, "purge_expired"):
                audit.on_purge(policy.purge_expired(), clk[0])
    for oracle, shape, detail in audit.violations:
        comp = audit.order_comp if (oracle in ("order", "peek") and audit.order_comp) else audit.comp
        res.add(oracle, comp, shape, detail)
    res.count("policy_ops", audit.ops)
    res.count("policy_pops_with_choice", 1 if audit.saw_order_choice else 0)
    res.seen("policies", audit.comp)
    if base:
        res.count("policy_cases_at_huge_absolute_time")
    res.nontrivial = audit.nontrivial()
    return res


_KNOWN_KEYS = None


def _only_known(family: str, case: dict) -> bool:
    """True when every violation of this case has the key of a recorded known finding:
    shrinking it again on every run would only burn the budget."""
    global _KNOWN_KEYS
    if _KNOWN_KEYS is None:
        from hsverif import findings as kf

        _KNOWN_KEYS = {kf.key_of(e) for e in kf.for_property(PID) if e.get("status") == "known"}
    if not _KNOWN_KEYS:
        return False
    res = FAMILIES[family].run(case)
    return bool(res.violations) and all(v.key() in _KNOWN_KEYS for v in res.violations)


def shrink_policy(case: dict, still_fails) -> dict:
    if _only_known("policy", case):
        return case
    ops = ddmin(case["ops"], lambda o: still_fails({**case, "ops": o}), max_tests=150)
    return {**case, "ops": ops}


# --------------------------------------------------------------------------
# layer (b)


def _gen_pipe(kinds, topo="single", balking=False):
    def gen(rng: random.Random, tier: str) -> dict:
        from hsverif.c08_pipe import gen_case
        from hsverif.c08_policy import gen_spec

        tp = topo if isinstance(topo, str) else rng.choice(topo)
        case = gen_case(rng, kinds, tp)
        if balking:
            for s in case["stages"]:
                if "policy" in s and rng.random() < 0.35:
                    s["policy"] = gen_spec(rng, ("balking",), for_events=True)
        return case

    return gen


def run_pipe(case: dict) -> Result:
    from hsverif.c08_pipe import run_pipeline

    return run_pipeline(case)


def shrink_pipe(case: dict, still_fails) -> dict:
    if _only_known("qr", case):  # all pipeline families share run_pipe
        return case
    cur = copy.deepcopy(case)

    def with_arr(arr):
        c = dict(cur)
        c["arrivals"] = arr
        return c

    cur["arrivals"] = ddmin(cur["arrivals"], lambda a: still_fails(with_arr(a)), max_tests=120)
    if cur.get("cancels"):
        for i in range(len(cur["cancels"]) - 1, -1, -1):
            trial = copy.deepcopy(cur)
            del trial["cancels"][i]
            if still_fails(trial):
                cur = trial
        for i in range(len(cur["cancels"])):
            if len(cur["cancels"][i]) > 2 and cur["cancels"][i][2]:
                trial = copy.deepcopy(cur)
                trial["cancels"][i][2] = 0
                if still_fails(trial):
                    cur = trial
    # simplify what is left, one knob at a time
    for i in range(len(cur["arrivals"])):
        for key, val in (("hops", 0), ("via", "pre"), ("patience", None), ("weight", 1), ("prio", 0), ("flow", "f0")):
            a = cur["arrivals"][i]
            if a.get(key) == val or key not in a:
                continue
            trial = copy.deepcopy(cur)
            trial["arrivals"][i][key] = val
            if still_fails(trial):
                cur = trial
    for key, val in (("keepalive", cur["keepalive"][-1:]),):
        trial = copy.deepcopy(cur)
        trial[key] = val
        if still_fails(trial):
            cur = trial
    for si, s in enumerate(cur["stages"]):
        for key, val in (("policy", {"kind": "fifo", "cap": None}), ("svc", s.get("svc", [1])[:1]), ("limit_changes", []), ("cmds", [])):
            if key not in s or s[key] == val:
                continue
            trial = copy.deepcopy(cur)
            trial["stages"][si][key] = val
            if still_fails(trial):
                cur = trial
    return cur


# ---- family qcap (round 8): Server built with its own `queue_capacity=` (no policy object handed in) ------------------
# Every other family hands the stage a RecordingPolicy, so the capacity a *constructor argument* gives the built-in
# FIFO queue was never exercised (C08-r8-2: `capacity=queue_capacity or inf` turned a server without waiting room,
# queue_capacity=0, into an unbounded one).  Model-free oracles: depth <= capacity after every delivery, a same-instant
# burst of n into an idle server completes at most min(n, c + q), and offered = completed + dropped at quiescence.


def gen_qcap(rng: random.Random, tier: str) -> dict:
    return {
        "conc": rng.choice([1, 1, 2, 3]),
        "qcap": rng.choice([0, 0, 1, 2, 3, 5, None]),
        "svc_ms": rng.choice([7, 40, 333]),
        "bursts": [{"at_ms": 1000 * i + rng.choice([0, 0, 13]), "n": rng.choice([1, 2, 3, 5, 8])} for i in range(rng.randint(1, 3))],
        "spacing_ms": rng.choice([0, 0, 0, 1]),
    }


def run_qcap(case: dict) -> Result:
    from happysimulator.components.server.server import Server
    from happysimulator.core.entity import Entity
    from happysimulator.core.event import Event
    from happysimulator.core.simulation import Simulation
    from happysimulator.core.temporal import Instant
    from happysimulator.distributions.constant import ConstantLatency

    res = Result()
    got: list = []

    class Sink(Entity):
        def handle_event(self, event):
            got.append(event.context.get("metadata", {}).get("tag"))
            return None

    sink = Sink("sink")
    c, q = case["conc"], case["qcap"]
    srv = Server("srv", concurrency=c, service_time=ConstantLatency(case["svc_ms"] / 1000.0), queue_capacity=q, downstream=sink)
    # bursts are 1 s apart and a burst drains in at most 8 * 0.333 s / 1 ... keep them apart: the server is idle before each
    sim = Simulation(entities=[srv, sink], end_time=Instant.from_seconds(60.0))
    tag = 0
    offered = 0
    expect_completed = 0
    t_cursor_ms = 0
    for b in case["bursts"]:
        t_cursor_ms = max(t_cursor_ms, b["at_ms"])
        for i in range(b["n"]):
            t = t_cursor_ms + i * case["spacing_ms"]
            sim.schedule(Event(time=Instant.from_seconds(t / 1000.0), event_type="req", target=srv, context={"metadata": {"tag": tag}}))
            tag += 1
        offered += b["n"]
        if case["spacing_ms"] == 0 or case["svc_ms"] >= 8:
            # nothing completes while the burst arrives: exactly the first c are served at once, q wait, the rest drop
            expect_completed += min(b["n"], c + (q if q is not None else b["n"]))
        else:
            expect_completed = None
        t_cursor_ms += 8 * case["svc_ms"] + 9 * 1000  # next burst only after this one has drained for sure
    worst = [0]

    def after(_ev):
        d = srv.depth
        res.count("depth_samples")
        if d > worst[0]:
            worst[0] = d

    sim.control.on_event(after)
    sim.run()
    res.count("events_monitored", offered)
    res.count("qcap_cases")
    res.seen("qcap_values", str(q))
    w = {"case": case}
    if q is not None and worst[0] > q:
        res.add("capacity", "Server", "wait-queue-above-constructor-capacity", f"queue depth reached {worst[0]} with queue_capacity={q}", w)
    completed = srv.stats.requests_completed
    dropped = srv.stats_dropped
    if len(set(got)) != len(got):
        res.add("duplicate", "Server", "constructor-capacity", f"a request reached the downstream twice: {sorted(got)}", w)
    if completed != len(got):
        res.add("accounting", "Server", "constructor-capacity", f"requests_completed={completed} but downstream received {len(got)}", w)
    if completed + dropped != offered or srv.depth or srv.active_requests:
        res.add("conservation", "Server", "constructor-capacity", f"offered={offered} completed={completed} dropped={dropped} depth={srv.depth} active={srv.active_requests} at quiescence", w)
    # upper bound only: the waiting room also holds, for the rest of the instant, the request the driver is about to
    # start, so fewer than c + q of a same-instant burst may get in (an exact count was tried first and was a false
    # alarm of this harness: see DESIGN section 8)
    if expect_completed is not None and completed > expect_completed:
        res.add("admission", "Server", "constructor-capacity-burst", f"bursts into an idle server with concurrency={c} queue_capacity={q}: completed={completed}, more than the {expect_completed} that concurrency + waiting room can take", w)
    res.nontrivial = any(b["n"] > c + (q if q is not None else 99) for b in case["bursts"])
    return res


FAMILIES = {
    "policy": Family("policy", gen_policy, run_policy, shrink=shrink_policy, case_timeout=60.0),
    "qr": Family("qr", _gen_pipe(("server", "server", "threadpool", "userqr", "rawqueue")), run_pipe, shrink=shrink_pipe, case_timeout=60.0),
    "industrial": Family(
        "industrial",
        _gen_pipe(("shifted", "reneging", "pooled", "batch", "conveyor", "gate", "server"), balking=True),
        run_pipe,
        shrink=shrink_pipe,
        case_timeout=60.0,
    ),
    "topology": Family(
        "topology",
        _gen_pipe(("server", "server", "userqr", "threadpool", "pooled", "conveyor", "gate", "batch", "shifted"), topo=("chain2", "chain2", "fan2")),
        run_pipe,
        shrink=shrink_pipe,
        case_timeout=60.0,
    ),
    "qcap": Family("qcap", gen_qcap, run_qcap, case_timeout=30.0),
}

BUDGET = {
    "quick": {"policy": 6000, "qr": 3000, "industrial": 3000, "topology": 1500, "qcap": 400},
    "thorough": {"policy": 300000, "qr": 200000, "industrial": 200000, "topology": 100000, "qcap": 20000},
}

# Interpreter start-up (importing happysimulator, 2-4 s) dominates the cost of a shard, a case takes
# 1-2 ms: use few, large shards.  The runner reads `shard_size` from the family object.
_THOROUGH = "thorough" in sys.argv or os.environ.get("VERIF_TIER") == "thorough"
for _f in FAMILIES.values():
    _f.shard_size = 5000 if _THOROUGH else 750

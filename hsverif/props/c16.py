"""C16  Caches stay within capacity, never lose writes, respect staleness bounds.

Monitor shape: client processes inside real simulations drive the real cache
classes; every operation is recorded at the client boundary (call / return
instants) and the cache's public state is sampled after every generator step
and after every delivery.  Oracles (hsverif/c16_mon.py):

  over-capacity            cache_size > capacity after any delivery
  policy-keys-diverge      keys drained from a deep copy of the eviction policy != get_cached_keys()
  stale-read               interval rule: a read issued after a write to the key completed returns an older value
  writeback-discarded      a dirty key left the cache and its value never reached the backing store
  lost-write-after-flush   after the final flush() the backing store lacks the latest value of a key
  hard-ttl-exceeded        soft-TTL cache served a value that stopped being current more than hard_ttl before the read
  library-exception        a cache operation raised (page cache under concurrent eviction)
  lost-page-write          page cache dirty accounting: pages with a completed write_page() since the last quiescent flush
                           outnumber dirty pages + write-backs since; a quiescent flush() miscounts
"""

from __future__ import annotations

import random

from hsverif.core import Family, Result, ddmin
from hsverif.probe import EngineProbe, quiet_library_logging

from hsverif.c16_mon import Mon, Tier  # noqa: E402  (probe import put HS_REPO on sys.path)

PID = "C16"
LEVEL = "exploration"
RULE = (
    "Generated client programs (2-4 client processes plus optional CacheWarmer - for CachedStore working on the real cache during the run, "
    "restarted by `warm` ops -; a `longhot` profile with 300-600 accesses to one key; explicit op lists with start offsets "
    "and inter-op gaps on a sub-millisecond grid so that operations of different clients overlap) run inside real "
    "Simulations under EngineProbe caps against: CachedStore x nine eviction policies x write-through/write-back, "
    "capacity 1-3 over 4-6 keys, ops get/put/delete/invalidate/invalidate_all/flush/direct-backing-write+invalidate; "
    "MultiTierCache (L1/L2 CachedStores, each promotion policy, L2 pre-warmed); SoftTTLCache (soft/hard TTL, gaps aimed at "
    "both TTL edges - also at huge absolute times (start_time 1e7 / 1.7e9 / 4e9 s + odd ns) with non-dyadic TTLs and probes placed "
    "in integer ns within +-300 ns of the expiry instants -, direct backing writes, concurrent refreshes); PageCache (rounds: mixed clean/dirty residents, then overlapping "
    "read_page/write_page of one page during the dirty-victim write-back, flush at quiescence; plus free-running read/write/flush, read-ahead). "
    "Written values are unique tagged ids, except that ~22 % of writes store the key's falsy value (0, '', False, 0.0, [], {}) and ~3 % None "
    "(compared type-exactly through a canonical token). Non-trivial: cached/multitier - the run had >=1 eviction and >=1 miss-fill (or "
    "promotion) whose interval overlapped a write to the same key; softttl - >=1 stale hit, >=1 access to an expired "
    "entry and >=1 backing-store change while the key was cached; pagecache - >=1 eviction and >=2 loads in flight at once. "
    "Distinct by hash of the case."
)
ASSUMPTIONS = [
    "KVStore (the backing store) applies a read/write at the end of its latency and is itself correct (C14 covers stores)",
    "a direct backing-store write counts as a write the cache must reflect only when paired with invalidate(key) in the same "
    "instant (cached/multitier families); unpaired direct writes (softttl family) are bounded by the hard TTL only",
    "same-nanosecond ties between a write's completion and a read's issue are treated as concurrent (strict < in the interval rule)",
    "entry age is bounded from below by issue time minus the instant the served value stopped being current in the backing store "
    "(no private cached_at is read), so a hard-TTL overrun smaller than the gap between fetch and overwrite is not visible",
    "eviction policies are observed through a deep copy; TTLEviction is given the simulation clock as clock_func",
    "a stored None is indistinguishable from an absent key for a reader (that is what HEAD implements), so put(k, None) is modelled "
    "as a write of None like a delete; falsy values repeat within a key history, so a read of one is accepted if ANY write of that "
    "value is an allowed answer",
    "invalidate(k)/invalidate_all() on a dirty key of a write-back CachedStore is an explicit request to drop unflushed data "
    "(documented contract; MultiTierCache.put relies on it): the harness skips such an invalidation and counts it",
    "a stale read / final loss is labelled with the earliest unrefuted explanatory fact on the key; a second defect on the same "
    "key behind an earlier one would carry the earlier label",
]
MUST_OBSERVE = ["reads_checked", "capacity_checks", "policy_drains", "ttl_reads_checked", "final_keys_checked", "dirty_accounting_checks"]

quiet_library_logging()

POLICIES = ["lru", "lfu", "ttl", "fifo", "random", "slru", "sampled_lru", "clock", "two_queue"]
MS = 0.001


# --------------------------------------------------------------------------
# builders


def mk_policy(spec: dict, nowf):
    from happysimulator.components.datastore import eviction_policies as ep

    n = spec["name"]
    if n == "lru":
        return ep.LRUEviction()
    if n == "lfu":
        return ep.LFUEviction()
    if n == "ttl":
        return ep.TTLEviction(ttl=spec["ttl"], clock_func=nowf)
    if n == "fifo":
        return ep.FIFOEviction()
    if n == "random":
        return ep.RandomEviction(seed=spec["seed"])
    if n == "slru":
        return ep.SLRUEviction(protected_ratio=spec["ratio"])
    if n == "sampled_lru":
        return ep.SampledLRUEviction(sample_size=spec["sample"], seed=spec["seed"])
    if n == "clock":
        return ep.ClockEviction()
    if n == "two_queue":
        return ep.TwoQueueEviction(kin_ratio=spec["ratio"])
    raise KeyError(n)


def gen_policy(rng: random.Random, name=None) -> dict:
    n = name or rng.choice(POLICIES)
    spec = {"name": n}
    if n == "ttl":
        spec["ttl"] = rng.choice([0.001, 0.004, 0.01, 0.05, 10.0])
    if n in ("random", "sampled_lru"):
        spec["seed"] = rng.randrange(1000)
    if n == "sampled_lru":
        spec["sample"] = rng.choice([1, 2, 5])
    if n in ("slru", "two_queue"):
        spec["ratio"] = rng.choice([0.1, 0.25, 0.5, 0.8])
    return spec


WRITE_KINDS = ("put", "bput", "bput_raw")


def falsy_value(ki: int):
    """The falsy value of a key (one flavour per key, a fresh object every time): 0, "", False, 0.0, [], {}."""
    return [0, "", False, 0.0, [], {}][ki % 6]


def op_value(cid, j, op):
    """Value written by op j of client cid: a unique tagged id, or - op[3] - the key's falsy value / None."""
    tag = op[3] if len(op) > 3 else None
    if tag == "falsy":
        return falsy_value(op[2])
    if tag == "none":
        return None
    return f"v{cid}.{j}"


def init_value(spec, k, ki):
    """Initial backing-store content of key k: absent (False), tagged id (True) or the key's falsy value ("falsy")."""
    if spec == "falsy":
        return True, falsy_value(ki)
    return bool(spec), f"i.{k}"


def _init_spec(rng, p_present):
    if rng.random() >= p_present:
        return False
    return "falsy" if rng.random() < 0.15 else True


def _sprinkle_values(rng, clients):
    """Mark some writes as falsy / None (4th op element); the others keep unique tagged ids, so most reads stay
    attributable to one write while every key history also contains falsy values."""
    for c in clients:
        for op in c["ops"]:
            if op[1] in WRITE_KINDS and len(op) == 3 and op[2] is not None:
                x = rng.random()
                if x < 0.22:
                    op.append("falsy")
                elif x < 0.25:
                    op.append("none")


def _entities():
    from happysimulator.core.entity import Entity
    from happysimulator.core.event import Event
    from happysimulator.core.temporal import Instant

    return Entity, Event, Instant


class _Ctx:
    """Shared between the client entities of one case."""

    def __init__(self, mon, nclients):
        self.mon = mon
        self.remaining = nclients
        self.finalizer = None
        self.warmer = None


def make_client_classes():
    Entity, Event, Instant = _entities()

    class Client(Entity):
        def __init__(self, name, ctx, cid, ops, keys):
            super().__init__(name)
            self.ctx, self.cid, self.ops, self.keys = ctx, cid, ops, keys

        def handle_event(self, event):
            mon = self.ctx.mon
            for j, op in enumerate(self.ops):
                gap, kind = op[0], op[1]
                key = self.keys[op[2]] if len(op) > 2 and op[2] is not None else None
                yield gap
                if kind == "warm":
                    # (re)start the CacheWarmer from inside the run: its event is stamped with the current time
                    w = self.ctx.warmer
                    if w is not None:
                        mon.res.count("warm_rounds_started")
                        yield 0.0, [w.start_warming()]
                    continue
                val = op_value(self.cid, j, op) if kind in WRITE_KINDS else None
                yield from mon.do(self.cid, kind, key, val)
            self.ctx.remaining -= 1
            if self.ctx.remaining == 0 and self.ctx.finalizer is not None:
                return [Event(time=self.now, event_type="c16_final", target=self.ctx.finalizer)]
            return None

    class Finalizer(Entity):
        """After every client is done: final flush, backing-store check, one read of every key through the cache."""

        def __init__(self, name, ctx, keys, do_flush, settle):
            super().__init__(name)
            self.ctx, self.keys, self.do_flush, self.settle = ctx, keys, do_flush, settle
            self.ran = False

        def handle_event(self, event):
            mon = self.ctx.mon
            w = self.ctx.warmer
            guard = 0
            while w is not None and not w.is_complete and guard < 2000:
                guard += 1
                yield 0.005
            yield self.settle
            if self.do_flush:
                yield from mon.do("F", "flush")
                yield self.settle
            mon.snapshot_final_backing("lost-write-after-flush" if self.do_flush else "lost-write")
            for k in self.keys:
                yield from mon.do("F", "get", k)
            self.ran = True

        # entity has no reaction to other events

    return Client, Finalizer


BIG_T0_S = [10_000_000, 1_700_000_000, 4_000_000_000]


def _gen_t0(rng, p_big=0.3):
    """Simulation start time in integer ns: mostly 0, otherwise a huge absolute time (115 days, Unix-epoch 2023, 2096)
    plus an odd nanosecond offset, where float seconds can no longer resolve nanoseconds."""
    if rng.random() >= p_big:
        return 0
    return rng.choice(BIG_T0_S) * 1_000_000_000 + rng.choice([0, 1, 37, 111, 259, 777, 123_456_789])


def _start_ns(case, c):
    """Absolute start instant of a client in integer ns: t0 + exact `start_ns` offset, or the float-seconds `start`."""
    off = c["start_ns"] if "start_ns" in c else round(c["start"] * 1_000_000_000)
    return int(case.get("t0_ns", 0)) + int(off)


def _run_sim(entities, starts, mon, res, instant_cap=5000, total_cap=60000, t0_ns=0):
    """Build the Simulation, install the sampling hook, run under probe caps."""
    from happysimulator.core.simulation import Simulation

    from happysimulator.core.temporal import Instant

    sim = Simulation(start_time=Instant(int(t0_ns)), entities=entities) if t0_ns else Simulation(entities=entities)
    sim.control.on_event(mon.on_delivery)
    for ev in starts:
        sim.schedule(ev)
    with EngineProbe(log_deliveries=False, instant_cap=instant_cap, total_cap=total_cap, record_emissions=False) as p:
        status = p.run(sim)
    res.count("events_monitored", p.n_deliveries)
    if status != "completed":
        res.inconclusive = f"engine probe status {status}"
    return status


def _finish(mon: Mon, res: Result, check_reads=True, ttl=False):
    incomplete = [r for r in mon.hist if r["end"] is None]
    if incomplete and not res.inconclusive:
        res.inconclusive = f"{len(incomplete)} operations never returned"
    mon.evaluate_discards()
    mon.check_final_backing()
    for r in mon.hist:
        if r["kind"] == "get" and r["end"] is not None:
            if check_reads:
                mon.check_read(r)
            if ttl:
                mon.check_hard_ttl(r)
    res.count("ops_completed", sum(1 for r in mon.hist if r["end"] is not None))


def _known_keys():
    try:
        from hsverif import findings as kf

        return {kf.key_of(e) for e in kf.for_property(PID) if e.get("status") == "known"}
    except Exception:  # noqa: BLE001
        return set()


_SHRINK_STATE = {"done": 0}
_MAX_SHRINKS_PER_SHARD = 2


def _make_shrinker(family_name):
    def shrink(case, still_fails):
        # one replay file is written per mechanism key, so shrinking every failing case of a shard is wasted work
        # (and, when an edit breaks most cases, it is what makes the quick tier slow)
        if _SHRINK_STATE["done"] >= _MAX_SHRINKS_PER_SHARD:
            return case
        # Shrinking is best effort and costs ~100 re-runs: skip it when every violation of the case
        # already has a pinned (small) witness in known_findings.d/C16.json.
        import os

        if os.environ.get("C16_NOSHRINK"):
            return case
        known = _known_keys()
        if known:
            r = FAMILIES[family_name].run(case)
            if r.violations and all(v.key() in known for v in r.violations):
                return case
        _SHRINK_STATE["done"] += 1
        return _shrink_clients(case, still_fails)

    return shrink


def _shrink_clients(case, still_fails):
    """ddmin over the flattened (client, op) list, then try dropping optional parts."""
    flat = [(ci, j) for ci, c in enumerate(case["clients"]) for j in range(len(c["ops"]))]

    def build(items):
        c2 = dict(case)
        keep = set(items)
        c2["clients"] = [
            {**c, "ops": [op for j, op in enumerate(c["ops"]) if (ci, j) in keep]} for ci, c in enumerate(case["clients"])
        ]
        return c2

    best = ddmin(flat, lambda items: still_fails(build(items)), max_tests=120)
    out = build(best)
    for opt in ("warmer", "prewarm"):
        if out.get(opt):
            c3 = dict(out)
            c3[opt] = None if opt == "warmer" else []
            if still_fails(c3):
                out = c3
    return out


# --------------------------------------------------------------------------
# workload generation shared by the store-like families


def _gap(rng):
    g = rng.choice([0.0, 0.0, 0.0005, 0.001, 0.001, 0.002, 0.003, 0.005, 0.008])
    if rng.random() < 0.25:
        g += rng.randrange(0, 1000) * 1e-6
    return round(g, 7)


def _lat(rng):
    return {
        "cache": rng.choice([0.0, 0.0001, 0.0001, 0.0005, 0.001]),
        "read": rng.choice([1, 2, 3, 5]) * MS,
        "write": rng.choice([1, 2, 4, 6, 8]) * MS,
        "delete": rng.choice([None, 1 * MS, 3 * MS, 7 * MS]),
    }


def _ops(rng, n, nkeys, hot, weights):
    kinds = list(weights)
    w = [weights[k] for k in kinds]
    out = []
    for _ in range(n):
        kind = rng.choices(kinds, w)[0]
        ki = hot if rng.random() < 0.5 else rng.randrange(nkeys)
        if kind in ("invall", "flush"):
            out.append([_gap(rng), kind, None])
        else:
            out.append([_gap(rng), kind, ki])
    return out


def _race_block(rng, nkeys, hot, wkinds):
    """Two short scripts aimed at one key: a miss-fill on one client while the other writes."""
    a = [[0.0, "inv", hot], [_gap(rng), "get", hot], [_gap(rng), "get", hot]]
    b = [[_gap(rng), rng.choice(wkinds), hot], [_gap(rng), "get", (hot + 1) % nkeys], [_gap(rng), "get", hot]]
    return a, b


def _overlap_block(rng, nkeys, hot, cap):
    """Scripted overlap of two or three writes to ONE key from different clients (second issued before the
    first has reached the backing store), the key leaving the cache after the last of them was issued (explicit
    invalidate, or `cap` puts to other keys), and several miss-reads whose backing-store read lands before / between /
    after the landings of the writes.  Every scripted op sits on its own client with an absolute start time.
    Returns (clients, lat)."""
    rl = rng.choice([1, 2]) * MS
    wl = rng.choice([6, 8, 12]) * MS
    dl = rng.choice([None, None, 4 * MS, 10 * MS])
    lat = {"cache": rng.choice([0.0, 0.0001, 0.0005]), "read": rl, "write": wl, "delete": dl}
    kinds = rng.choice([["put", "put"], ["put", "put"], ["put", "put"], ["put", "delete"], ["delete", "put"], ["put", "put", "put"], ["put", "delete", "put"]])
    t0 = rng.choice([0.0, 0.0005, 0.001])
    starts, t = [], t0
    for i, _k in enumerate(kinds):
        if i:
            t += rng.choice([0.0005, 0.001, 0.002, 0.003, 0.25 * wl, 0.5 * wl]) + (rng.randrange(0, 500) * 1e-6 if rng.random() < 0.3 else 0.0)
        starts.append(round(t, 7))
    lands = [round(st + (wl if k == "put" else (dl if dl is not None else wl)), 7) for st, k in zip(starts, kinds)]
    clients = [{"start": st, "ops": [[0.0, k, hot]]} for st, k in zip(starts, kinds)]
    # the key leaves the cache after the last write was issued
    te = round(starts[-1] + rng.choice([0.0001, 0.0003, 0.0005]), 7)
    how = rng.choice(["inv", "inv", "pressure", "pressure", "pressure"])
    if how == "inv":
        clients.append({"start": te, "ops": [[0.0, "inv", hot]]})
    else:
        others = [k for k in range(nkeys) if k != hot]
        rng.shuffle(others)
        for k in others[: min(cap, len(others))]:
            clients.append({"start": te, "ops": [[0.0, rng.choice(["put", "put", "get"]), k]]})
    # miss-reads: store read lands at (issue + rl); aim before the first landing, between landings, after the last
    lo, hi = min(lands), max(lands)
    targets = [lo - rng.choice([0.0001, 0.0005]), lo + rng.random() * (hi - lo), lo + rng.random() * (hi - lo), hi + rng.choice([0.0001, 0.0005, 0.001])]
    if len(lands) > 2:
        mid = sorted(lands)[1]
        targets.append(mid + rng.choice([-0.0002, 0.0002]))
    rng.shuffle(targets)
    for tg in targets[: rng.randint(2, len(targets))]:
        issue = round(max(te + 0.00005, tg - rl), 7)
        follow = [[_gap(rng), "get", hot]] if rng.random() < 0.6 else []
        clients.append({"start": issue, "ops": [[0.0, "get", hot], *follow]})
    return clients, lat


# --------------------------------------------------------------------------
# family: cached  (CachedStore x policy x write mode, optional CacheWarmer)


def gen_cached(rng: random.Random, tier: str) -> dict:
    nkeys = rng.randint(4, 6)
    cap = rng.randint(1, 3) if rng.random() < 0.9 else nkeys
    wt = rng.random() < 0.5
    profile = rng.choices(["mixed", "race", "sequential", "overlap", "longhot"], [36, 18, 18, 20, 6])[0]
    nclients = rng.randint(2, 4)
    hot = rng.randrange(nkeys)
    weights = {"get": 36, "put": 30, "delete": 8, "inv": 7, "invall": 2, "flush": 6 if not wt else 1, "bput": 4, "bdel": 1}
    if rng.random() < 0.35:
        # keep the explicit-discard operations out of some write-back cases so other mechanisms stay visible
        weights["inv"] = weights["invall"] = weights["bput"] = weights["bdel"] = 0
    clients = []
    for ci in range(nclients):
        n = rng.randint(4, 12)
        ops = _ops(rng, n, nkeys, hot, weights)
        start = round(rng.choice([0.0, 0.0, 0.0005, 0.001, 0.002, 0.0037]) + (rng.randrange(0, 100) * 1e-5 if rng.random() < 0.3 else 0.0), 7)
        clients.append({"start": start, "ops": ops})
    if profile == "race" and nclients >= 2:
        a, b = _race_block(rng, nkeys, hot, ["put", "put", "delete"])
        clients[0]["ops"] = a + clients[0]["ops"]
        clients[1]["ops"] = b + clients[1]["ops"]
    lat = _lat(rng)
    if profile == "overlap":
        if rng.random() < 0.6:
            wt = True
        block, lat = _overlap_block(rng, nkeys, hot, cap)
        # the scripted clients come first; the random clients start while the writes are in flight or after them
        for c in clients[: rng.randint(0, 2)]:
            c["start"] = round(c["start"] + rng.choice([0.0, 0.004, 0.02]), 7)
            block.append(c)
        clients = block
    if profile == "sequential":
        t = 0.0
        for c in clients:
            c["start"] = round(t, 6)
            t += 0.05 + len(c["ops"]) * 0.03
    if profile == "longhot":
        # one very hot key: 300-600 accesses to it while a few cold residents sit in the cache with a single access,
        # then a few insertions of new keys (evictions); every policy; the policy-vs-held key sets are compared after
        # every delivery.  Long-run bookkeeping of the policies (counter aging, clock hands, queues) is what this reaches.
        cap = rng.randint(2, 3)
        cold = [k for k in range(nkeys) if k != hot]
        rng.shuffle(cold)
        ops = [[0.0, rng.choice(["get", "put"]), k] for k in cold[: cap - 1]]
        ops.append([0.0, "put", hot])
        for _ in range(rng.randint(300, 600)):
            ops.append([0.0, "get" if rng.random() < 0.93 else "put", hot])
        for k in cold[cap - 1 :] + cold[:1]:
            ops.append([0.0005, rng.choice(["get", "put"]), k])
        ops += [[0.0, "get", hot], [0.0, "get", cold[0]]]
        clients = [{"start": 0.0, "ops": ops}] + clients[: rng.randint(0, 1)]
        if len(clients) > 1:
            clients[1]["start"] = round(0.2 + clients[1]["start"], 7)
            clients[1]["ops"] = [op for op in clients[1]["ops"] if op[1] not in ("invall", "inv", "delete", "bdel", "bput")]
        lat["cache"] = rng.choice([0.0, 0.0001])
    warmer = None
    if rng.random() < 0.25 and profile != "longhot":
        # CacheWarmer working on the real CachedStore DURING the run: several warm rounds started by `warm` client ops,
        # the hot key several times in the list (other keys in between evict it again), latencies comparable to the write gaps
        others = [k for k in range(nkeys) if k != hot]
        ks = []
        for _ in range(rng.randint(2, 5)):
            ks.append(hot)
            if rng.random() < 0.7:
                ks.append(rng.choice(others))
        warmer = {"keys": ks, "rate": rng.choice([100.0, 500.0, 2000.0]), "latency": rng.choice([0.001, 0.003, 0.008]), "inside": True}
        clients[0]["ops"].insert(0, [0.0, "warm", None])
        for _ in range(rng.randint(1, 3)):
            c = rng.choice(clients)
            c["ops"].insert(rng.randrange(len(c["ops"]) + 1), [_gap(rng), "warm", None])
    _sprinkle_values(rng, clients)
    t0_ns = _gen_t0(rng, 0.2)
    return {
        "t0_ns": t0_ns,
        "policy": gen_policy(rng),
        "write_through": wt,
        "capacity": cap,
        "nkeys": nkeys,
        "lat": lat,
        "init": [_init_spec(rng, 0.7) for _ in range(nkeys)],
        "profile": profile,
        "clients": clients,
        "warmer": warmer,
    }


def run_cached(case: dict) -> Result:
    from happysimulator.components.datastore import CachedStore, KVStore
    from happysimulator.components.datastore.cache_warming import CacheWarmer

    Entity, Event, Instant = _entities()
    Client, Finalizer = make_client_classes()
    res = Result()
    keys = [f"k{i}" for i in range(case["nkeys"])]
    lat = case["lat"]
    backing = KVStore("backing", read_latency=lat["read"], write_latency=lat["write"], delete_latency=lat["delete"])
    init = {}
    for ki, (k, spec) in enumerate(zip(keys, case["init"])):
        present, v0 = init_value(spec, k, ki)
        if present:
            init[k] = v0
            backing.put_sync(k, v0)
    policy = mk_policy(case["policy"], lambda: backing.now.to_seconds())
    store = CachedStore(
        "cache",
        backing_store=backing,
        cache_capacity=case["capacity"],
        eviction_policy=policy,
        cache_read_latency=lat["cache"],
        write_through=case["write_through"],
    )
    wb = not case["write_through"]
    tiers = [Tier("cache", store, policy, case["policy"]["name"], write_back=wb)]
    mon = Mon(res, "CachedStore", store, backing, keys, tiers, init)
    mon.order_put_delete = bool(case["write_through"])
    ctx = _Ctx(mon, len(case["clients"]))
    clients = [Client(f"client{ci}", ctx, ci, c["ops"], keys) for ci, c in enumerate(case["clients"])]
    settle = 4 * max(lat["read"], lat["write"], lat["delete"] or 0.0) + 0.01
    fin = Finalizer("final", ctx, keys, do_flush=wb, settle=settle)
    ctx.finalizer = fin
    entities = [backing, store, fin, *clients]
    starts = [Event(time=Instant(_start_ns(case, c)), event_type="c16_go", target=cl) for c, cl in zip(case["clients"], clients)]
    if case.get("warmer"):
        wspec = case["warmer"]

        class WarmView:
            """What CacheWarmer sees as `cache`: get() delegated through the recorder."""

            def get(self, key):
                return mon.do("W", "get", key)

        # "inside": the warmer gets the real CachedStore (whatever API it chooses to use on it is what is tested) and is
        # (re)started by `warm` client ops during the run; its reads are then not recorded at the client boundary.
        inside = bool(wspec.get("inside"))
        warmer = CacheWarmer("warmer", cache=store if inside else WarmView(), keys_to_warm=[keys[i] for i in wspec["keys"]], warmup_rate=wspec["rate"], warmup_latency=wspec["latency"])
        ctx.warmer = warmer
        entities.append(warmer)
        if not inside:
            starts.append(warmer.start_warming())
    _run_sim(entities, starts, mon, res, t0_ns=case.get("t0_ns", 0))
    if not fin.ran and not res.inconclusive:
        res.inconclusive = "finalizer did not run"
    _finish(mon, res)
    st = store.stats
    res.count("evictions", st.evictions)
    res.count("miss_fills", sum(1 for r in mon.hist if r.get("fill")))
    overl = sum(1 for r in mon.hist if r.get("fill_overlap"))
    res.count("fills_overlapping_write", overl)
    res.count("writebacks", st.writebacks)
    if ctx.warmer is not None:
        res.count("warmer_keys", ctx.warmer.stats.keys_warmed + ctx.warmer.stats.keys_failed)
    res.seen("policy_mode", f"{case['policy']['name']}/{'wt' if case['write_through'] else 'wb'}")
    res.nontrivial = st.evictions >= 1 and overl >= 1
    return res


# --------------------------------------------------------------------------
# family: multitier


def gen_multitier(rng: random.Random, tier: str) -> dict:
    nkeys = rng.randint(4, 6)
    hot = rng.randrange(nkeys)
    nclients = rng.randint(2, 4)
    weights = {"get": 45, "put": 24, "delete": 12, "inv": 5, "invall": 2, "l2get": 8, "bput": 3, "bdel": 1}
    clients = []
    for ci in range(nclients):
        ops = _ops(rng, rng.randint(4, 12), nkeys, hot, weights)
        clients.append({"start": round(0.05 + rng.choice([0.0, 0.0, 0.0005, 0.001, 0.002, 0.0037]), 7), "ops": ops})
    if rng.random() < 0.4 and nclients >= 2:
        a, b = _race_block(rng, nkeys, hot, ["put", "delete", "delete"])
        if rng.random() < 0.5:
            a[0] = [0.0, "l2get", hot]  # make the racing read an L2 hit (promotion) instead of a miss
        clients[0]["ops"] = a + clients[0]["ops"]
        clients[1]["ops"] = b + clients[1]["ops"]
    lat = _lat(rng)
    if rng.random() < 0.25:
        # overlapping writes to one key from different clients, the key leaving L1 in between, misses landing between the landings
        block, lat = _overlap_block(rng, nkeys, hot, 2)
        for c in block:
            c["start"] = round(c["start"] + 0.05, 7)
        clients = block + clients[: rng.randint(0, 2)]
    _sprinkle_values(rng, clients)
    return {
        "t0_ns": _gen_t0(rng, 0.2),
        "promotion": rng.choice(["always", "on_second_access", "never"]),
        "l1": {"policy": gen_policy(rng), "capacity": rng.randint(1, 2), "latency": rng.choice([0.0, 0.0001, 0.0005]), "write_through": rng.random() < 0.85},
        "l2": {"policy": gen_policy(rng), "capacity": rng.randint(2, 4), "latency": rng.choice([0.0005, 0.001, 0.002]), "write_through": True},
        "nkeys": nkeys,
        "lat": lat,
        "init": [_init_spec(rng, 0.8) for _ in range(nkeys)],
        "prewarm": [rng.randrange(nkeys) for _ in range(rng.randint(0, 4))],
        "clients": clients,
    }


def run_multitier(case: dict) -> Result:
    from happysimulator.components.datastore import CachedStore, KVStore, MultiTierCache

    Entity, Event, Instant = _entities()
    Client, Finalizer = make_client_classes()
    res = Result()
    keys = [f"k{i}" for i in range(case["nkeys"])]
    lat = case["lat"]
    backing = KVStore("backing", read_latency=lat["read"], write_latency=lat["write"], delete_latency=lat["delete"])
    init = {}
    for ki, (k, spec) in enumerate(zip(keys, case["init"])):
        present, v0 = init_value(spec, k, ki)
        if present:
            init[k] = v0
            backing.put_sync(k, v0)
    nowf = lambda: backing.now.to_seconds()  # noqa: E731
    tiers = []
    for label in ("l1", "l2"):
        spec = case[label]
        pol = mk_policy(spec["policy"], nowf)
        st = CachedStore(label, backing_store=backing, cache_capacity=spec["capacity"], eviction_policy=pol, cache_read_latency=spec["latency"], write_through=spec["write_through"])
        # MultiTierCache.put writes the backing store before L1, so L1's dirty data is never the only copy:
        # the dirty-drop monitor is not applied to the tiers (write_back=False here only switches that monitor off)
        tiers.append(Tier(label, st, pol, spec["policy"]["name"], write_back=False))
    multi = MultiTierCache("multi", tiers=[t.store for t in tiers], backing_store=backing, promotion_policy=case["promotion"])
    mon = Mon(res, "MultiTierCache", multi, backing, keys, tiers, init)
    mon.order_put_delete = bool(case["l1"]["write_through"])
    ctx = _Ctx(mon, len(case["clients"]) + 1)
    pre_ops = [[0.0, "l2get", ki] for ki in case.get("prewarm") or []]
    clients = [Client(f"client{ci}", ctx, ci, c["ops"], keys) for ci, c in enumerate(case["clients"])]
    prewarmer = Client("prewarm", ctx, "P", pre_ops, keys)
    settle = 4 * max(lat["read"], lat["write"], lat["delete"] or 0.0) + 0.01
    fin = Finalizer("final", ctx, keys, do_flush=False, settle=settle)
    ctx.finalizer = fin
    entities = [backing, multi, *[t.store for t in tiers], fin, prewarmer, *clients]
    starts = [Event(time=Instant(int(case.get("t0_ns", 0))), event_type="c16_go", target=prewarmer)]
    starts += [Event(time=Instant(_start_ns(case, c)), event_type="c16_go", target=cl) for c, cl in zip(case["clients"], clients)]
    _run_sim(entities, starts, mon, res, t0_ns=case.get("t0_ns", 0))
    if not fin.ran and not res.inconclusive:
        res.inconclusive = "finalizer did not run"
    _finish(mon, res)
    ev = sum(t.store.stats.evictions for t in tiers)
    res.count("evictions", ev)
    res.count("promotions", multi.stats.promotions)
    overl = sum(1 for r in mon.hist if r.get("fill_overlap")) + sum(1 for k in keys for f in mon.facts[k] if f[1] == "promotion-overlaps-write")
    res.count("fills_overlapping_write", overl)
    res.seen("promotion", case["promotion"])
    res.nontrivial = ev >= 1 and overl >= 1
    return res


# --------------------------------------------------------------------------
# family: softttl


def gen_softttl(rng: random.Random, tier: str) -> dict:
    nkeys = rng.randint(1, 3)
    lat = _lat(rng)
    lat["delete"] = None
    if rng.random() < 0.4:
        lat["read"] = rng.choice([8, 12, 20]) * MS  # read latency comparable to the TTLs
    soft = rng.choice([0.0, 0.005, 0.01, 0.02, 0.03])
    hard = soft + rng.choice([0.0, 0.005, 0.01, 0.02, 0.04])
    t0_ns = _gen_t0(rng, 0.45)
    ns_edge = rng.random() < 0.45
    if ns_edge:
        # TTLs that are not dyadic fractions; accesses will be placed within +-300 ns of the expiry instants
        hard = rng.choice([0.3, 0.7, 1.0 / 3.0, 0.1, 0.045])
        soft = rng.choice([0.0, hard / 3.0, 0.1 * hard, hard])
    cap = rng.choice([None, None, 1, 2])
    eps = [0.0, 1e-6, 1e-4, -1e-4, lat["read"], -lat["read"], lat["cache"], -lat["cache"], lat["read"] + 1e-4, lat["read"] - 1e-4]

    def edge_gap():
        base = rng.choice([soft, hard, hard, hard - soft, hard + lat["read"]])
        return round(max(0.0, base + rng.choice(eps) - rng.choice([0.0, lat["cache"], lat["read"], lat["write"]])), 7)

    hot = rng.randrange(nkeys)
    weights = {"get": 60, "put": 10, "inv": 4, "invall": 2, "bput_raw": 14, "bdel_raw": 10}
    clients = []
    for ci in range(rng.randint(2, 4)):
        ops = _ops(rng, rng.randint(5, 14), nkeys, hot, weights)
        for op in ops:
            if rng.random() < 0.35:
                op[0] = edge_gap()
        clients.append({"start": round(rng.choice([0.0, 0.0, 0.0005, 0.001, 0.002]), 7), "ops": ops})
    if rng.random() < 0.5:
        # aimed script: fill, change the backing store right after, stale hit just before hard expiry, read just after it
        rl, cl = lat["read"], lat["cache"]
        a = [[0.0, "get", hot], [rng.choice([0.0, 1e-4, rl / 2]), rng.choice(["bdel_raw", "bput_raw"]), hot],
             [round(max(0.0, hard - rng.choice([1e-4, rl / 2, rl]) - rng.choice([0.0, 1e-4, rl / 2])), 7), "get", hot]]
        b = [[round(rl + hard + rng.choice([-1e-4, 0.0, 1e-4, rl / 2, rl - 1e-4]), 7), "get", hot], [_gap(rng), "get", hot]]
        clients[0]["ops"] = a + clients[0]["ops"]
        clients[0]["start"] = 0.0
        clients[1]["ops"] = b + clients[1]["ops"]
        clients[1]["start"] = 0.0
    warmer = None
    if rng.random() < 0.15 and not t0_ns:
        warmer = {"keys": [rng.randrange(nkeys) for _ in range(rng.randint(1, 5))], "rate": rng.choice([100.0, 1000.0]), "latency": 0.001}
    init = [_init_spec(rng, 0.8) for _ in range(nkeys)]
    if ns_edge:
        # integer-nanosecond script, one per key: fill (miss-fetch lands at cached_at = a + read latency), the backing store
        # changes 0-5 ns later (so the served value pins the entry's age from below), then probes issued within +-300 ns of
        # the entry's hard (or soft) expiry instant.  Every scripted op has its own client with an exact `start_ns`.
        to_ns = lambda x: round(x * 1_000_000_000)  # noqa: E731  (what Duration.from_seconds does)
        rl_ns, hard_ns, soft_ns = to_ns(lat["read"]), to_ns(hard), to_ns(soft)
        scripted = []
        for ki in range(nkeys):
            init[ki] = True
            a = rng.choice([0, 1, 13, 250, 999, 1_000_003]) + ki * 7
            scripted.append({"start": 0.0, "start_ns": a, "ops": [[0.0, "get", ki]]})
            scripted.append({"start": 0.0, "start_ns": a + rl_ns + rng.choice([0, 1, 2, 5]), "ops": [[0.0, rng.choice(["bput_raw", "bput_raw", "bdel_raw"]), ki, "tag"]]})
            edge_ns = hard_ns if rng.random() < 0.75 or soft_ns == hard_ns else soft_ns
            overs = sorted({rng.randint(1, 300) if rng.random() < 0.65 else rng.randint(-300, 0) for _ in range(rng.randint(1, 2))})
            for over in overs:
                scripted.append({"start": 0.0, "start_ns": a + rl_ns + edge_ns + over, "ops": [[0.0, "get", ki]]})
        # random clients start after the scripted probes so that they do not refresh the entries beforehand (mostly)
        late = (max(c["start_ns"] for c in scripted) + 1000) / 1e9
        keep = clients[: rng.randint(0, 2)]
        for c in keep:
            if rng.random() < 0.7:
                c["start"] = round(c["start"] + late, 9)
        clients = scripted + keep
    _sprinkle_values(rng, clients)
    return {
        "t0_ns": t0_ns,
        "ns_edge": ns_edge,
        "soft": soft,
        "hard": hard if ns_edge else round(hard, 6),
        "capacity": cap,
        "nkeys": nkeys,
        "lat": lat,
        "init": init,
        "clients": clients,
        "warmer": warmer,
    }


def run_softttl(case: dict) -> Result:
    from happysimulator.components.datastore import KVStore, SoftTTLCache
    from happysimulator.components.datastore.cache_warming import CacheWarmer

    Entity, Event, Instant = _entities()
    Client, Finalizer = make_client_classes()
    res = Result()
    keys = [f"k{i}" for i in range(case["nkeys"])]
    lat = case["lat"]
    backing = KVStore("backing", read_latency=lat["read"], write_latency=lat["write"])
    init = {}
    for ki, (k, spec) in enumerate(zip(keys, case["init"])):
        present, v0 = init_value(spec, k, ki)
        if present:
            init[k] = v0
            backing.put_sync(k, v0)
    store = SoftTTLCache("sttl", backing_store=backing, soft_ttl=case["soft"], hard_ttl=case["hard"], cache_capacity=case["capacity"], cache_read_latency=lat["cache"])
    tiers = [Tier("sttl", store, None, "builtin-lru", write_back=False)]
    mon = Mon(res, "SoftTTLCache", store, backing, keys, tiers, init, hard_ns=store.hard_ttl.nanoseconds)
    ctx = _Ctx(mon, len(case["clients"]))
    clients = [Client(f"client{ci}", ctx, ci, c["ops"], keys) for ci, c in enumerate(case["clients"])]
    entities = [backing, store, *clients]
    starts = [Event(time=Instant(_start_ns(case, c)), event_type="c16_go", target=cl) for c, cl in zip(case["clients"], clients)]
    if case.get("warmer"):
        wspec = case["warmer"]

        class WarmView:
            def get(self, key):
                return mon.do("W", "get", key)

        warmer = CacheWarmer("warmer", cache=WarmView(), keys_to_warm=[keys[i] for i in wspec["keys"]], warmup_rate=wspec["rate"], warmup_latency=wspec["latency"])
        entities.append(warmer)
        starts.append(warmer.start_warming())
    _run_sim(entities, starts, mon, res, t0_ns=case.get("t0_ns", 0))
    _finish(mon, res, check_reads=True, ttl=True)
    st = store.stats
    res.count("stale_hits", st.stale_hits)
    res.count("fresh_hits", st.fresh_hits)
    res.count("hard_misses", st.hard_misses)
    res.count("refreshes", st.background_refreshes)
    res.count("coalesced", st.coalesced_requests)
    res.count("evictions", st.evictions)
    expired_access = sum(1 for r in mon.hist if r["kind"] == "get" and r.get("tier_hit") == 0 and r.get("path") in ("hard-miss-fetch", "coalesced-on-refresh"))
    res.count("expired_entry_accesses", expired_access)
    changed_while_cached = sum(1 for r in mon.hist if r["kind"] in ("bput_raw", "bdel_raw") and r.get("was_cached"))
    for p in {r.get("path") for r in mon.hist if r["kind"] == "get"}:
        res.seen("read_paths", p)
    res.nontrivial = st.stale_hits >= 1 and expired_access >= 1 and changed_while_cached >= 1
    return res


# --------------------------------------------------------------------------
# family: pagecache (capacity clause only; the page cache holds no data)


def _pc_rounds(rng, cap, npages, rl, wl):
    """Rounds far apart in time (quiescence in between).  Each round: one client fills the cache sequentially with a
    mix of clean (read) and dirty (written) residents, LRU victim mostly dirty; then 2-4 clients issue overlapping
    read_page / write_page of ONE page (offsets inside the disk-read + write-back window) plus a few others; then,
    mostly, a flush at quiescence.  Every scripted group has its own client with an absolute start time."""
    clients = []
    t = 0.0
    for _ in range(rng.randint(1, 3)):
        pages = list(range(npages))
        rng.shuffle(pages)
        residents, hot = pages[:cap], pages[cap]
        setup = []
        for n, pg in enumerate(residents):
            dirty = rng.random() < (0.8 if n == 0 else 0.45)
            setup.append([0.0005, "write" if dirty else "read", pg])
        clients.append({"start": round(t, 7), "ops": setup})
        t0 = t + 0.02
        if rng.random() < 0.25:
            hot = rng.choice(residents)  # overlap on a resident page as well
        base_kinds = rng.choice([["read", "write"], ["read", "write"], ["write", "read"], ["write", "write"], ["read", "write", "write"], ["read", "read", "write"]])
        for kind in base_kinds:
            off = rng.choice([0.0, rl, rl + rng.random() * wl, rng.random() * (rl + wl), rl + 0.5 * wl, 0.5 * rl])
            ops = [[0.0, kind, hot]]
            if rng.random() < 0.3:
                ops.append([rng.choice([0.0, rl, wl]), rng.choice(["read", "write"]), rng.choice(pages)])
            clients.append({"start": round(t0 + off, 7), "ops": ops})
        for _ in range(rng.randint(0, 2)):
            clients.append({"start": round(t0 + rng.random() * (rl + 2 * wl), 7), "ops": [[0.0, rng.choice(["read", "write", "write", "flush"]), rng.choice(pages)]]})
        if rng.random() < 0.6:
            clients.append({"start": round(t + 0.06, 7), "ops": [[0.0, "flush", 0]]})
        t += 0.1
    clients.append({"start": round(t, 7), "ops": [[0.0, "flush", 0]]})
    return clients


def gen_pagecache(rng: random.Random, tier: str) -> dict:
    style = rng.choice(["rounds", "rounds", "free"])
    read_lat = rng.choice([0.0001, 0.0002, 0.001])
    write_lat = rng.choice([0.0001, 0.0002, 0.0005, 0.002])
    if style == "rounds":
        cap = rng.randint(2, 4) if rng.random() < 0.85 else 1
        npages = cap + rng.randint(1, 3)
        clients = _pc_rounds(rng, cap, npages, read_lat, write_lat)
        readahead = rng.choice([0, 0, 0, 1, 2])
    else:
        cap = rng.randint(1, 4)
        npages = cap + rng.randint(1, 4)
        clients = []
        for ci in range(rng.randint(1, 4)):
            ops = []
            for _ in range(rng.randint(3, 12)):
                kind = rng.choices(["read", "write", "flush"], [50, 40, 10])[0]
                ops.append([rng.choice([0.0, 0.0, 0.0001, 0.0002, 0.0005, 0.001]), kind, rng.randrange(npages)])
            clients.append({"start": rng.choice([0.0, 0.0, 0.0001, 0.0003]), "ops": ops})
        clients.append({"start": 0.5, "ops": [[0.0, "flush", 0]]})
        readahead = rng.choice([0, 0, 1, 2, 3])
    return {
        "style": style,
        "capacity": cap,
        "npages": npages,
        "readahead": readahead,
        "read_lat": read_lat,
        "write_lat": write_lat,
        "clients": clients,
    }


def run_pagecache(case: dict) -> Result:
    """Capacity clause, exceptions, and - the page cache holds no data - the no-lost-write clause as dirty accounting:

    every page with a completed write_page() since the last quiescent flush is, at any later instant, either still
    dirty in the cache or was written back at least once since, and different pages need different write-backs, so
        dirty_pages + (stats.dirty_writebacks - writebacks_at_last_quiescent_flush) >= |pages written since then|
    must hold after every delivery (double-counted write-backs only weaken it).  A flush() that runs with nothing else
    in flight must return the number of dirty pages and leave none.
    """
    from happysimulator.components.infrastructure.page_cache import PageCache
    from happysimulator.core.simulation import Simulation

    Entity, Event, Instant = _entities()
    res = Result()
    pc = PageCache("pc", capacity_pages=case["capacity"], readahead_pages=case["readahead"], disk_read_latency_s=case["read_lat"], disk_write_latency_s=case["write_lat"])
    state = {
        "inflight_loads": 0, "max_inflight_loads": 0, "viol": set(), "ops": 0, "started": set(),
        "inflight": 0, "op_seq": 0, "written": set(), "wb_base": 0, "oprecs": [], "resets": 0,
    }

    def violate(oracle, shape, detail, witness=None):
        if (oracle, shape) in state["viol"]:
            return
        state["viol"].add((oracle, shape))
        res.add(oracle, "PageCache", shape, detail, witness)

    def overlap_shape():
        recs = state["oprecs"]
        now = pc.now.nanoseconds
        for w in recs:
            if w["kind"] != "write" or w["end"] is None:
                continue
            for r in recs:
                if r is not w and r["page"] == w["page"] and r["kind"] in ("read", "write") and r["start"] <= w["end"] and (r["end"] if r["end"] is not None else now) >= w["start"]:
                    return "write-overlaps-" + r["kind"] + "-of-same-page"
        return "interleaved-clients" if len(state["started"]) > 1 else "single-client"

    class PClient(Entity):
        def __init__(self, name, cid, ops):
            super().__init__(name)
            self.cid, self.ops = cid, ops

        def handle_event(self, event):
            for gap, kind, page in self.ops:
                yield gap
                load = kind in ("read", "write")
                state["started"].add(self.cid)
                rec = {"c": self.cid, "kind": kind, "page": page if load else None, "start": self.now.nanoseconds, "end": None}
                state["oprecs"].append(rec)
                state["op_seq"] += 1
                seq0 = state["op_seq"]
                alone = state["inflight"] == 0
                dirty0, wb0 = pc.dirty_pages, pc.stats.dirty_writebacks
                state["inflight"] += 1
                gen = pc.read_page(page) if kind == "read" else pc.write_page(page) if kind == "write" else pc.flush()
                ret = None
                try:
                    try:
                        d = next(gen)
                        if load:
                            state["inflight_loads"] += 1
                            state["max_inflight_loads"] = max(state["max_inflight_loads"], state["inflight_loads"])
                        try:
                            while True:
                                sent = yield d
                                d = gen.send(sent)
                        finally:
                            if load:
                                state["inflight_loads"] -= 1
                    except StopIteration as stop:
                        ret = stop.value
                    except (KeyError, RuntimeError) as exc:
                        others = state["inflight_loads"] > 0
                        violate(
                            "library-exception",
                            f"{type(exc).__name__}:" + ("interleaved-clients" if len(state["started"]) > 1 else "single-client"),
                            f"{kind}_page/flush raised {type(exc).__name__}: {exc}",
                            {"client": self.cid, "op": [gap, kind, page], "t_ns": self.now.nanoseconds, "others_in_flight": others},
                        )
                        return
                finally:
                    state["inflight"] -= 1
                rec["end"] = self.now.nanoseconds
                state["ops"] += 1
                if kind == "write":
                    state["written"].add(page)
                    res.count("page_writes_completed")
                elif kind == "flush" and alone and state["inflight"] == 0 and state["op_seq"] == seq0:
                    # nothing else ran between the start and the end of this flush
                    res.count("quiescent_flushes")
                    wb1 = pc.stats.dirty_writebacks
                    if ret != dirty0 or pc.dirty_pages != 0 or wb1 - wb0 != dirty0:
                        violate(
                            "lost-page-write",
                            "quiescent-flush-accounting",
                            f"flush() alone: {dirty0} dirty pages before, returned {ret}, {pc.dirty_pages} dirty after, write-backs +{wb1 - wb0}",
                            {"t_ns": self.now.nanoseconds},
                        )
                    else:
                        check_accounting("quiescent flush")
                        state["written"] = set()
                        state["wb_base"] = wb1
                        state["resets"] += 1

    def check_accounting(where):
        res.count("dirty_accounting_checks")
        need = len(state["written"])
        have = pc.dirty_pages + (pc.stats.dirty_writebacks - state["wb_base"])
        if have < need:
            violate(
                "lost-page-write",
                overlap_shape(),
                f"{need} pages have a completed write_page() since the last quiescent flush but only {pc.dirty_pages} are dirty and "
                f"{pc.stats.dirty_writebacks - state['wb_base']} write-backs happened since ({where})",
                {"t_ns": pc.now.nanoseconds, "written_pages": sorted(state["written"]), "recent_ops": state["oprecs"][-10:]},
            )

    clients = [PClient(f"pclient{ci}", ci, c["ops"]) for ci, c in enumerate(case["clients"])]
    sim = Simulation(entities=[pc, *clients])

    def hook(event):
        res.count("capacity_checks")
        if pc.pages_cached > case["capacity"]:
            violate(
                "over-capacity",
                "interleaved-clients" if len(state["started"]) > 1 else "single-client",
                f"pages_cached={pc.pages_cached} > capacity_pages={case['capacity']}",
                {"t_ns": pc.now.nanoseconds, "readahead": case["readahead"]},
            )
        if pc.dirty_pages > pc.pages_cached:
            violate("over-capacity", "dirty-exceeds-cached", f"dirty_pages={pc.dirty_pages} > pages_cached={pc.pages_cached}")
        check_accounting("after delivery")

    sim.control.on_event(hook)
    for c, cl in zip(case["clients"], clients):
        sim.schedule(Event(time=Instant.from_seconds(c["start"]), event_type="c16_go", target=cl))
    with EngineProbe(instant_cap=5000, total_cap=60000, record_emissions=False) as p:
        status = p.run(sim)
    res.count("events_monitored", p.n_deliveries)
    if status != "completed":
        res.inconclusive = f"engine probe status {status}"
    res.count("page_ops_completed", state["ops"])
    res.count("evictions", pc.stats.evictions)
    res.count("page_writebacks", pc.stats.dirty_writebacks)
    res.nontrivial = pc.stats.evictions >= 1 and state["max_inflight_loads"] >= 2
    return res


# --------------------------------------------------------------------------

FAMILIES = {
    "cached": Family("cached", gen_cached, run_cached, shrink=_make_shrinker("cached"), case_timeout=30.0),
    "multitier": Family("multitier", gen_multitier, run_multitier, shrink=_make_shrinker("multitier"), case_timeout=30.0),
    "softttl": Family("softttl", gen_softttl, run_softttl, shrink=_make_shrinker("softttl"), case_timeout=30.0),
    "pagecache": Family("pagecache", gen_pagecache, run_pagecache, shrink=_make_shrinker("pagecache"), case_timeout=30.0),
}

BUDGET = {
    "quick": {"cached": 3000, "multitier": 1200, "softttl": 2000, "pagecache": 600},
    "thorough": {"cached": 80000, "multitier": 25000, "softttl": 40000, "pagecache": 10000},
}

"""C06  Injected faults act exactly during their windows and isolate only their target.

Monitor shape: the real FaultSchedule / fault classes / engine / Network / Resource / Server run a
generated workload (hsverif.c06_world); the oracle is interval arithmetic over the generated fault
schedule, evaluated on observations taken at the harness boundary.  Observations on an exact
window-edge nanosecond are never used for a verdict.

Families
    node      crash / pause on plain, generator, QueuedResource-subclass and Server targets + bystanders
    net       partitions (sym/asym), added latency, packet loss on explicit constant-latency links
    capacity  ReduceCapacity on Resources whose grants are held across the windows
    mixed     all of it in one simulation (crash faults may hit network endpoints)
"""

from __future__ import annotations

import copy
import random

from hsverif.core import Family, Result, ddmin

PID = "C06"
LEVEL = "exploration"
RULE = (
    "Generated fault schedules (1-6 faults among CrashNode, PauseNode, NetworkPartition sym/asym, InjectLatency, "
    "InjectPacketLoss(rate 1.0), ReduceCapacity, plus in about a third of the network schedules a RandomPartition "
    "(own RNG, mtbf 3-25 ms, mttr 2-20 ms) on node sets disjoint from / overlapping / equal to the partitioned pairs; windows random / overlapping / nested / adjacent / identical / "
    "sharing one edge, on the same and on different targets; handles cancelled before Simulation(), after it but "
    "before run(), and during the run before activation) applied to plain script entities, generator entities with "
    "multi-step processes (delays and SimFuture waits), a QueuedResource subclass and the library Server with "
    "backlog, constant-latency network probes every few ms plus at window edges -1/0/+1 ns, and Resource workers "
    "holding grants across capacity windows. Oracle: interval arithmetic over the schedule. Non-trivial: measured "
    "from the run - an observation taken while >=2 windows on its target were open or after one window ended inside "
    "another, or a process observed in flight across a window start, or a cancelled handle in the schedule. "
    "Distinct by hash of the case."
)
ASSUMPTIONS = [
    "fault times are mapped to nanoseconds by Instant.from_seconds (temporal arithmetic is trusted)",
    "observations whose timestamp equals any window edge of the schedule are excluded (tie against the fault's own event)",
    "a network message's fate (drop / delay) is decided by the fault state at its send instant",
    "a generator process loses a step only if that step is due inside a window (or within 6 ns of an edge); that step's successors are then not demanded, every other step is - also after a window the process slept through",
    "queued work that was accepted before a crash is not required to survive it; only arrivals after the last window must complete (bound: horizon = last event + total service + 60 ms)",
    "cancel() while a window is open is not generated (the statement only covers cancellation before activation)",
    "bystander logs are compared as multisets (same-instant order of pre-run vs run-created events is C01's subject)",
    "overlapping InjectLatency windows add up: the delay demanded is base + the extra_ms of exactly the windows open at the send instant (+-(3+2n) ns for n windows); overlapping ReduceCapacity windows: only 'capacity below configured' is demanded",
    "a RandomPartition may block pairs inside its node set only while one of its own fault cycles is open (open cycles = recorded fault events minus heal events before the send): while open, only 'blocked while a NetworkPartition / loss window covers the send' is demanded for such pairs; while closed, and for every other pair, the full two-sided oracle applies",
    "a FaultSchedule attached to a second, freshly built world acts on that world's objects; a handle cancelled during the first run is cancelled from the start of the later runs",
    "a window with start == end at nanosecond resolution covers no instant (its nanosecond is an excluded edge)",
    "events created during the run for a crashed target are judged by the target's state at their due time, not at creation time",
    "links with an ExponentialLatency base: only 'delay >= sum of the open extras' is demanded (the base sample comes from the global RNG); links with the harness ScriptedLatency base: exact, from the recorded sample",
    "a concurrency-limited worker behind an explicit Queue -> QueueDriver pair may let requests wait: only arrivals after its last window are demanded to start by the horizon (horizon = last event + total service of the node + 60 ms)",
]
MUST_OBSERVE = ["observations_checked"]

INF = 1 << 62
TOL_NS = 3
EPS = 1e-9
NODE_FAULTS = ("CrashNode", "PauseNode")
# precondition of the known stall of a concurrency-limited worker behind an explicit Queue -> QueueDriver pair
STALL_SHAPE = "worker-busy-when-window-opened/completion-wakeup-dropped-inside-window"
MS = 1_000_000


# --------------------------------------------------------------------------
# schedule arithmetic (the oracle's only knowledge)


def _world():
    from hsverif import c06_world

    return c06_world


def windows_of(faults: list) -> tuple[list[dict], str | None]:
    """Effective windows (cancelled faults removed) in library nanoseconds."""
    w = _world()
    out, problem = [], None
    for i, f in enumerate(faults):
        s, e = w.fault_window_ns(f)
        c = f.get("cancel")
        cancelled = None
        if c in ("pre", "post"):
            cancelled = c
        elif isinstance(c, list):
            tc = int(c[1])
            if tc < s:
                cancelled = "run"
            elif tc > e:
                cancelled = None  # cancelling a finished fault is a no-op
            else:
                problem = "cancel inside an open window: behaviour not specified by the property"
        out.append({"i": i, "f": f, "type": f["type"], "s": s, "e": e, "cancelled": cancelled})
    return out, problem


def all_edges(wins: list[dict]) -> set[int]:
    ed = set()
    for w in wins:
        if w["type"] == "RandomPartition":
            continue
        ed.add(w["s"])
        if w["e"] < INF:
            ed.add(w["e"])
    return ed


def structure(ws: list[dict], t: int) -> tuple[list[dict], list[dict], str]:
    """(covering windows, windows that ended inside a covering window before t, shape word)."""
    cover = [w for w in ws if w["s"] < t < w["e"]]
    interf = [w2 for w2 in ws if w2["e"] < t and any(w["s"] <= w2["e"] for w in cover)]
    if not cover:
        ended = [w for w in ws if w["e"] < t]
        word = "no-window-on-target" if not ws else ("after-window-end" if ended else "before-first-window")
    elif interf:
        word = "overlapping-windows-same-target"
    elif len(cover) == 1:
        word = "single-window"
    else:
        word = "concurrent-windows-none-ended"
    return cover, interf, word


def comp_of(*groups) -> str:
    """Component of a node-fault observation.  CrashNode and PauseNode are one mechanism (the target's
    crashed flag) and the statement treats 'crashed or paused' alike, so they share one component name;
    the actual classes are in the violation detail."""
    names = sorted({w["type"] for g in groups for w in g})
    if names and all(n in NODE_FAULTS for n in names):
        return "CrashNode|PauseNode"
    return "+".join(names) if names else "none"


def blocks(w: dict, src: str, dst: str) -> bool:
    f = w["f"]
    a, b = f["a"], f["b"]
    if f.get("asym"):
        return src in a and dst in b
    return (src in a and dst in b) or (src in b and dst in a)


# --------------------------------------------------------------------------
# evaluation: observations x schedule -> violation records


class V:
    __slots__ = ("oracle", "component", "shape", "ident", "detail", "witness")

    def __init__(self, oracle, component, shape, ident, detail, witness=None):
        self.oracle, self.component, self.shape = oracle, component, shape
        self.ident, self.detail, self.witness = ident, detail, witness


def evaluate(case: dict, faults: list, obs: dict, base: dict | None, stats: dict) -> list[V]:
    wins_all, _ = windows_of(faults)
    eff = [w for w in wins_all if not w["cancelled"]]
    if any(w["s"] == w["e"] for w in eff):
        stats["empty_seen"] = 1
        stats["empty_windows"] = stats.get("empty_windows", 0) + sum(1 for w in eff if w["s"] == w["e"])
    edges = all_edges(wins_all)
    out: list[V] = []
    horizon = case["horizon_ns"]

    def bump(k, n=1):
        stats[k] = stats.get(k, 0) + n

    nodes = {n["name"]: n for n in case.get("nodes", [])}
    node_w = {n: [w for w in eff if w["type"] in NODE_FAULTS and w["f"]["target"] == n] for n in nodes}
    work_by = {}
    for wk in case.get("work", []):
        work_by.setdefault(wk["to"], []).append(wk)
    sink_done = {(r[1], r[2]) for r in obs["sink"] if r[3] in ("done", None)}

    # ---------------- node targets
    for name, n in nodes.items():
        W = node_w[name]
        kind = n["kind"]
        log = obs["node_log"].get(name, [])
        if kind in ("plain", "gen", "qdw"):
            # "qdw": a generator worker behind an explicit Queue -> QueueDriver pair; requests are addressed to the
            # queue and reach the worker in zero simulated time, so the same due-time oracle applies to its log
            seen_h = set()
            seen_steps = set()
            step_at: dict = {}
            h_time: dict = {}
            bounded = kind == "qdw" and bool(n.get("conc"))
            for t, k, id_, x in log:
                if k == "h":
                    seen_h.add((t, id_))
                    h_time.setdefault(id_, t)
                else:
                    seen_steps.add((id_, k, x))
                    if k == "s":
                        step_at[(id_, x)] = t
                if t in edges:
                    bump("edge_observations_skipped")
                    continue
                bump("observations_checked")
                cover, interf, word = structure(W, t)
                if len(cover) >= 2 or interf:
                    stats["overlap_seen"] = 1
                if cover:
                    what = "handler" if k == "h" else "process-step"
                    shape = word if interf else f"no-window-ended-inside/{what}"
                    out.append(
                        V(
                            "executes-while-crashed",
                            comp_of(cover, interf),
                            shape,
                            ("exec", name, t, id_, k, x),
                            f"{kind} entity '{name}' ran {what} (id {id_}, step {x}) at t={t}ns inside "
                            f"{[(w['type'], w['s'], w['e']) for w in cover]}; windows that ended inside: "
                            f"{[(w['type'], w['s'], w['e']) for w in interf]}",
                        )
                    )
            last_end = max([w["e"] for w in W], default=-1)
            # jobs that were started and never completed: their wake-up fell inside a window and was dropped
            killed = [k for k in h_time if (name, k) not in sink_done] if bounded else []
            for wk in work_by.get(name, []):
                t = wk["t"]
                if t in edges:
                    continue
                cover, interf, word = structure(W, t)
                via = wk.get("via")
                made_inside = via is not None and any(w["s"] < via < w["e"] for w in W)
                if made_inside and not cover:
                    bump("future_dated_events_created_inside_window_due_outside")
                    stats["inflight_seen"] = 1
                if bounded:
                    # concurrency-limited worker behind the explicit queue: a request may legitimately wait, so only
                    # "arrived after the last window => started by the horizon" is demanded for the arrival itself
                    if not cover and last_end < INF and t > last_end and t < horizon - MS:
                        bump("observations_checked")
                        if wk["id"] not in h_time:
                            stalled = any(h_time[k] < t for k in killed)
                            out.append(
                                V(
                                    "not-resumed-after-restart",
                                    "QueueDriver" if stalled else comp_of(W),
                                    f"qdw/{STALL_SHAPE}" if stalled else f"qdw/bounded/{word}",
                                    ("notresumed", name, t, wk["id"]),
                                    f"request {wk['id']} arrived at the explicit queue of worker '{name}' (concurrency {n['conc']}) at t={t}ns, "
                                    f"after its last window ended ({last_end}ns), and was never started by the horizon {horizon}ns; "
                                    f"jobs whose wake-up was dropped inside a window before that: {[k for k in killed if h_time[k] < t][:6]}",
                                )
                            )
                elif not cover:
                    bump("observations_checked")
                    if (t, wk["id"]) not in seen_h:
                        out.append(
                            V(
                                "not-handled-outside-windows",
                                comp_of(W),
                                f"{kind}/{word}" + ("/created-inside-window" if made_inside else ""),
                                ("nothandled", name, t, wk["id"]),
                                f"event id {wk['id']} delivered to '{name}' at t={t}ns, outside every effective window "
                                f"{[(w['type'], w['s'], w['e']) for w in W]}, was not handled",
                            )
                        )
                if kind in ("gen", "qdw") and wk.get("steps"):
                    t_end = t + sum(st[0] for st in wk["steps"]) + 10
                    hit = [w for w in W if w["s"] <= t_end + 2 and w["e"] >= t - 2]
                    if any(t < w["s"] < t_end for w in W):
                        stats["inflight_seen"] = 1
                    t_run = h_time.get(wk["id"]) if bounded else (t if (t, wk["id"]) in seen_h else None)
                    stepwise = t_run is not None and t_run not in edges and not structure(W, t_run)[0] and (bounded or (bool(hit) and not cover))
                    if not bounded and not hit and t_end < horizon - MS:
                        bump("observations_checked")
                        missing = [i for i in range(len(wk["steps"])) if (wk["id"], "s", i) not in seen_steps]
                        if missing or (name, wk["id"]) not in sink_done:
                            out.append(
                                V(
                                    "process-not-completed-outside-windows",
                                    comp_of(W),
                                    f"{kind}/{word}",
                                    ("incomplete", name, t, wk["id"]),
                                    f"process id {wk['id']} on '{name}' lives in [{t},{t_end}]ns, touches no window, "
                                    f"but steps {missing} / completion are missing",
                                )
                            )
                    elif stepwise:
                        # The process meets a window (or runs on a concurrency-limited worker, where it starts when polled).  Step by step: a step whose due instant lies outside every
                        # window (6 ns clear of every edge) and whose predecessors all ran must run - also when a whole
                        # window opened and closed while the process was asleep.  The first step due inside a window
                        # (or on an edge) is dropped and ends the demand.
                        prev, ok_all = t_run, True
                        for i, st in enumerate(wk["steps"]):
                            due = prev + st[0]
                            if due + 6 >= horizon - MS or any(abs(due - ed) <= 6 for ed in edges) or any(w["s"] <= due <= w["e"] for w in W):
                                ok_all = False
                                break
                            slept = [w for w in W if prev < w["s"] and w["e"] < due]
                            bump("observations_checked")
                            if slept:
                                bump("process_steps_due_after_a_window_slept_through")
                                stats["inflight_seen"] = 1
                            if (wk["id"], i) not in step_at:
                                ok_all = False
                                out.append(
                                    V(
                                        "process-step-lost-after-window" if slept else "process-step-lost-outside-windows",
                                        comp_of(slept or W),
                                        f"{kind}/{'slept-across-whole-window' if slept else 'no-window-during-sleep'}/{'future' if len(st) > 2 and st[2] == 'f' else 'delay'}",
                                        ("steplost", name, wk["id"], i),
                                        f"process id {wk['id']} on '{name}': step {i} was due at ~{due}ns (previous stage ran at {prev}ns), outside "
                                        f"every window {[(w['type'], w['s'], w['e']) for w in W]}, and never ran; windows slept through: "
                                        f"{[(w['type'], w['s'], w['e']) for w in slept]}",
                                    )
                                )
                                break
                            prev = step_at[(wk["id"], i)]
                        if ok_all and (name, wk["id"]) not in sink_done:
                            out.append(
                                V(
                                    "process-step-lost-outside-windows",
                                    comp_of(W),
                                    f"{kind}/completion",
                                    ("steplost", name, wk["id"], "done"),
                                    f"process id {wk['id']} on '{name}' ran all its steps outside the windows but its completion event never reached the sink",
                                )
                            )
        else:  # queue-fronted targets
            for t, is_cont, etype in obs["worker_deliveries"].get(name, []):
                if t in edges:
                    bump("edge_observations_skipped")
                    continue
                bump("observations_checked")
                cover, interf, word = structure(W, t)
                if len(cover) >= 2 or interf:
                    stats["overlap_seen"] = 1
                if cover:
                    # the worker adapter never consults the crashed flag, so window overlap is irrelevant here
                    shape = "queued-worker"
                    out.append(
                        V(
                            "executes-while-crashed",
                            comp_of(cover, interf),
                            shape,
                            ("exec", name, t, etype, is_cont),
                            f"{kind} '{name}': its worker {'resumed' if is_cont else 'started'} handle_queued_event at "
                            f"t={t}ns inside {[(w['type'], w['s'], w['e']) for w in cover]}; ended inside: "
                            f"{[(w['type'], w['s'], w['e']) for w in interf]}",
                        )
                    )
            recs = sorted(obs["accept"].get(name, []), key=lambda r: r[1])
            times = [r[1] for r in recs]
            last_end = max([w["e"] for w in W], default=-1)
            for j, (id_, t, a0, a1) in enumerate(recs):
                if t in edges or a0 is None or a1 is None:
                    continue
                if (j > 0 and t - times[j - 1] < 3) or (j + 1 < len(times) and times[j + 1] - t < 3):
                    continue  # sampling points would not isolate this arrival
                cover, interf, word = structure(W, t)
                bump("observations_checked")
                if len(cover) >= 2 or interf:
                    stats["overlap_seen"] = 1
                if cover and a1 - a0 != 0:
                    shape = word if interf else "no-window-ended-inside/enqueue"
                    out.append(
                        V(
                            "executes-while-crashed",
                            comp_of(cover, interf),
                            shape,
                            ("exec", name, t, id_, "enq"),
                            f"{kind} '{name}' accepted request {id_} at t={t}ns (stats_accepted {a0}->{a1}) inside "
                            f"{[(w['type'], w['s'], w['e']) for w in cover]}",
                        )
                    )
                if not cover and a1 - a0 != 1:
                    out.append(
                        V(
                            "not-handled-outside-windows",
                            comp_of(W),
                            f"{kind}/{word}",
                            ("nothandled", name, t, id_),
                            f"{kind} '{name}' did not accept request {id_} at t={t}ns (stats_accepted {a0}->{a1}); "
                            f"windows {[(w['type'], w['s'], w['e']) for w in W]}",
                        )
                    )
                if not cover and t > last_end and last_end < INF:
                    bump("observations_checked")
                    if (name, id_) not in sink_done:
                        out.append(
                            V(
                                "not-resumed-after-restart",
                                comp_of(W),
                                f"{kind}/{word}",
                                ("notresumed", name, t, id_),
                                f"request {id_} arrived at '{name}' at t={t}ns after its last window ended ({last_end}ns) "
                                f"and never completed by the horizon {horizon}ns",
                            )
                        )
            # in-flight measurement for non-triviality (own log of the harness subclass / worker deliveries)
            dl = sorted(t for t, _, _ in obs["worker_deliveries"].get(name, []))
            for w in W:
                if any(a < w["s"] for a in dl) and any(a > w["s"] for a in dl):
                    stats["inflight_seen"] = 1

    for name, depth in obs["final"].get("queue_depth", {}).items():
        W = node_w.get(name, [])
        if all(w["e"] < horizon - MS for w in W):
            bump("observations_checked")
            if depth > 0:
                nd = nodes[name]
                lg = obs["node_log"].get(name, [])
                started = {r[2] for r in lg if r[1] == "h"}
                stalled = bool(nd.get("conc")) and any((name, k) not in sink_done for k in started)
                out.append(
                    V(
                        "not-resumed-after-restart",
                        "QueueDriver" if stalled else comp_of(W),
                        f"qdw/{STALL_SHAPE}" if stalled else "qdw/queue-not-empty-at-end",
                        ("qdepth", name),
                        f"explicit Queue in front of worker '{name}' still holds {depth} request(s) at the end although every window "
                        f"{[(w['type'], w['s'], w['e']) for w in W]} has ended (worker concurrency: {nd.get('conc') or 'unbounded'})",
                    )
                )

    # ---------------- bystanders: identical to the fault-free run (as multisets)
    if base is not None:
        for name, n in nodes.items():
            if not n.get("bystander"):
                continue
            bump("observations_checked")
            a = sorted(map(tuple, obs["node_log"].get(name, [])), key=repr)
            b = sorted(map(tuple, base["node_log"].get(name, [])), key=repr)
            sa = sorted((r for r in obs["sink"] if r[1] == name), key=repr)
            sb = sorted((r for r in base["sink"] if r[1] == name), key=repr)
            wa = sorted(obs["worker_deliveries"].get(name, []), key=repr)
            wb = sorted(base["worker_deliveries"].get(name, []), key=repr)
            if a != b or sa != sb or wa != wb:
                diff = [x for x in b if x not in a][:3] + [x for x in a if x not in b][:3]
                sdiff = [x for x in sb if x not in sa][:3] + [x for x in sa if x not in sb][:3]
                out.append(
                    V(
                        "bystander-affected",
                        comp_of(eff),
                        n["kind"],
                        ("bystander", name),
                        f"bystander '{name}' ({n['kind']}) differs from the fault-free run: log diff {diff}, sink diff {sdiff}",
                    )
                )

    # ---------------- network probes
    net = case.get("net")
    if net:
        base_ns = {}
        dist_of = {}
        for ln in net["links"]:
            base_ns[(ln["a"], ln["b"])] = ln["base_ns"]
            dist_of[(ln["a"], ln["b"])] = ln.get("dist", "const")
            if ln.get("bidir"):
                base_ns[(ln["b"], ln["a"])] = ln["base_ns"]
                dist_of[(ln["b"], ln["a"])] = ln.get("dist", "const")
        parts = [w for w in eff if w["type"] == "NetworkPartition"]
        rsets = [set(w["f"]["nodes"]) for w in eff if w["type"] == "RandomPartition"]
        # recorded instants of the random partition's own fault / heal events: its open cycles are the only
        # thing that may block a pair of its node set outside the windows of the schedule
        rev = sorted(obs.get("random_partition_events", []))
        rev_times = {te for te, _ in rev}

        def rp_open(t):
            return sum(1 for te, k in rev if te < t and k == "fault") - sum(1 for te, k in rev if te < t and k == "heal")

        def rp_overlapped(t):
            n = 0
            for te, k in rev:
                if te >= t:
                    break
                n += 1 if k == "fault" else -1
                if n >= 2:
                    return True
            return False
        # how often a random heal / fault fell inside a NetworkPartition window (measured, for evidence)
        for t_ev, kind_ev in obs.get("random_partition_events", []):
            if any(w["s"] < t_ev < w["e"] for w in parts):
                bump("random_partition_heals_inside_partition_windows" if kind_ev == "heal" else "random_partition_faults_inside_partition_windows")
                if kind_ev == "heal":
                    stats["randpart_seen"] = 1
        hset = {nn: {(r[0], r[2], r[3]) for r in obs["node_log"].get(nn, []) if r[1] == "h"} for nn in net["nodes"]}
        recv_at: dict = {}
        for nn in net["nodes"]:
            for r in obs["node_log"].get(nn, []):
                if r[1] == "h" and r[3] == "recv":
                    recv_at.setdefault((nn, r[2]), []).append(r[0])
        for wk in case.get("work", []):
            if wk.get("op") != "send":
                continue
            src, dst, mid = wk["to"], wk["dst"], wk["id"]
            ts = wk["t"]
            sent = (ts, mid, "send") in hset[src]
            if not sent:
                bump("probes_not_sent")
                continue
            if ts in edges:
                bump("edge_observations_skipped")
                continue
            arrivals = recv_at.get((dst, mid), [])
            P = [w for w in parts if blocks(w, src, dst)]
            L = [w for w in eff if w["type"] == "InjectPacketLoss" and (w["f"]["src"], w["f"]["dst"]) == (src, dst)]
            D = [w for w in eff if w["type"] == "InjectLatency" and (w["f"]["src"], w["f"]["dst"]) == (src, dst)]
            pc, _, _ = structure(P, ts)
            lc, li, lword = structure(L, ts)
            dc, di, dword = structure(D, ts)
            if len(pc) + len(lc) + len(dc) >= 2 or li or di:
                stats["overlap_seen"] = 1
            b0 = base_ns[(src, dst)]
            dist = dist_of.get((src, dst), "const")
            bmax = b0  # upper bound of the base delay (for "could the receiver be down at arrival")
            dsfx = "" if dist == "const" else f"/{dist}-base-latency"
            if dist == "scripted":
                # the harness distribution recorded the sample it handed out for this send instant
                recs = [d for now_, d in obs.get("scripted_latency", {}).get(f"{src}>{dst}", []) if now_ == ts]
                bmax = int(1.5 * b0) + 2
                b0 = recs[0] if len(recs) == 1 else None
            elif dist == "exp":
                bmax, b0 = 40 * b0, None
            if dist != "const":
                bump("probes_on_non_constant_links")
            bump("observations_checked")
            bump("probes_checked")
            if arrivals and len(rsets) == 1 and src in rsets[0] and dst in rsets[0] and ts not in rev_times and rp_open(ts) <= 0:
                bump("probes_random_partition_closed")
            if arrivals:
                ta = arrivals[0]
                delay = ta - ts
                if len(arrivals) > 1:
                    out.append(V("duplicate-delivery", "Network", "any", ("dup", mid), f"message {mid} {src}>{dst} arrived {len(arrivals)} times"))
                if pc:
                    asym = bool(pc[0]["f"].get("asym"))
                    same = [w for w in P if bool(w["f"].get("asym")) == asym]
                    c2, i2, word = structure(same, ts)
                    if i2:
                        stats["overlap_seen"] = 1
                    shape = word if i2 else f"no-window-ended-inside/{'asymmetric' if asym else 'symmetric'}"
                    if rsets and not i2:
                        shape += "/random-partition-on-network"
                    out.append(
                        V(
                            "partition-not-in-effect",
                            "NetworkPartition",
                            shape,
                            ("part", mid),
                            f"message {mid} {src}>{dst} sent at t={ts}ns was delivered although partition windows "
                            f"{[(w['f']['a'], w['f']['b'], w['s'], w['e']) for w in c2]} cover it; "
                            f"ended inside: {[(w['f']['a'], w['f']['b'], w['s'], w['e']) for w in i2]}",
                        )
                    )
                elif lc:
                    out.append(
                        V(
                            "loss-not-in-effect",
                            "InjectPacketLoss",
                            lword if li else "no-window-ended-inside",
                            ("loss", mid),
                            f"message {mid} {src}>{dst} sent at t={ts}ns was delivered although 100% loss windows "
                            f"{[(w['s'], w['e']) for w in lc]} cover it; ended inside: {[(w['s'], w['e']) for w in li]}",
                        )
                    )
                elif dist == "exp":
                    # base sample unknown (global RNG): inside windows the delay is at least the sum of the open extras
                    want_min = sum(int(w["f"]["extra_ms"] * MS) for w in dc)
                    if dc and delay < want_min - TOL_NS:
                        out.append(
                            V(
                                "latency-not-in-effect",
                                "InjectLatency",
                                (dword if di else "no-window-ended-inside") + dsfx,
                                ("lat", mid),
                                f"message {mid} {src}>{dst} (exponential base latency) sent at t={ts}ns took {delay}ns < the {want_min}ns of the "
                                f"open latency windows {[(w['f']['extra_ms'], w['s'], w['e']) for w in dc]}",
                            )
                        )
                elif b0 is None:
                    bump("probes_scripted_sample_ambiguous")
                elif not dc:
                    if abs(delay - b0) > TOL_NS:
                        _, _, w0 = structure(D, ts)
                        out.append(
                            V(
                                "latency-outside-windows",
                                "InjectLatency",
                                w0 + dsfx,
                                ("lat", mid),
                                f"message {mid} {src}>{dst} sent at t={ts}ns outside every latency window took {delay}ns, base {b0}ns",
                            )
                        )
                else:
                    if delay <= b0 + TOL_NS:
                        out.append(
                            V(
                                "latency-not-in-effect",
                                "InjectLatency",
                                (dword if di else "no-window-ended-inside") + dsfx,
                                ("lat", mid),
                                f"message {mid} {src}>{dst} sent at t={ts}ns took the base {delay}ns although latency windows "
                                f"{[(w['f']['extra_ms'], w['s'], w['e']) for w in dc]} cover it; ended inside: "
                                f"{[(w['s'], w['e']) for w in di]}",
                            )
                        )
                    else:
                        want = b0 + sum(int(w["f"]["extra_ms"] * MS) for w in dc)
                        if abs(delay - want) > TOL_NS + 2 * len(dc):
                            if di:
                                fifo = any(w2["s"] < w["s"] for w2 in di for w in dc)
                                lshape = "earlier-opened-window-closed-first" if fifo else "nested-window-closed"
                            else:
                                lshape = "single-window" if len(dc) == 1 else "concurrent-windows-none-ended"
                            out.append(
                                V(
                                    "latency-wrong-amount",
                                    "InjectLatency",
                                    lshape + dsfx,
                                    ("lat", mid),
                                    f"message {mid} {src}>{dst} sent at t={ts}ns took {delay}ns, expected {want}ns = base {b0}ns + the extras of "
                                    f"the open windows {[(w['f']['extra_ms'], w['s'], w['e']) for w in dc]}; windows that ended inside them: "
                                    f"{[(w['f']['extra_ms'], w['s'], w['e']) for w in di]}",
                                )
                            )
            else:
                if not pc and not lc:
                    max_extra = sum(int(w["f"]["extra_ms"] * MS) for w in dc)
                    lo, hi = ts, ts + bmax + max_extra + 10
                    rdown = [w for w in node_w.get(dst, []) if w["s"] <= hi and w["e"] >= lo]
                    if rdown or hi >= horizon - MS:
                        bump("probes_receiver_down")
                    elif any(src in rs and dst in rs for rs in rsets) and (len(rsets) > 1 or ts in rev_times or rp_open(ts) > 0):
                        # both endpoints belong to a RandomPartition that has a fault cycle open at the send instant:
                        # the random split may legitimately separate them; nothing is demanded
                        bump("probes_excused_by_random_partition")
                    elif any(src in rs and dst in rs for rs in rsets):
                        bump("probes_random_partition_closed")
                        out.append(
                            V(
                                "blocked-without-open-random-fault",
                                "RandomPartition",
                                "earlier-cycles-overlapped" if rp_overlapped(ts) else "cycles-alternate",
                                ("rdrop", mid),
                                f"message {mid} {src}>{dst} sent at t={ts}ns never arrived: no partition / loss window covers it and the "
                                f"RandomPartition had {rp_open(ts)} open fault cycle(s) (events before: "
                                f"{[(te, k) for te, k in rev if te < ts][-6:]})",
                            )
                        )
                    else:
                        fin = obs["final"]
                        comp = "Network"
                        if fin.get("links", {}).get(f"{src}>{dst}", {}).get("dropped", 0) > 0 and not L:
                            comp = "NetworkLink"
                        out.append(
                            V(
                                "dropped-outside-windows",
                                comp,
                                f"partitions:{structure(P, ts)[2]}/loss:{lword}",
                                ("drop", mid),
                                f"message {mid} {src}>{dst} sent at t={ts}ns never arrived although no partition / loss window covers it",
                            )
                        )

    # ---------------- capacity
    res_cfg = {r["name"]: r["cap"] for r in case.get("resources", [])}
    grants = obs["grants"]
    calls = {(c[1], c[2]): c[0] for c in obs["acquire_calls"]}
    for rn, cap0 in res_cfg.items():
        W = [w for w in eff if w["type"] == "ReduceCapacity" and w["f"]["res"] == rn]

        def holder_shape(t, rn=rn, W=W):
            for g in grants:
                if g[1] != rn:
                    continue
                rel = g[6] if g[6] is not None else INF
                if any(g[0] <= w["s"] <= rel and w["s"] < t for w in W):
                    return "grant-held-across-window-start"
            started = [w for w in W if w["s"] < t]
            for i, w1 in enumerate(started):
                for w2 in started[i + 1 :]:
                    if w1["s"] <= w2["e"] and w2["s"] <= w1["e"]:
                        return "overlapping-windows-same-target"
            return "no-grant-held-no-overlap"

        for t, r2, cap, avail, waiters, held, head, head_jid in obs["samples"]:
            if r2 != rn:
                continue
            if t in edges:
                bump("edge_observations_skipped")
                continue
            bump("observations_checked")
            bump("capacity_samples_checked")
            cover, interf, word = structure(W, t)
            if len(cover) >= 2 or interf:
                stats["overlap_seen"] = 1
            if not cover:
                if abs(cap - cap0) > EPS:
                    out.append(V("capacity-reduced-outside-windows", "ReduceCapacity", word, ("cap", rn, t), f"'{rn}' capacity {cap} != configured {cap0} at t={t}ns outside every window"))
                elif abs(avail + held - cap) > EPS:
                    out.append(
                        V(
                            "conservation-broken",
                            "ReduceCapacity",
                            holder_shape(t),
                            ("cons", rn, t),
                            f"'{rn}' at t={t}ns (no window open): available {avail} + held {held} != capacity {cap}",
                        )
                    )
                elif waiters > 0 and head is not None and avail >= head - EPS:
                    # a waiter that fits is blocked although the resource is in its configured state
                    tcall = calls.get((rn, head_jid))
                    inside = tcall is not None and any(tcall <= w["e"] < t for w in W)
                    out.append(
                        V(
                            "waiter-stranded-after-restore",
                            "ReduceCapacity",
                            "waiting-across-window-end" if inside else "no-window-end-while-waiting",
                            ("strand", rn, t),
                            f"'{rn}' at t={t}ns (no window open): {waiters} waiter(s), head wants {head}, available {avail}",
                        )
                    )
            else:
                if cap >= cap0 - EPS:
                    out.append(
                        V(
                            "capacity-not-reduced-inside-window",
                            "ReduceCapacity",
                            word if interf else "no-window-ended-inside",
                            ("cap", rn, t),
                            f"'{rn}' capacity {cap} (configured {cap0}) at t={t}ns inside {[(w['f']['factor'], w['s'], w['e']) for w in cover]}; "
                            f"ended inside: {[(w['f']['factor'], w['s'], w['e']) for w in interf]}",
                        )
                    )
                elif len(cover) == 1 and not interf and abs(cap - cap0 * cover[0]["f"]["factor"]) > 1e-6:
                    out.append(V("capacity-wrong-amount", "ReduceCapacity", word, ("cap", rn, t), f"'{rn}' capacity {cap} at t={t}ns, expected {cap0 * cover[0]['f']['factor']}"))
                if waiters > 0 and head is not None and avail >= head:
                    # end of an instant at which nothing else happens: the head waiter fits the capacity in
                    # effect and is still queued (e.g. a stronger overlapping window ended and nobody was woken)
                    tcall = calls.get((rn, head_jid))
                    ended = [w for w in W if tcall is not None and tcall <= w["e"] < t]
                    if ended:
                        stats["overlap_seen"] = 1
                    out.append(
                        V(
                            "waiter-stranded-inside-window",
                            "ReduceCapacity",
                            "other-window-ended-while-waiting" if ended else "no-window-end-while-waiting",
                            ("strand", rn, t),
                            f"'{rn}' at t={t}ns inside {[(w['f']['factor'], w['s'], w['e']) for w in cover]}: {waiters} waiter(s), head "
                            f"(job {head_jid}, queued at {tcall}ns) wants {head}, available {avail}, capacity {cap}; windows that ended "
                            f"while it waited: {[(w['f']['factor'], w['s'], w['e']) for w in ended]}",
                        )
                    )
        for g in grants:
            tg, r2, jid, amount, held_after, cap_at, rel = g
            if r2 != rn or tg in edges:
                continue
            bump("observations_checked")
            bump("grants_checked")
            cover, interf, word = structure(W, tg)
            if any(tg < w["s"] < (rel if rel is not None else INF) for w in W):
                stats["inflight_seen"] = 1
            if cover and held_after > cap_at + EPS:
                out.append(
                    V(
                        "over-admission-inside-window",
                        "ReduceCapacity",
                        holder_shape(tg + 1),
                        ("over", rn, tg, jid),
                        f"'{rn}': job {jid} was granted {amount} at t={tg}ns inside a reduction window; held {held_after} > capacity {cap_at}",
                    )
                )
        for t, r2, jid, amount, msg in obs["release_errors"]:
            if r2 != rn:
                continue
            bump("observations_checked")
            out.append(V("release-raises", "ReduceCapacity", holder_shape(t + 1), ("rel", rn, t, jid), f"'{rn}': release({amount}) of job {jid} at t={t}ns raised: {msg}"))

    # ---------------- configured state after the last window
    ends = [w["e"] for w in eff if w["type"] != "RandomPartition"]
    if ends and max(ends) < horizon - MS:
        fin = obs["final"]
        bump("observations_checked")
        bump("final_states_checked")
        if net:
            for key, st in fin["links"].items():
                a, b = key.split(">")
                nL = len([w for w in eff if w["type"] == "InjectPacketLoss" and (w["f"]["src"], w["f"]["dst"]) == (a, b)])
                nD = len([w for w in eff if w["type"] == "InjectLatency" and (w["f"]["src"], w["f"]["dst"]) == (a, b)])
                if st["loss"] != 0.0:
                    out.append(V("state-not-restored", "InjectPacketLoss", _nshape(nL), ("fin", key, "loss"), f"link {key} packet_loss_rate {st['loss']} after all windows ended"))
                if st.get("latency_ns") is None:
                    if not st.get("latency_is_configured_object", True):
                        out.append(V("state-not-restored", "InjectLatency", _nshape(nD) + "/non-constant-base-latency", ("fin", key, "lat"), f"link {key}: link.latency is not the configured distribution object after all windows ended"))
                elif abs(st["latency_ns"] - base_ns[(a, b)]) > TOL_NS:
                    out.append(V("state-not-restored", "InjectLatency", _nshape(nD), ("fin", key, "lat"), f"link {key} latency {st['latency_ns']}ns != base {base_ns[(a, b)]}ns after all windows ended"))
            frs = [set(w["f"]["nodes"]) for w in eff if w["type"] == "RandomPartition"]
            rp_live = len(frs) > 1 or (len(frs) == 1 and rp_open(INF) > 0)  # a random cycle still open at the end
            stuck = [pr for pr in fin.get("partitioned", []) if not any(pr[0] in rs and pr[1] in rs for rs in frs)]
            if stuck:
                nP = len([w for w in eff if w["type"] == "NetworkPartition"])
                out.append(V("state-not-restored", "NetworkPartition", _nshape(nP), ("fin", "part"), f"pairs still partitioned after all windows ended: {stuck[:6]}"))
            rstuck = [pr for pr in fin.get("partitioned", []) if pr not in stuck]
            if rstuck and not rp_live:
                out.append(
                    V(
                        "state-not-restored",
                        "RandomPartition",
                        "earlier-cycles-overlapped" if rp_overlapped(INF) else "cycles-alternate",
                        ("fin", "rpart"),
                        f"pairs {rstuck[:6]} still partitioned at the end although every window ended and the RandomPartition has "
                        f"as many heals as faults ({len(rev)} events)",
                    )
                )
        for rn, st in fin["resources"].items():
            nC = len([w for w in eff if w["type"] == "ReduceCapacity" and w["f"]["res"] == rn])
            if abs(st["capacity"] - res_cfg[rn]) > EPS:
                out.append(V("state-not-restored", "ReduceCapacity", _nshape(nC), ("fin", rn, "cap"), f"'{rn}' capacity {st['capacity']} != configured {res_cfg[rn]} after all windows ended"))
    return out


def _nshape(n: int) -> str:
    return "no-window-on-target" if n == 0 else ("single-window" if n == 1 else "multiple-windows-on-target")


# --------------------------------------------------------------------------
# run


CANCEL_NAMES = {"pre": "cancelled-before-construction", "post": "cancelled-before-run", "run": "cancelled-during-run-before-activation"}


_LAST: dict = {"case": None, "res": None, "reuse": False}


def run(case: dict) -> Result:
    # The worker re-runs the object returned by shrink(); when shrink() returned the very same,
    # unmodified case object it has just been run, so that (deterministic) result is handed back once.
    if _LAST["reuse"] and _LAST["case"] is case:
        _LAST["reuse"] = False
        return _LAST["res"]
    _LAST["reuse"] = False
    res = _run(case)
    _LAST["case"], _LAST["res"] = case, res
    return res


def _run(case: dict) -> Result:
    w = _world()
    res = Result()
    faults = case.get("faults", [])
    wins, problem = windows_of(faults)
    if problem:
        res.inconclusive = problem
        return res
    stats: dict = {}
    obs = w.execute(case)
    if obs["status"] != "completed":
        res.inconclusive = f"run status {obs['status']}"
        return res
    has_by = any(n.get("bystander") for n in case.get("nodes", []))
    base = w.execute(case, faults=[]) if (has_by and faults) else None
    if base is not None and base["status"] != "completed":
        base = None
    vs = evaluate(case, faults, obs, base, stats)
    res.count("events_monitored", obs["n_deliveries"])

    cancelled_modes = sorted({x["cancelled"] for x in wins if x["cancelled"]}, key=["pre", "post", "run"].index)
    if cancelled_modes:
        stats["cancel_seen"] = 1
        res.count("cancelled_handles", sum(1 for x in wins if x["cancelled"]))
    # differential attribution: a violation that disappears when the cancelled faults are *removed from the
    # schedule* was caused by a cancelled fault still acting.
    if vs and cancelled_modes:
        remaining = list(vs)
        for mode in cancelled_modes:
            keep = [f for f, x in zip(faults, wins) if x["cancelled"] != mode]
            obs2 = w.execute(case, faults=keep, reuse=False)
            if obs2["status"] != "completed":
                continue
            base2 = base if keep else None
            ids2 = {(v.ident, v.oracle, v.shape) for v in evaluate(case, keep, obs2, base2, {})}
            for v in remaining:
                if (v.ident, v.oracle, v.shape) not in ids2 and v.oracle != "cancelled-fault-acted":
                    types = sorted({x["type"] for x in wins if x["cancelled"] == mode})
                    v.detail = f"[caused by a cancelled fault ({mode}; cancelled types {types}); original {v.component}|{v.oracle}|{v.shape}] " + v.detail
                    v.oracle, v.component, v.shape = "cancelled-fault-acted", "FaultHandle", CANCEL_NAMES[mode]
        left = [v for v in remaining if v.oracle != "cancelled-fault-acted"]
        if left and len(cancelled_modes) > 1:
            # several cancelled faults of different kinds may cover one instant: remove them all
            keep = [f for f, x in zip(faults, wins) if not x["cancelled"]]
            obs2 = w.execute(case, faults=keep, reuse=False)
            if obs2["status"] == "completed":
                ids2 = {(v.ident, v.oracle, v.shape) for v in evaluate(case, keep, obs2, base if keep else None, {})}
                for v in left:
                    if (v.ident, v.oracle, v.shape) not in ids2:
                        v.detail = f"[caused by cancelled faults ({cancelled_modes}); original {v.component}|{v.oracle}|{v.shape}] " + v.detail
                        v.oracle, v.component = "cancelled-fault-acted", "FaultHandle"
                        v.shape = "+".join(CANCEL_NAMES[m] for m in cancelled_modes)

    # the same FaultSchedule object attached to further, freshly built worlds: every oracle again on each run.
    # A handle that was cancelled at any point of the first run is cancelled from the start in the later ones.
    later = obs.get("later_runs", [])
    if later:
        faults_later = [dict(f, cancel="pre") if f.get("cancel") else f for f in faults]
        for k_run, obs_k in enumerate(later, start=2):
            if obs_k["status"] != "completed":
                continue
            res.count("reused_schedule_runs")
            stats["reuse_seen"] = 1
            for v in evaluate(case, faults_later, obs_k, base, stats):
                v.ident = ("run", k_run) + tuple(v.ident)
                v.detail = f"[run {k_run} of {len(later) + 1}: one FaultSchedule object attached to a freshly built world with the same names] " + v.detail
                vs.append(v)

    for k, n in stats.items():
        if k.endswith("_seen"):
            continue
        res.count(k, n)
    res.nontrivial = bool(stats.get("overlap_seen") or stats.get("inflight_seen") or stats.get("cancel_seen") or stats.get("randpart_seen") or stats.get("reuse_seen") or stats.get("empty_seen"))
    for k in ("overlap_seen", "inflight_seen", "cancel_seen", "randpart_seen", "reuse_seen", "empty_seen"):
        if stats.get(k):
            res.count("cases_with_" + k[:-5])
    seen = {}
    for v in vs:
        key = (v.component, v.oracle, v.shape)
        seen[key] = seen.get(key, 0) + 1
        if seen[key] == 1:
            res.add(v.oracle, v.component, v.shape, v.detail, {"ident": list(map(str, v.ident))})
    for key, n in seen.items():
        res.seen("violation_keys", "|".join(key))
    return res


# --------------------------------------------------------------------------
# generators


def _gen_windows(rng: random.Random, n: int, lo: int, hi: int, open_ok: bool = False) -> list[list]:
    """n windows [start_ms, end_ms|None] with hostile mutual relations."""
    wins: list[list] = []
    for _ in range(n):
        rel = rng.choice(["random", "overlap", "nested", "contains", "adjacent-after", "adjacent-before", "identical", "same-start", "same-end"])
        if rng.random() < 0.12:
            # a window that is empty at nanosecond resolution (start == end, or shorter than 1 ns): alone, at an
            # edge of / inside another window
            if wins and rng.random() < 0.6:
                rs, re = rng.choice(wins)
                s = rng.choice([rs, re, rng.randrange(min(rs, re), max(rs, re) + 1)])
            else:
                s = rng.randrange(lo, hi - 6)
            s = min(max(1, s), hi + 39)
            wins.append([s, s])
            continue
        if not wins or rel == "random":
            s = rng.randrange(lo, hi - 6)
            e = min(hi, s + rng.choice([1, 2, 5, 10, 20, 40, 80]))
        else:
            rs, re = rng.choice(wins)
            re = re if re is not None else hi
            ln = max(1, re - rs)
            if rel == "overlap":
                s = rng.randrange(rs, re) if re > rs else rs
                e = re + rng.randrange(1, 30)
                if rng.random() < 0.5:
                    s, e = max(lo, rs - rng.randrange(1, 30)), rng.randrange(rs + 1, max(re, rs + 1) + 1)
            elif rel == "nested":
                if ln < 3:
                    s, e = rs, re
                else:
                    s = rng.randrange(rs + 1, re - 1)
                    e = rng.randrange(s + 1, re)
            elif rel == "contains":
                s, e = max(lo, rs - rng.randrange(1, 20)), re + rng.randrange(1, 20)
            elif rel == "adjacent-after":
                s, e = re, re + rng.randrange(1, 30)
            elif rel == "adjacent-before":
                s, e = max(lo - 4, rs - rng.randrange(1, 30)), rs
            elif rel == "identical":
                s, e = rs, re
            elif rel == "same-start":
                s, e = rs, rs + rng.randrange(1, 2 * ln + 2)
            else:
                s, e = max(lo - 4, re - rng.randrange(1, 2 * ln + 2)), re
        s = min(max(1, s), hi + 39)
        e = min(max(e, s + 1), hi + 40)
        wins.append([s, e])
    if open_ok and wins and rng.random() < 0.2:
        rng.choice(wins)[1] = None
    return wins


def _maybe_cancel(rng: random.Random, f: dict, p: float):
    if f.get("end_ms") is not None and f["end_ms"] == f["start_ms"] and rng.random() < 0.5:
        f["sub_ns"] = True  # end = start + 0.4 ns in float seconds: still empty at nanosecond resolution
    if rng.random() >= p:
        return
    mode = rng.choice(["pre", "pre", "post", "run", "run", "run-late"])
    s_ns = f["start_ms"] * MS
    if mode == "run":
        f["cancel"] = ["run", max(1, s_ns - rng.choice([2, 1000, 1 * MS, 5 * MS, s_ns // 2 + 3]))]
        if f["cancel"][1] >= s_ns - 1:
            f["cancel"] = ["run", max(1, s_ns - 2)]
        if s_ns <= 3:
            f["cancel"] = "post"
    elif mode == "run-late":
        if f.get("end_ms") is not None:
            f["cancel"] = ["run", f["end_ms"] * MS + rng.choice([2, 1000, 3 * MS])]
    else:
        f["cancel"] = mode


def _edge_times(rng, windows_ms, p=0.6, offs=(-1, 0, 1)):
    ts = []
    w = _world()
    for s, e in windows_ms:
        for x in (s, e):
            if x is None or rng.random() > p:
                continue
            ns = w.sec_to_ns(x / 1000.0)
            ts.extend(ns + o for o in offs)
    return [t for t in ts if t > 4]


_DELAYS = [0, 1000, 300_000, 1 * MS, 3 * MS, 7 * MS, 15 * MS, 40 * MS]


def _gen_steps(rng, nmax=4, futures=True):
    steps = []
    for _ in range(rng.randrange(1, nmax + 1)):
        d = rng.choice(_DELAYS)
        if d and rng.random() < 0.7:
            d += rng.randrange(1, 999)
        kind = "f" if (futures and rng.random() < 0.2) else "d"
        steps.append([d, int(rng.random() < 0.4), kind])
    return steps


def _dispatched(rng, name, win_ms, ids, steps=False):
    """Events created *during the run* by the never-faulted dispatcher at t=via, due at t (delayed job /
    retry / timer): created inside a window and due after the restart, created inside and due inside,
    created before and due after."""
    out = []
    for s, e in win_ms:
        if e is None or rng.random() > 0.7:
            continue
        s_ns, e_ns = s * MS, e * MS
        for _ in range(rng.randrange(1, 4)):
            mode = rng.choice(["in-after", "in-after", "in-after", "in-in", "before-after", "before-in"])
            inside = s_ns + 2 + rng.randrange(0, max(1, e_ns - s_ns - 4))
            after = e_ns + rng.choice([2, 1000, 1 * MS, 5 * MS, 20 * MS]) + rng.randrange(0, 999)
            before = max(3, s_ns - rng.choice([2, 1000, 1 * MS, 8 * MS]) - rng.randrange(0, 999))
            via, due = {
                "in-after": (inside, after),
                "in-in": (inside, min(e_ns - 2, inside + rng.randrange(1, max(2, e_ns - inside)))),
                "before-after": (before, after),
                "before-in": (before, inside),
            }[mode]
            if due <= via:
                continue
            wk = {"id": next(ids), "to": name, "t": due, "via": via}
            if steps:
                wk["steps"] = _gen_steps(rng, nmax=2)
            else:
                wk["op"] = rng.choice(["work", "emit"])
            out.append(wk)
    return out


def _node_workload(rng, node, win_ms, T_ms, ids, scale=1.0):
    """Arrivals for one node; returns list of work dicts."""
    name, kind = node["name"], node["kind"]
    out = []
    T = T_ms * MS
    if kind in ("plain", "gen", "qdw"):
        out.extend(_dispatched(rng, name, win_ms, ids, steps=(kind != "plain")))
    if kind == "plain":
        ts = [rng.randrange(5, T) for _ in range(int(rng.randrange(10, 35) * scale))] + _edge_times(rng, win_ms)
        for t in ts:
            out.append({"id": next(ids), "to": name, "t": t, "op": rng.choice(["work", "emit"])})
    elif kind in ("gen", "qdw"):
        ts = [rng.randrange(5, T) for _ in range(int(rng.randrange(6, 20) * scale))] + _edge_times(rng, win_ms, p=0.4)
        for s, _e in win_ms:  # aimed: in flight at the window start
            for _ in range(rng.randrange(0, 3)):
                ts.append(max(5, s * MS - rng.choice([1, 1000, 200_000, 2 * MS, 10 * MS, 30 * MS])))
        for t in ts:
            out.append({"id": next(ids), "to": name, "t": t, "steps": _gen_steps(rng)})
        for s, e in win_ms:  # aimed: started before the window, first wake-up due after its end (sleeps through it)
            if e is None or rng.random() > 0.6:
                continue
            for _ in range(rng.randrange(1, 3)):
                t0 = max(5, s * MS - rng.choice([3, 1000, 500_000, 3 * MS]) - rng.randrange(0, 999))
                wake = e * MS + rng.choice([7, 1000, 1 * MS, 6 * MS]) + rng.randrange(0, 999)
                first = [wake - t0, int(rng.random() < 0.4), "f" if rng.random() < 0.25 else "d"]
                out.append({"id": next(ids), "to": name, "t": t0, "steps": [first] + _gen_steps(rng, nmax=2)})
    else:
        n = int(rng.randrange(8, 30) * scale)
        ts = set()
        bursts = [rng.randrange(5, T) for _ in range(rng.randrange(2, 6))]
        for s, _e in win_ms:
            if rng.random() < 0.7:
                bursts.append(max(5, s * MS - rng.choice([100_000, 1 * MS, 4 * MS])))
        for _ in range(n):
            if rng.random() < 0.6:
                ts.add(rng.choice(bursts) + 3 * rng.randrange(0, 400) * rng.choice([1, 1000]))
            else:
                ts.add(rng.randrange(5, T))
        ts.update(t for t in _edge_times(rng, win_ms, p=0.5, offs=(-3, 0, 3)))
        ordered = sorted(ts)
        kept = []
        for t in ordered:
            if not kept or t - kept[-1] >= 3:
                kept.append(t)
        for t in kept:
            wk = {"id": next(ids), "to": name, "t": t}
            if kind == "queued":
                wk["steps"] = [[rng.choice([200_000, 1 * MS, 3 * MS, 6 * MS]) + rng.randrange(0, 999), int(rng.random() < 0.3), "d" if rng.random() < 0.85 else "f"] for _ in range(rng.randrange(1, 3))]
            out.append(wk)
    return out


def _counter(start=1):
    n = start
    while True:
        yield n
        n += 1


def _mk_node(rng, name, kinds, bystander=False):
    kind = rng.choice(kinds)
    n = {"name": name, "kind": kind}
    if bystander:
        n["bystander"] = True
    if kind in ("queued", "server"):
        n["conc"] = rng.choice([1, 1, 2, 3])
    if kind == "qdw":
        c = rng.choice([None, None, 1, 1, 2, 3])
        if c:
            n["conc"] = c
    if kind == "server":
        n["service_ns"] = rng.choice([500_000, 1 * MS, 2 * MS, 5 * MS]) + rng.randrange(0, 999)
    return n


def _horizon(case, T_ms):
    tail = 0
    svc = {n["name"]: n.get("service_ns", 0) for n in case.get("nodes", [])}
    per = {}
    for wk in case.get("work", []):
        d = sum(st[0] for st in wk.get("steps", [])) + svc.get(wk["to"], 0)
        per[wk["to"]] = per.get(wk["to"], 0) + d
    tail = max(per.values(), default=0)
    hold = sum(j["hold_ns"] for j in case.get("jobs", []))
    last = max([w["t"] for w in case.get("work", [])] + [j["t"] for j in case.get("jobs", [])] + [T_ms * MS])
    ends = [f["end_ms"] * MS for f in case.get("faults", []) if f.get("end_ms") is not None]
    return max([last] + ends) + tail + hold + 60 * MS


def _node_part(rng, case, ids, T_ms, n_faults, p_cancel, kinds=("plain", "gen", "queued", "server", "qdw"), scale=1.0, extra_targets=()):
    k = rng.randrange(1, 4)
    targets = [_mk_node(rng, f"t{i}", kinds) for i in range(k)]
    bystanders = [_mk_node(rng, f"b{i}", ("plain", "gen", "queued", "server", "qdw"), bystander=True) for i in range(rng.randrange(1, 3))]
    case["nodes"].extend(targets + bystanders)
    names = [t["name"] for t in targets] + list(extra_targets)
    hot = rng.choice(names)
    wins = _gen_windows(rng, n_faults, 5, T_ms - 40, open_ok=True)
    per_target: dict[str, list] = {n: [] for n in names}
    for s, e in wins:
        tgt = hot if rng.random() < 0.7 else rng.choice(names)
        typ = rng.choice(NODE_FAULTS) if e is not None else "CrashNode"
        f = {"type": typ, "target": tgt, "start_ms": s, "end_ms": e}
        _maybe_cancel(rng, f, p_cancel)
        case["faults"].append(f)
        per_target[tgt].append([s, e])
    allw = [w for ws in per_target.values() for w in ws]
    for n in targets:
        case["work"].extend(_node_workload(rng, n, per_target[n["name"]], T_ms, ids, scale))
    for n in bystanders:
        case["work"].extend(_node_workload(rng, n, allw, T_ms, ids, 0.5 * scale))
    return per_target


def _net_part(rng, case, ids, T_ms, n_faults, p_cancel, scale=1.0):
    k = rng.choice([3, 4, 4, 5])
    names = [f"n{i}" for i in range(k)]
    case["nodes"].extend({"name": n, "kind": "plain"} for n in names)
    links = []
    for i in range(k):
        for j in range(i + 1, k):
            a, b = names[i], names[j]
            if rng.random() < 0.4:
                links.append({"a": a, "b": b, "base_ns": rng.randrange(1, 9) * MS + rng.randrange(0, 999), "bidir": True})
            else:
                links.append({"a": a, "b": b, "base_ns": rng.randrange(1, 9) * MS + rng.randrange(0, 999)})
                links.append({"a": b, "b": a, "base_ns": rng.randrange(1, 9) * MS + rng.randrange(0, 999)})
    # a third of the networks have links whose base latency is not a ConstantLatency: a harness
    # LatencyDistribution subclass with recorded samples (exact additive oracle) or the library's ExponentialLatency
    if rng.random() < 0.35:
        for ln in links:
            r = rng.random()
            if r < 0.45:
                ln["dist"], ln["dist_seed"] = "scripted", rng.randrange(1, 10**6)
            elif r < 0.65:
                ln["dist"] = "exp"
    case["net"] = {"nodes": names, "links": links}
    hot = rng.sample(names, 2)
    wins = _gen_windows(rng, n_faults, 5, T_ms - 40)
    touched = {tuple(hot)}
    mix = rng.choice(
        [
            ["NetworkPartition", "InjectLatency", "InjectPacketLoss"],
            ["NetworkPartition"],
            ["InjectLatency"],
            ["InjectPacketLoss"],
            ["InjectLatency", "InjectPacketLoss"],
        ]
    )
    for s, e in wins:
        src, dst = hot if rng.random() < 0.8 else rng.sample(names, 2)
        if rng.random() < 0.15:
            src, dst = dst, src
        touched.add((src, dst))
        typ = rng.choice(mix)
        if typ == "NetworkPartition":
            others = [n for n in names if n not in (src, dst)]
            a, b = [src], [dst]
            for o in others:
                r = rng.random()
                if r < 0.3:
                    a.append(o)
                elif r < 0.6:
                    b.append(o)
            f = {"type": typ, "a": a, "b": b, "asym": rng.random() < 0.4, "start_ms": s, "end_ms": e}
        elif typ == "InjectLatency":
            f = {"type": typ, "src": src, "dst": dst, "extra_ms": rng.choice([1, 2.5, 5, 10, 20]), "start_ms": s, "end_ms": e}
        else:
            f = {"type": typ, "src": src, "dst": dst, "rate": 1.0, "start_ms": s, "end_ms": e}
        _maybe_cancel(rng, f, p_cancel)
        case["faults"].append(f)
    # probes: periodic on touched links (both directions) and on one untouched link, plus window edges
    pairs = set(touched) | {(b, a) for a, b in touched}
    rest = [(a, b) for a in names for b in names if a != b and (a, b) not in pairs]
    if rest:
        pairs.add(rng.choice(rest))
    T = (T_ms + 30) * MS
    for src, dst in sorted(pairs):
        period = int(rng.choice([2, 3, 5, 7]) * MS / max(scale, 0.2)) + rng.randrange(1, 999)
        t = rng.randrange(5, period)
        while t < T:
            case["work"].append({"id": next(ids), "to": src, "t": t, "op": "send", "dst": dst})
            t += period
        if (src, dst) in touched or (dst, src) in touched:
            for t in _edge_times(rng, wins, p=0.5):
                case["work"].append({"id": next(ids), "to": src, "t": t, "op": "send", "dst": dst})
    # a RandomPartition living on the same Network as the window-based faults: its fault / heal cycles
    # (own RNG, several per window) must leave the windows of the NetworkPartition targets intact
    has_part = any(f["type"] == "NetworkPartition" for f in case["faults"])
    if rng.random() < (0.5 if has_part else 0.1):
        others = [n for n in names if n not in hot]
        rel = rng.choice(["disjoint", "disjoint", "overlap", "superset", "hot-pair"])
        if rel == "disjoint" and len(others) >= 2:
            rnodes = others
        elif rel == "overlap" and others:
            rnodes = [rng.choice(hot)] + others
        elif rel == "hot-pair":
            rnodes = list(hot)
        else:
            rnodes = list(names)
        f = {
            "type": "RandomPartition",
            "nodes": rnodes,
            "mtbf_ms": rng.choice([3, 6, 12, 25]),
            "mttr_ms": rng.choice([2, 5, 10, 20]),
            "seed": rng.randrange(1, 10**6),
        }
        if rng.random() < p_cancel:
            f["cancel"] = rng.choice(["pre", "post"])
        case["faults"].insert(rng.randrange(0, len(case["faults"]) + 1), f)
        if len(rnodes) >= 2:  # probe one pair of the random set in both directions, whatever the windows touch
            ra, rb = rng.sample(rnodes, 2)
            for src, dst in ((ra, rb), (rb, ra)):
                if (src, dst) in pairs:
                    continue
                period = int(rng.choice([2, 3, 5]) * MS / max(scale, 0.2)) + rng.randrange(1, 999)
                t = rng.randrange(5, period)
                while t < T:
                    case["work"].append({"id": next(ids), "to": src, "t": t, "op": "send", "dst": dst})
                    t += period
    return names


def _cap_part(rng, case, ids, T_ms, n_faults, p_cancel, scale=1.0):
    nres = rng.choice([1, 1, 2])
    ress = [{"name": f"r{i}", "cap": rng.choice([2, 3, 4, 5, 6, 8, 10])} for i in range(nres)]
    case["resources"] = ress
    hot = rng.choice(ress)
    wins = _gen_windows(rng, n_faults, 5, T_ms - 40)
    minred = {r["name"]: float(r["cap"]) for r in ress}
    per = {r["name"]: [] for r in ress}
    perf: dict = {}
    for s, e in wins:
        r = hot if rng.random() < 0.75 else rng.choice(ress)
        facs = [f for f in (0.2, 0.25, 0.5, 0.5, 0.75, 0.9) if r["cap"] * f >= 1.0]
        fac = rng.choice(facs)
        f = {"type": "ReduceCapacity", "res": r["name"], "factor": fac, "start_ms": s, "end_ms": e}
        _maybe_cancel(rng, f, p_cancel)
        case["faults"].append(f)
        minred[r["name"]] = min(minred[r["name"]], r["cap"] * fac)
        per[r["name"]].append([s, e])
        perf.setdefault(r["name"], []).append((s, e, fac))
    T = T_ms * MS
    aimed_samples = []
    for r in ress:
        amax = max(1, int(minred[r["name"]]))
        # aimed: a stronger window A ending inside a weaker window B, a holder across both, a waiter queued under A
        fl = perf.get(r["name"], [])
        for (sa, ea, fa) in fl:
            for (sb, eb, fb) in fl:
                if fa < fb and sb < ea < eb and r["cap"] * fb - amax >= 1 and rng.random() < 0.8:
                    t_hold = max(1300, (min(sa, sb) * MS - rng.choice([1, 3]) * MS) // 1000 * 1000 + 300)
                    case["jobs"].append({"id": next(ids), "res": r["name"], "t": t_hold, "amount": amax, "hold_ns": (eb * MS - t_hold) // 1000 * 1000 + rng.choice([2, 10]) * MS})
                    t_wait = max(max(sa, sb) * MS + 1000, ea * MS - rng.choice([1, 2, 3]) * MS) // 1000 * 1000 + 300
                    if t_wait < ea * MS:
                        case["jobs"].append({"id": next(ids), "res": r["name"], "t": t_wait, "amount": rng.randrange(1, amax + 1), "hold_ns": rng.choice([1, 2]) * MS})
                        aimed_samples += [_world().sec_to_ns(ea / 1000.0) + 1, ea * MS + 200_123]
        n = int(rng.randrange(8, 36) * scale)
        starts = [rng.randrange(1, T // 1000) * 1000 + 300 for _ in range(n)]
        for s, _e in per[r["name"]]:  # aimed: holders across the window start, acquirers inside
            for _ in range(rng.randrange(0, 3)):
                starts.append(max(1300, (s * MS - rng.choice([1, 3, 8, 20]) * MS) // 1000 * 1000 + 300))
                starts.append((s * MS + rng.choice([1, 2, 5]) * MS) // 1000 * 1000 + 300)
        for t in starts:
            case["jobs"].append(
                {
                    "id": next(ids),
                    "res": r["name"],
                    "t": t,
                    "amount": rng.randrange(1, amax + 1),
                    "hold_ns": rng.choice([1, 2, 5, 10, 20, 40]) * MS + rng.randrange(0, 900) * 1000,
                }
            )
    samples = set()
    step = rng.choice([1, 2, 3])
    for kms in range(1, T_ms + 60, step):
        samples.add(kms * MS + 500_123)
    for t in _edge_times(rng, wins, p=0.7, offs=(-1, 1)):
        samples.add(t)
    samples.update(aimed_samples)
    case["samples"] = sorted(samples)


def _reuse(rng, case):
    """In a fifth of the cases the one FaultSchedule object is attached to two or three freshly built worlds."""
    if rng.random() < 0.2:
        case["reuse_runs"] = rng.choice([2, 2, 3])


def _new_case(fam):
    return {"v": 1, "family": fam, "nodes": [], "work": [], "jobs": [], "faults": [], "resources": [], "samples": []}


def gen_node(rng: random.Random, tier: str) -> dict:
    case = _new_case("node")
    ids = _counter()
    T_ms = rng.choice([120, 200])
    _node_part(rng, case, ids, T_ms, rng.randrange(1, 7), rng.choice([0.0, 0.0, 0.15, 0.3]))
    _reuse(rng, case)
    case["horizon_ns"] = _horizon(case, T_ms)
    return case


def gen_net(rng: random.Random, tier: str) -> dict:
    case = _new_case("net")
    ids = _counter()
    T_ms = rng.choice([120, 200])
    _net_part(rng, case, ids, T_ms, rng.randrange(1, 7), rng.choice([0.0, 0.0, 0.15, 0.3]))
    _reuse(rng, case)
    case["horizon_ns"] = _horizon(case, T_ms + 40)
    return case


def gen_capacity(rng: random.Random, tier: str) -> dict:
    case = _new_case("capacity")
    ids = _counter()
    T_ms = rng.choice([120, 200])
    _cap_part(rng, case, ids, T_ms, rng.randrange(1, 6), rng.choice([0.0, 0.0, 0.15, 0.3]))
    _reuse(rng, case)
    case["horizon_ns"] = _horizon(case, T_ms)
    return case


def gen_mixed(rng: random.Random, tier: str) -> dict:
    case = _new_case("mixed")
    ids = _counter()
    T_ms = rng.choice([120, 200])
    pc = rng.choice([0.0, 0.1, 0.25])
    names = _net_part(rng, case, ids, T_ms, rng.randrange(1, 4), pc, scale=0.6)
    _node_part(rng, case, ids, T_ms, rng.randrange(1, 4), pc, scale=0.6, extra_targets=tuple(rng.sample(names, 1)))
    _cap_part(rng, case, ids, T_ms, rng.randrange(1, 3), pc, scale=0.6)
    rng.shuffle(case["faults"])  # creation order of the fault events is part of the schedule
    _reuse(rng, case)
    case["horizon_ns"] = _horizon(case, T_ms + 40)
    return case


# --------------------------------------------------------------------------
# shrinking (best effort, keeps the case well-formed)


def _known_keys() -> set:
    try:
        from hsverif import findings as kf

        return {kf.key_of(e) for e in kf.for_property(PID) if e.get("status") == "known"}
    except Exception:  # noqa: BLE001
        return set()


def shrink(case: dict, still_fails) -> dict:
    # Effort saver only (never affects a verdict): a case whose violations all carry the key of a listed
    # known finding is not worth minimising - the pinned witness of that finding is already minimal.
    known = _known_keys()
    if known:
        last = _LAST["res"] if _LAST["case"] is case else run(case)
        keys = {v.key() for v in last.violations}
        if keys and keys <= known:
            _LAST["case"], _LAST["res"], _LAST["reuse"] = case, last, True
            return case
    cur = copy.deepcopy(case)

    def with_(key, items):
        c = copy.deepcopy(cur)
        c[key] = items
        return c

    for key in ("faults", "work", "jobs", "samples"):
        items = cur.get(key) or []
        if len(items) < 2:
            continue
        small = ddmin(items, lambda cand, key=key: still_fails(with_(key, cand)), max_tests=40)
        if still_fails(with_(key, small)):
            cur[key] = small
    # drop nodes nobody refers to
    used = {w["to"] for w in cur.get("work", [])} | {w.get("dst") for w in cur.get("work", [])}
    used |= {f.get("target") for f in cur["faults"]}
    if cur.get("net"):
        used |= set(cur["net"]["nodes"])
    c = copy.deepcopy(cur)
    c["nodes"] = [n for n in cur["nodes"] if n["name"] in used]
    if still_fails(c):
        cur = c
    return cur


FAMILIES = {
    "node": Family("node", gen_node, run, shrink=shrink, case_timeout=60.0),
    "net": Family("net", gen_net, run, shrink=shrink, case_timeout=60.0),
    "capacity": Family("capacity", gen_capacity, run, shrink=shrink, case_timeout=60.0),
    "mixed": Family("mixed", gen_mixed, run, shrink=shrink, case_timeout=60.0),
}
# Importing happysimulator costs ~5 s per worker process (no bytecode cache), far more than the cases of a
# small shard; the runner honours an optional per-family shard size.
for _name, _size in (("node", 200), ("net", 200), ("capacity", 400), ("mixed", 134)):
    FAMILIES[_name].shard_size = _size
BUDGET = {
    "quick": {"node": 800, "net": 600, "capacity": 800, "mixed": 400},
    "thorough": {"node": 30000, "net": 20000, "capacity": 30000, "mixed": 15000},
}

"""C11  Raft: one leader per term, matching logs, durable commits, identical applies.

Monitor shape: the real RaftNode cluster (3-5 nodes) runs on a scripted
adversarial network (hsverif.chaosnet) with partitions and crash/restart from
the library's own faults package; a monitor samples public node state after
every delivered event and a recording StateMachine sees every apply.
See hsverif/c11_monitor.py for the oracles.
"""

from __future__ import annotations

import random

from hsverif.chaosnet import random_script
from hsverif.core import Family, Result
from hsverif import c11_monitor as M

PID = "C11"
LEVEL = "exploration"
RULE = (
    "chaos: clusters of 3-5 real RaftNodes on ChaosLinks (generated per-message delay scripts: uniform, bimodal with "
    "a tail longer than the election timeout, per-link asymmetric, per-message-type holds/drops; iid loss up to 30%), "
    "election timeout / heartbeat from a grid, 0-3 partition windows (symmetric or one-way, arbitrary groups) and 0-3 "
    "crash/restart windows from happysimulator.faults, a client submitting unique commands at generated instants to every "
    "/ one node that currently claims leadership (stale leaders included) or to an arbitrary node; 30% of the cases have a "
    "bursty client (up to 30 commands per instant: long logs, long stale suffixes, far-behind followers). duel: same, but two "
    "chosen nodes time out almost together and RequestVote / AppendEntries on chosen links are held for a generated time "
    "(aims at votes racing heartbeats and at stale followers with longer logs). staleack / fig8: randomised scripted "
    "adversaries (roles permuted over 5 nodes, every instant jittered and scaled, free seeds) - old-term acknowledgements "
    "held until their addressee leads again; an old-term entry reaching a majority only under a later leader while a third "
    "node holds an unreplicated entry of a term in between; catchup (3 nodes): a deposed leader with a long committed prefix "
    "and a stale suffix is caught up, after delayed rejections and lost retries, from far below its divergence point by a "
    "leader whose commit index lies beyond it; revote: restarts modelled as a user does them (CrashNode window, then the "
    "node's public start() is called again) in the middle of elections with slow RequestVotes in flight - 60% aimed at the "
    "first election (two equal-timeout candidates, voters with long timeouts crashed and start()ed before the slower "
    "candidate's RequestVote arrives), 40% many short windows at arbitrary election instants; 60% of the restarting crash "
    "windows of chaos / duel are also followed by start(). calm: loss-free network with all delays "
    "< 1/10 of the minimum election timeout and heartbeat <= 1/3 of it; once one leader is established (all nodes in its "
    "term and naming it, continuously for 2 max-delays) K commands are submitted to it; every node must have applied "
    "exactly those K commands in submission order and every future must be resolved within (K+3)*(heartbeat + 2*max delay) "
    "of the last submit. Safety oracles run in all families after every delivered event. Non-trivial: the run saw >= 2 "
    "candidacies (distinct node,term self-votes) and >= 1 committed command (calm: leader established and K submitted). "
    "Distinct by hash of the case; evidence also lists distinct delivery-order hashes and (term:leader) histories."
)
ASSUMPTIONS = [
    "election timeouts come from the global `random` module, which the harness seeds per case; everything else is scripted",
    "a node's public state changes only while an event addressed to it is delivered or while the harness calls submit() on it "
    "(so sampling the target after each delivery sees every state)",
    "Log changes only by suffix truncation + append (its public API); the incremental diff relies on LogEntry identity and is "
    "backed by a full scan of every log every 512 samples and at the end of the run",
    "crash = the library's CrashNode (events to the node are dropped, all node state is kept); crash windows of one node do not "
    "overlap (overlapping windows are C06's subject); a restart is either just the end of the window (timers that fell into it "
    "stay lost) or, as a user would do it, followed by a second call of the node's public start()",
    "'committed' = covered by some node's own commit_index; 'later leader' = a node observed LEADER in a term greater than the "
    "term of the node that first committed the entry, at or after that moment",
    "the k-th apply() call on a node's state machine is its apply of log index k (apply() does not receive the index); this is "
    "checked against log.get(k) at the moment of the call",
    "calm liveness bound: (K+3)*(heartbeat_interval + 2*max_delay) after the last submit",
]
MUST_OBSERVE = ["samples", "applies_checked", "leader_terms", "commits_recorded", "futures_resolved"]

MSG_TYPES = ["RaftRequestVote", "RaftVoteResponse", "RaftAppendEntries", "RaftAppendEntriesResponse"]


# --------------------------------------------------------------------------
# generators


def _r(x: float) -> float:
    return round(x, 6)


def _timing(rng: random.Random):
    et_min = rng.choice([0.15, 0.3, 0.5, 1.0])
    et_max = _r(et_min * rng.choice([1.2, 1.5, 2.0]))
    hb = _r(et_min * rng.choice([0.1, 0.2, 0.33, 0.5]))
    return et_min, et_max, hb


def _faults(rng: random.Random, names: list[str], dur: float, et: float) -> list[dict]:
    faults = []
    for _ in range(rng.choice([0, 0, 1, 1, 2, 3])):
        perm = names[:]
        rng.shuffle(perm)
        cut = rng.randrange(1, len(perm))
        a, b = perm[:cut], perm[cut:]
        if rng.random() < 0.3 and len(b) > 1:
            b = b[: rng.randrange(1, len(b))]
        start = _r(rng.uniform(0.5 * et, dur * 0.85))
        end = _r(start + rng.choice([1, 2, 4, 8]) * et * rng.uniform(0.5, 1.5))
        faults.append({"kind": "partition", "a": a, "b": b, "start": start, "end": end, "asym": rng.random() < 0.25})
    busy: dict[str, float] = {}
    for _ in range(rng.choice([0, 0, 1, 1, 2, 3])):
        node = rng.choice(names)
        lo = busy.get(node, 0.5 * et)
        if lo >= dur * 0.9:
            continue
        at = _r(rng.uniform(lo, dur * 0.9))
        if rng.random() < 0.85:
            restart = _r(at + rng.choice([0.05, 0.5, 1, 3, 6]) * et * rng.uniform(0.5, 1.5))
            busy[node] = restart + 0.01
            if rng.random() < 0.6:
                # restart as a user would do it: start() is called again shortly after the node is back
                start_at = _r(restart + rng.choice([0.001, 0.02, 0.1]) * et)
                busy[node] = start_at + 0.01
                faults.append({"kind": "crash", "node": node, "at": at, "restart_at": restart, "start_at": start_at})
                continue
        else:
            restart = None
            busy[node] = dur
        faults.append({"kind": "crash", "node": node, "at": at, "restart_at": restart})
    return faults


def _ticks(rng: random.Random, dur: float, et_max: float) -> list[dict]:
    m = rng.choice([4, 10, 25, 60])
    ts = sorted(_r(rng.uniform(min(et_max * 1.2, dur * 0.3), dur * 0.97)) for _ in range(m))
    ticks = [{"t": t, "mode": rng.choice(["all", "all", "one", "any"]), "pick": rng.randrange(60)} for t in ts]
    if rng.random() < 0.3:
        # bursty client: long logs, long uncommitted suffixes on isolated / stale leaders, far-behind followers
        for tk in ticks:
            c = rng.choice([1, 1, 4, 12, 30])
            if c > 1:
                tk["count"] = c
    return ticks


def gen_chaos(rng: random.Random, tier: str) -> dict:
    n = rng.choice([3, 3, 4, 5, 5])
    names = [f"n{i}" for i in range(n)]
    et_min, et_max, hb = _timing(rng)
    dur = _r(et_max * rng.choice([10, 16, 25]))
    return {
        "n": n,
        "et": [et_min, et_max],
        "hb": hb,
        "seed": rng.randrange(1 << 30),
        "duration": dur,
        "script": random_script(rng, names, MSG_TYPES, timeout_scale=et_min),
        "faults": _faults(rng, names, dur, et_max),
        "ticks": _ticks(rng, dur, et_max),
    }


def gen_duel(rng: random.Random, tier: str) -> dict:
    """Aimed schedules: held votes / heartbeats on chosen links, frequent re-elections."""
    n = rng.choice([3, 3, 5])
    names = [f"n{i}" for i in range(n)]
    et_min = rng.choice([0.3, 1.0])
    et_max = _r(et_min * rng.choice([1.05, 1.2, 1.5]))  # narrow window: near-simultaneous candidates
    hb = _r(et_min * rng.choice([0.1, 0.2, 0.33]))
    dur = _r(et_max * rng.choice([12, 20]))
    rules = []
    for _ in range(rng.randrange(2, 7)):
        typ = rng.choice(["RaftRequestVote", "RaftRequestVote", "RaftAppendEntries", "RaftVoteResponse", "RaftAppendEntriesResponse"])
        lo = rng.uniform(0, dur * 0.8)
        src = rng.choice(names + [None])
        rules.append(
            {
                "src": src,
                "dst": rng.choice([x for x in names if x != src]),
                "type": typ,
                "nth": None,
                "after": _r(lo),
                "before": _r(lo + et_min * rng.choice([0.5, 2, 6, 100])),
                "delay": _r(et_min * rng.choice([0.05, 0.3, 0.6, 0.9, 1.3, 2.5, 5.0]) * rng.uniform(0.8, 1.2)),
                "drop": rng.random() < 0.1,
            }
        )
    script = {
        "seed": rng.randrange(1 << 30),
        "family": rng.choice(["uniform", "bimodal"]),
        "base": [0.001 * et_min, rng.choice([0.02, 0.1, 0.3]) * et_min],
        "slow": [0.3 * et_min, rng.choice([1.0, 2.0]) * et_min],
        "p_slow": rng.choice([0.05, 0.15]),
        "loss": rng.choice([0.0, 0.0, 0.1]),
        "rules": rules,
    }
    return {
        "n": n,
        "et": [et_min, et_max],
        "hb": hb,
        "seed": rng.randrange(1 << 30),
        "duration": dur,
        "script": script,
        "faults": _faults(rng, names, dur, et_max) if rng.random() < 0.6 else [],
        "ticks": _ticks(rng, dur, et_max),
    }


def gen_staleack(rng: random.Random, tier: str) -> dict:
    """Scripted adversary, randomised: acknowledgements of an old term are held in the network until
    their addressee leads again in a later term with different entries at the same indices.

    Roles (a random permutation of 5 nodes): A leads first and replicates only to B, whose
    acknowledgements are held; X is forced to win the next term among {X,Y,Z} (the timers of the other
    two are dropped by short crashes) and overwrites index 1; A is then forced to win again, is cut
    from Z, gets new commands and one genuine acknowledgement from Y while B's old ones arrive;
    finally only B, X, Z stay up.  All instants are jittered and scaled; seeds are free, so many cases do not
    line up - those are ordinary chaos runs.
    """
    perm = [f"n{i}" for i in range(5)]
    rng.shuffle(perm)
    A, B, X, Y, Z = perm
    s = rng.choice([0.3, 0.5, 1.0])

    def t(x):
        return _r((x + rng.uniform(-0.02, 0.02)) * s)

    hold = rng.choice([6.9, 6.9, 6.9, 6.5, 7.3, 5.0])
    d0 = _r(rng.uniform(0.0005, 0.004) * s)
    n_first = rng.choice([1, 2, 3, 5])
    n_second = rng.choice([1, 2, 3])
    faults = [{"kind": "crash", "node": v, "at": t(0.9), "restart_at": t(1.25)} for v in (B, X, Y, Z)]
    faults += [
        {"kind": "partition", "a": [A], "b": [X, Y, Z], "start": t(3.0), "end": t(6.0), "asym": False},
        {"kind": "crash", "node": Y, "at": t(3.75), "restart_at": t(4.3)},
        {"kind": "crash", "node": Z, "at": t(3.75), "restart_at": t(4.3)},
        {"kind": "crash", "node": B, "at": t(4.0), "restart_at": t(10.7)},
        {"kind": "crash", "node": A, "at": t(4.35), "restart_at": t(6.02)},
        {"kind": "crash", "node": X, "at": t(7.0), "restart_at": t(10.7)},
        {"kind": "crash", "node": Y, "at": t(7.75), "restart_at": t(8.25)},
        {"kind": "crash", "node": Z, "at": t(7.75), "restart_at": t(8.25)},
        {"kind": "partition", "a": [A], "b": [Z], "start": t(9.8), "end": t(30.0), "asym": False},
        {"kind": "crash", "node": Y, "at": t(10.6), "restart_at": None},
        {"kind": "crash", "node": A, "at": t(10.6), "restart_at": None},
    ]
    ticks = [{"t": t(3.1 + 0.03 * j), "mode": "all", "pick": 0} for j in range(n_first)]
    ticks.append({"t": t(5.7), "mode": "all", "pick": 0})
    ticks += [{"t": t(9.9 + 0.04 * j), "mode": "all", "pick": 0} for j in range(n_second)]
    ticks.append({"t": t(12.5), "mode": "all", "pick": 0})
    ticks.sort(key=lambda k: k["t"])
    return {
        "n": 5,
        "et": [_r(1.0 * s), _r(1.2 * s)],
        "hb": _r(0.2 * s),
        "seed": rng.randrange(1 << 30),
        "duration": _r(14.0 * s),
        "script": {
            "seed": rng.randrange(1 << 30),
            "family": "fixed",
            "base": [d0, d0],
            "loss": 0.0,
            "rules": [
                {
                    "src": B,
                    "dst": A,
                    "type": "RaftAppendEntriesResponse",
                    "nth": None,
                    "after": t(3.05),
                    "before": t(3.9),
                    "delay": _r(hold * s),
                    "drop": False,
                }
            ],
        },
        "faults": faults,
        "ticks": ticks,
        "roles": {"A": A, "B": B, "X": X, "Y": Y, "Z": Z},
    }


def gen_fig8(rng: random.Random, tier: str) -> dict:
    """Scripted adversary, randomised: an entry of an old term reaches a majority only under a later
    leader that has no entry of its own term, while a third node holds an unreplicated entry of a term in
    between (figure 8 of the Raft paper).  Legal for a correct implementation (the old entry is simply not
    committed and may be overwritten); refutes one that commits entries of earlier terms by counting replicas.

    Roles S1..S5 (random permutation).  S1 leads first, is cut from S3,S4,S5 and replicates `a` to S2 only;
    S5 is forced to win the next term among {S3,S4,S5}, is isolated and takes `b` that nobody receives;
    S1 is forced to win again (no new command), spreads `a`; S1 stops, S5 is forced to win.
    """
    perm = [f"n{i}" for i in range(5)]
    rng.shuffle(perm)
    S1, S2, S3, S4, S5 = perm
    s = rng.choice([0.3, 0.5, 1.0])

    def t(x):
        return _r((x + rng.uniform(-0.02, 0.02)) * s)

    d0 = _r(rng.uniform(0.0005, 0.004) * s)
    faults = [{"kind": "crash", "node": v, "at": t(0.9), "restart_at": t(1.25)} for v in (S2, S3, S4, S5)]
    faults += [
        # three windows with pairwise disjoint node pairs (healing one must not lift another: that is C06's subject)
        {"kind": "partition", "a": [S1], "b": [S3, S4], "start": t(3.0), "end": t(5.9), "asym": False},
        {"kind": "partition", "a": [S1], "b": [S5], "start": t(3.0), "end": t(8.2), "asym": False},
        {"kind": "crash", "node": S2, "at": t(3.6), "restart_at": t(6.0)},
        {"kind": "crash", "node": S3, "at": t(3.75), "restart_at": t(4.3)},
        {"kind": "crash", "node": S4, "at": t(3.75), "restart_at": t(4.3)},
        {"kind": "partition", "a": [S5], "b": [S2, S3, S4], "start": t(5.5), "end": t(8.2), "asym": False},
        {"kind": "crash", "node": S3, "at": t(6.4), "restart_at": t(6.9)},
        {"kind": "crash", "node": S4, "at": t(6.4), "restart_at": t(6.9)},
        {"kind": "crash", "node": S1, "at": t(8.0), "restart_at": None},
        {"kind": "crash", "node": S2, "at": t(8.9), "restart_at": t(9.65)},
        {"kind": "crash", "node": S3, "at": t(8.9), "restart_at": t(9.65)},
        {"kind": "crash", "node": S4, "at": t(8.9), "restart_at": t(9.65)},
    ]
    ticks = [{"t": t(3.1 + 0.03 * j), "mode": "node", "node": S1, "pick": 0} for j in range(rng.choice([1, 1, 2, 3]))]
    ticks += [{"t": t(5.6 + 0.03 * j), "mode": "node", "node": S5, "pick": 0} for j in range(rng.choice([1, 1, 2]))]
    ticks.append({"t": t(12.0), "mode": "all", "pick": 0})
    ticks.sort(key=lambda k: k["t"])
    return {
        "n": 5,
        "et": [_r(1.0 * s), _r(1.2 * s)],
        "hb": _r(0.2 * s),
        "seed": rng.randrange(1 << 30),
        "duration": _r(13.0 * s),
        "script": {"seed": rng.randrange(1 << 30), "family": "fixed", "base": [d0, d0], "loss": 0.0, "rules": []},
        "faults": faults,
        "ticks": ticks,
        "roles": {"S1": S1, "S2": S2, "S3": S3, "S4": S4, "S5": S5},
    }


def gen_catchup(rng: random.Random, tier: str) -> dict:
    """Scripted adversary, randomised: a far-behind follower with a conflicting suffix is caught up from
    a point far *below* the place where its log really diverges, by a leader whose commit point lies beyond it.

    Roles A, B, C (random permutation of 3 nodes); election timeout E is long against the heartbeat h.
    A leads first and commits a long prefix (P entries, burst submit); A is cut off and, still claiming
    leadership, accepts a burst of commands that never commit (stale suffix); B is forced to win, commits
    d entries at the same indices; B crashes briefly (its heartbeat timer is lost) so C takes over with
    next_index[A] beyond A's log; the partition heals but A's replies to C take D seconds, so D/h rejections of
    the same heartbeat are in flight; C->A is then cut while they arrive (each one backs next_index[A] up by one,
    the retries are lost); when C->A heals the first AppendEntries A sees starts near the beginning of the log and
    carries a commit index beyond A's divergence point.  Legal for a correct implementation (that message carries
    every later entry, so the conflict is found and the suffix replaced before anything is committed).
    """
    perm = ["n0", "n1", "n2"]
    rng.shuffle(perm)
    A, B, C = perm
    s = rng.choice([0.5, 1.0])
    E = rng.choice([4.5, 5.0])
    h = rng.choice([0.08, 0.1])
    D = rng.choice([2.6, 3.0, 3.3])

    def t(x):
        return _r((x + rng.uniform(-0.02, 0.02)) * s)

    d0 = _r(rng.uniform(0.0005, 0.004) * s)
    n_base = rng.choice([22, 25, 30, 45])
    n_stale = rng.choice([1, 2, 3, 6])
    n_new = rng.choice([3, 3, 5])
    heal = 7.0 * E
    cut0 = heal + D - 0.05
    cut1 = heal + 2 * D + 0.5
    faults = [
        {"kind": "crash", "node": B, "at": t(0.9 * E), "restart_at": t(1.25 * E)},
        {"kind": "crash", "node": C, "at": t(0.9 * E), "restart_at": t(1.25 * E)},
        {"kind": "partition", "a": [A], "b": [B, C], "start": t(3.0 * E), "end": t(heal), "asym": False},
        {"kind": "crash", "node": C, "at": t(3.9 * E), "restart_at": t(4.2 * E)},
        {"kind": "crash", "node": B, "at": t(5.6 * E), "restart_at": t(5.6 * E + 0.45)},
        {"kind": "partition", "a": [C], "b": [A], "start": t(cut0), "end": t(cut1), "asym": True},
    ]
    ticks = [
        {"t": t(2.6 * E), "mode": "node", "node": A, "pick": 0, "count": n_base},
        {"t": t(3.0 * E + 0.3), "mode": "node", "node": A, "pick": 0, "count": n_stale},
        {"t": t(5.4 * E), "mode": "node", "node": B, "pick": 0, "count": n_new},
        {"t": t(cut1 + 1.5), "mode": "all", "pick": 0},
    ]
    return {
        "n": 3,
        "et": [_r(E * s), _r(1.1 * E * s)],
        "hb": _r(h * s),
        "seed": rng.randrange(1 << 30),
        "duration": _r((cut1 + 2.5) * s),
        "script": {
            "seed": rng.randrange(1 << 30),
            "family": "fixed",
            "base": [d0, d0],
            "loss": 0.0,
            "rules": [
                {
                    "src": A,
                    "dst": C,
                    "type": "RaftAppendEntriesResponse",
                    "nth": None,
                    "after": t(heal - 0.1),
                    "before": t(cut1),
                    "delay": _r(D * s),
                    "drop": False,
                }
            ],
        },
        "faults": faults,
        "ticks": ticks,
        "roles": {"A": A, "B": B, "C": C},
    }


def _gen_revote_aimed(rng: random.Random) -> dict:
    """Two candidates A, B with (nearly) the same timeout, the other nodes time out much later (per-node
    election timeouts are constructor parameters).  A is close to the voters, B's RequestVotes to them are
    slow and A's heartbeats to B slower still.  Each voter is crashed shortly after the election starts,
    restarted and start()ed again before B's RequestVote of the same term arrives.  A voter that kept its
    vote refuses B; every instant is jittered, so in many cases the windows miss."""
    n = rng.choice([3, 3, 3, 5])
    names = [f"n{i}" for i in range(n)]
    rng.shuffle(names)
    A, B, voters = names[0], names[1], names[2:]
    E = rng.choice([0.5, 1.0, 2.0])
    w = rng.choice([0.0, 0.0, 0.005])
    d_fast = rng.uniform(0.003, 0.02) * E
    d_bv = rng.uniform(0.2, 0.6) * E  # B -> voters
    d_ab = min(0.95 * E, d_bv + rng.uniform(0.1, 0.5) * E)  # A -> B (B must not hear the winner in time)
    base = 0.01 * E
    asym = {f"{a}>{b}": _r(d_fast / base) for a in names for b in names if a != b}
    for v in voters:
        asym[f"{B}>{v}"] = _r(d_bv * rng.uniform(0.9, 1.1) / base)
    asym[f"{A}>{B}"] = _r(d_ab / base)
    if rng.random() < 0.5:
        asym[f"{B}>{A}"] = _r(rng.uniform(0.2, 0.9) * E / base)
    faults = []
    for v in voters:
        if n == 5 and rng.random() < 0.15:
            continue
        at = _r(E * (1 + w) + d_fast + rng.uniform(0.01, max(0.02, d_bv / E - 0.15)) * E)
        restart = _r(at + rng.uniform(0.01, 0.1) * E)
        start_at = _r(restart + rng.choice([0.001, 0.01, 0.03]) * E)
        faults.append({"kind": "crash", "node": v, "at": at, "restart_at": restart, "start_at": start_at})
    dur = _r(E * rng.choice([3, 5]))
    et_node = {v: [_r(6 * E), _r(7 * E)] for v in voters}
    return {
        "n": n,
        "et": [E, _r(E * (1 + w))],
        "et_node": et_node,
        "hb": _r(E * rng.choice([0.1, 0.2])),
        "seed": rng.randrange(1 << 30),
        "duration": dur,
        "script": {"seed": rng.randrange(1 << 30), "family": "fixed", "base": [base, base], "asym": asym, "loss": 0.0, "rules": []},
        "faults": faults,
        "ticks": [{"t": _r(rng.uniform(1.5 * E, dur * 0.95)), "mode": "all", "pick": 0} for _ in range(2)],
        "roles": {"A": A, "B": B},
    }


def gen_revote(rng: random.Random, tier: str) -> dict:
    """Restarts in the middle of elections, done the way a user restarts a node: CrashNode window, then the
    node's public start() is called again (the only way to re-arm its election timer).

    Election timeouts are (almost) equal, so several candidates stand in the same term again and again;
    a few directed links are slow (their RequestVotes / heartbeats arrive a good part of a timeout late);
    many short crash windows (each followed by start()) are aimed at the moments just after timeouts expire,
    i.e. right after votes were granted, while slower RequestVotes of the same term are still in flight.
    """
    if rng.random() < 0.6:
        return _gen_revote_aimed(rng)
    n = rng.choice([3, 3, 5])
    names = [f"n{i}" for i in range(n)]
    E = rng.choice([0.5, 1.0])
    w = rng.choice([0.0, 0.01, 0.04])
    hb = _r(E * rng.choice([0.1, 0.2, 0.33]))
    dur = _r(E * rng.choice([8, 12]))
    fast = [0.002 * E, 0.02 * E]
    asym = {}
    for a in names:
        for b in names:
            if a != b:
                asym[f"{a}>{b}"] = rng.choice([1, 1, 1, 10, 25, 50])  # x0.02E -> up to one timeout
    script = {
        "seed": rng.randrange(1 << 30),
        "family": "asym",
        "base": fast,
        "asym": asym,
        "loss": rng.choice([0.0, 0.0, 0.05]),
        "rules": [],
    }
    faults = []
    busy: dict[str, float] = {}
    # elections happen about every E (+ retries): aim windows shortly after multiples of the timeout
    for _ in range(rng.randrange(3, 9)):
        node = rng.choice(names)
        k = rng.randrange(1, int(dur / E))
        at = _r(k * E * (1 + w / 2) + rng.uniform(0.0, 0.35) * E)
        if at <= busy.get(node, 0.0) or at >= dur * 0.95:
            continue
        restart = _r(at + rng.uniform(0.02, 0.3) * E)
        start_at = _r(restart + rng.choice([0.001, 0.01, 0.05]) * E)
        busy[node] = start_at + 0.01
        faults.append({"kind": "crash", "node": node, "at": at, "restart_at": restart, "start_at": start_at})
    faults.sort(key=lambda f: f["at"])
    # keep windows of one node disjoint
    clean, last = [], {}
    for f in faults:
        if f["at"] > last.get(f["node"], -1.0):
            clean.append(f)
            last[f["node"]] = f["start_at"] + 0.01
    m = rng.choice([2, 5, 10])
    ts = sorted(_r(rng.uniform(1.5 * E, dur * 0.97)) for _ in range(m))
    return {
        "n": n,
        "et": [E, _r(E * (1 + w))],
        "hb": hb,
        "seed": rng.randrange(1 << 30),
        "duration": dur,
        "script": script,
        "faults": clean,
        "ticks": [{"t": t, "mode": "all", "pick": 0} for t in ts],
    }


def gen_calm(rng: random.Random, tier: str) -> dict:
    n = rng.choice([3, 4, 5])
    names = [f"n{i}" for i in range(n)]
    et_min = rng.choice([0.15, 0.3, 1.0, 1.5])
    et_max = _r(et_min * rng.choice([1.2, 1.5, 2.0]))
    hb = _r(et_min * rng.choice([0.05, 0.1, 0.2, 0.33]))
    dmax = _r(et_min * rng.choice([0.002, 0.02, 0.05, 0.09]))
    dmin = _r(dmax * rng.choice([0.0, 0.1, 0.9, 1.0]))
    script = {"seed": rng.randrange(1 << 30), "family": "uniform", "base": [dmin, dmax], "loss": 0.0, "rules": []}
    if rng.random() < 0.4:
        script["asym"] = {f"{a}>{b}": rng.choice([0.05, 0.3, 1.0]) for a in names for b in names if a != b}
    k = rng.choice([1, 2, 5, 12, 30])
    gaps = [_r(rng.choice([0.0, 0.0, 0.3, 1.0, 2.5]) * hb * rng.uniform(0.5, 1.5)) for _ in range(k - 1)]
    return {
        "n": n,
        "et": [et_min, et_max],
        "hb": hb,
        "seed": rng.randrange(1 << 30),
        "script": script,
        "dmax": dmax,
        "k": k,
        "gaps": gaps,
    }


# --------------------------------------------------------------------------
# runs


def run_chaos(case: dict) -> Result:
    res = Result()
    ticks = case["ticks"]

    def factory(mon: M.Monitor, nodes):
        def act(event):
            mon.now_ns = event.time.nanoseconds
            k = event.context["metadata"]["k"]
            tk = ticks[k]
            mode = tk["mode"]
            if mode == "any":
                targets = [tk["pick"] % mon.n]
            elif mode == "node":  # one named node, only if it claims leadership
                i = mon.idx[tk["node"]]
                targets = [i] if nodes[i].is_leader else []
            else:
                targets = [i for i in range(mon.n) if nodes[i].is_leader]
                if mode == "one" and targets:
                    targets = [targets[tk["pick"] % len(targets)]]
            for i in targets:
                if mon.crashed[i]:
                    continue  # a client cannot reach a crashed node
                cnt = tk.get("count", 1)
                if cnt == 1:
                    mon.submit(i, f"c{k}@{mon.names[i]}")
                else:  # burst: many commands in one instant (long logs, long stale suffixes)
                    for j in range(cnt):
                        mon.submit(i, f"c{k}.{j}@{mon.names[i]}")
            return None

        def dispatch(event):
            if event.event_type == "OperatorStart":
                # the operator brings a restarted node back the way a user of the library would:
                # by calling its public start() again (the only way to re-arm its election timer)
                mon.now_ns = event.time.nanoseconds
                i = mon.idx[event.context["metadata"]["node"]]
                if mon.crashed[i]:
                    return None
                out = nodes[i].start()
                mon.restarts_with_start += 1
                mon.last_start_seq[i] = mon.seq
                mon.note("start()", mon.names[i])
                mon.sample(i)
                return out
            return act(event)

        client = M.Client("client", dispatch)
        evs = [M.client_event(tk["t"], client, "ClientTick", True, k=k) for k, tk in enumerate(ticks)]
        for f in case.get("faults") or []:
            if f["kind"] == "crash" and f.get("start_at") is not None:
                evs.append(M.client_event(f["start_at"], client, "OperatorStart", True, node=f["node"]))
        return client, evs

    mon, status = M.run_cluster(case, res, factory, end_time=case["duration"])
    res.nontrivial = len(mon.candidacies) >= 2 and len(mon.commit_list) >= 1
    return res


def run_calm(case: dict) -> Result:
    res = Result()
    et_min, et_max = case["et"]
    hb = case["hb"]
    dmax = case["dmax"]
    K = case["k"]
    gaps = case["gaps"]
    poll = et_min / 4
    give_up = 80 * et_max
    bound = (K + 3) * (hb + 2 * dmax)
    st = {"phase": 0, "since": None, "leader": None, "term": None, "cmds": [], "recs": [], "last_submit": None, "verdict": None}

    def factory(mon: M.Monitor, nodes):
        client_box = {}

        def established():
            leaders = [i for i in range(mon.n) if nodes[i].is_leader]
            if len(leaders) != 1:
                return None
            L = leaders[0]
            T = nodes[L].current_term
            nameL = mon.names[L]
            for j, nd in enumerate(nodes):
                if nd.current_term != T:
                    return None
                if j != L and (nd.state is not M.FOLLOWER or nd.current_leader != nameL):
                    return None
            return (L, T)

        def act(event):
            now = event.time.to_seconds()
            mon.now_ns = event.time.nanoseconds
            client = client_box["c"]
            kind = event.event_type
            if kind == "ClientPoll":
                e = established()
                if e is None:
                    st["since"] = None
                    if now > give_up:
                        st["verdict"] = "no-leader-established"
                        return None
                    return M.client_event(event.time + poll, client, "ClientPoll", False)
                if st["since"] is None or st["since"][0] != e:
                    st["since"] = (e, now)
                if now - st["since"][1] < 2 * dmax + 1e-9:
                    return M.client_event(event.time + min(poll, max(dmax, 1e-4)), client, "ClientPoll", False)
                st["phase"] = 1
                st["leader"], st["term"] = e
                st["t_established"] = now
                return M.client_event(event.time, client, "ClientSubmit", False, j=0)
            if kind == "ClientSubmit":
                j = event.context["metadata"]["j"]
                L = st["leader"]
                if not nodes[L].is_leader or nodes[L].current_term != st["term"]:
                    st["verdict"] = "leadership-changed-before-submit"
                    return None
                cmd = f"k{j}"
                st["cmds"].append(cmd)
                st["recs"].append(mon.submit(L, cmd))
                if j + 1 < K:
                    return M.client_event(event.time + gaps[j], client, "ClientSubmit", False, j=j + 1)
                st["last_submit"] = now
                return M.client_event(event.time + bound, client, "ClientDeadline", False)
            if kind == "ClientDeadline":
                st["verdict"] = "checked"
                cmds = st["cmds"]
                L = st["leader"]
                stable = nodes[L].is_leader and nodes[L].current_term == st["term"] and established() == (L, st["term"])
                st["stable"] = stable
                bad = []
                for i, nd in enumerate(nodes):
                    applied = mon.sms[i].applied
                    if applied != cmds:
                        bad.append([mon.names[i], len(applied), applied[:8]])
                unresolved = [r["cmd"] for r in st["recs"] if not r["fut"].is_resolved]
                st["bad"] = bad
                st["unresolved"] = unresolved
                return None
            return None

        client = M.Client("client", act)
        client_box["c"] = client
        return client, [M.client_event(poll, client, "ClientPoll", False)]

    mon, status = M.run_cluster(case, res, factory, end_time=None, total_cap=1_000_000)

    res.count("calm_runs", 1)
    v = st["verdict"]
    if status != "completed":
        return res
    if v == "checked":
        res.nontrivial = True
        res.count("calm_commands_checked", K)
        if st["bad"] or st["unresolved"]:
            if not st["stable"]:
                res.inconclusive = "leadership changed after establishment on a calm network"
                res.count("calm_leader_changed")
            else:
                shape = "not-applied-by-all-in-order-by-deadline" if st["bad"] else "future-unresolved-by-deadline"
                res.add(
                    "calm-liveness",
                    M.COMPONENT,
                    shape,
                    f"{K} commands submitted to established leader {mon.names[st['leader']]} (term {st['term']}); "
                    f"{bound:.4f}s after the last submit: nodes not holding exactly the submitted sequence: {st['bad']}; "
                    f"unresolved futures: {st['unresolved'][:6]}",
                    {"bound_s": bound, "bad": st["bad"], "unresolved": st["unresolved"][:10]},
                )
    elif v is None:
        res.inconclusive = "calm client did not reach its deadline"
    else:
        res.inconclusive = v
        res.count("calm_" + v.replace("-", "_"))
    return res


FAMILIES = {
    "chaos": Family("chaos", gen_chaos, run_chaos, case_timeout=90.0),
    "duel": Family("duel", gen_duel, run_chaos, case_timeout=90.0),
    "calm": Family("calm", gen_calm, run_calm, case_timeout=60.0),
    "staleack": Family("staleack", gen_staleack, run_chaos, case_timeout=90.0),
    "fig8": Family("fig8", gen_fig8, run_chaos, case_timeout=90.0),
    "catchup": Family("catchup", gen_catchup, run_chaos, case_timeout=90.0),
    "revote": Family("revote", gen_revote, run_chaos, case_timeout=90.0),
}
BUDGET = {
    "quick": {"chaos": 2400, "duel": 1200, "calm": 400, "staleack": 200, "fig8": 200, "catchup": 150, "revote": 300},
    "thorough": {"chaos": 150000, "duel": 80000, "calm": 20000, "staleack": 6000, "fig8": 6000, "catchup": 4000, "revote": 10000},
}

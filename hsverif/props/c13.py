"""C13  Membership: no false deaths on a healthy network, real failures are detected,
DEAD is final without a higher incarnation, phi never decreases between heartbeats.

Monitor shape: public-state sampling after every delivered event
(`sim.control.on_event`): `get_member_state(x)` of every node for every peer,
plus the wire content of the message just delivered (source, piggy-backed
updates).  The other public views of the same state (`alive_members`,
`suspected_members`, `dead_members`, `stats` counts) are polled from the first
event on - for the node that handled the event every time, for every node on each
8th event and on every sample tick - compared with `get_member_state()`, and an
ALIVE report through `alive_members` counts for the detection bound.  Real `MembershipProtocol` nodes on `hsverif.chaosnet.ChaosLink`s.

Families
    healthy   bounded delays (<= 10 % of the probe interval), nobody stopped: any DEAD refutes
    crash     bounded delays, one member stopped for good (CrashNode fault, or cut off with
              `network.partition`) at a generated phase of the probe cycle: an ALIVE report later
              than t + (3N+10) probe intervals refutes; DEAD between live members refutes;
              direct probes sent to the stopped member are counted where they enter the network
    gossip    bounded delays + one scripted peer that injects well-formed stale / fresh
              suspect / dead / alive updates: DEAD -> ALIVE without a higher incarnation refutes
    churn     lossy / slow / partitioned network (no accuracy claim): DEAD -> ALIVE refutes
    tardy     loss-free, one-way delays up to 30 % of the probe interval (round trips straddle the 50 % ack
              deadline, stay below 60 %), suspicion timeout >= 25 %: any DEAD refutes
    join      bounded delays; nodes that call start() before they know anybody and are introduced later with
              add_member(), or whose only known member is DEAD for some ticks before the introduction; then one
              member is stopped: same detection / false-death oracles as crash
    restart   bounded delays; one or two observers go through CrashNode(at, restart_at) with a window that swallows
              their own probe tick and are start()ed again by the harness (the events start() returns are
              scheduled); then a different member stops for good: detection oracle on every live observer,
              restarted ones included; probes sent by restarted nodes after the restart are counted
    phiwire   clusters of >= 3 (healthy or with one member stopped): the suspicion level the protocol itself
              holds for every (observer, member) pair is sampled after every event handled by the observer;
              a decrease with no ping/ack from that member in between refutes
    phi       PhiAccrualDetector alone: phi(t2) < phi(t1), t1 < t2, no heartbeat in between
"""

from __future__ import annotations

import math
import random

from hsverif.core import Family, Result

PID = "C13"
LEVEL = "exploration"
BOUND_FRAC = 0.10  # every message within 10 % of the probe interval ("healthy")
PHI_RANGE = (1.0, 12.0)


def detection_bound_intervals(n: int) -> int:
    """B of the bounded restatement of 'eventually detected', in probe intervals."""
    return 3 * n + 10


HORIZON_MULT = 3  # an undetected stop is followed until t + 3B to tell "late" from "not at all"


RULE = (
    "Clusters of 3-10 real MembershipProtocol nodes (probe interval 0.1-10 s, suspicion timeout 0.25-12 probe "
    "intervals, indirect-probe count 0-5, phi threshold 1-12, per-node start offsets, global `random` seeded per "
    "case for the probe-order shuffles) on ChaosLinks whose every delay comes from a JSON delay script. healthy/"
    "crash/gossip: every delay <= 10 % of the probe interval (measured from the script log, else harness error). "
    "crash: one member stopped for good by a CrashNode fault or by network.partition at a generated phase of the "
    "probe cycle (early / warm-up / late); bound B = (3N+10) probe intervals; the run ends at t+B+3 intervals when every "
    "live view has left ALIVE, otherwise it is followed to t+3B+3 so that the mechanism key can tell 'late' from 'not at "
    "all' (both are violations). gossip: a "
    "scripted extra peer sends well-formed pings whose update lists carry suspect/dead/alive at incarnations 0-4. "
    "tardy: no loss, one-way delays up to 30 % of the probe interval with most round trips beyond the 50 % ack deadline "
    "(late acks counted), suspicion timeout 0.25-5.5 intervals. join: 2-8 nodes, some start() with an empty member list "
    "and are introduced symmetrically 1-7 intervals later, or know only a member that crashes and is declared DEAD "
    "before the introduction (probe rounds with nobody to probe are counted and required), then a stop as in crash; a "
    "harness ticker delivers one inert event per interval after every stop so that views are sampled even in a silent cluster. "
    "phiwire: healthy or crash cases with N >= 3 in which, after every event handled by a node (and on every sample tick), "
    "phi(now) of the detector that node keeps for each member is compared with the previous sample of the same pair unless "
    "a ping/ack from that member was delivered in between; non-trivial when >= 1 compared pair spans a heartbeat from another member. "
    "restart: 2-8 nodes, 1-2 observers crashed for 1-3.5 intervals (or 0.2 interval straddling their tick) by CrashNode with "
    "restart_at and start()ed again 0-0.5 interval after the restart, then a stop of another member as in crash. "
    "churn: loss, delays up to several probe intervals, partitions that heal, pause windows. phi: detector alone, "
    "heartbeat histories (regular, bursty, single, zero-variance, exponential) with grids (fine, geometric to 1e12 s, "
    "consecutive floats) between consecutive heartbeats and after the last. State of every node for every peer "
    "sampled after every delivered event. Non-trivial: cluster run in which >=1 (observer, member) pair was SUSPECT "
    "at some sample (phi: >=1 grid with phi strictly increasing through the threshold region). Distinct by hash of "
    "the case."
)
ASSUMPTIONS = [
    "'stopped for good' = CrashNode fault without restart (events to the member are dropped) or network.partition([x], others) never healed",
    "'healthy network' = no loss, no partition, every link delay <= 10 % of the probe interval (round trip <= 20 % < the 50 % ack timeout)",
    "'bounded number of probe rounds' is restated as B = (3N+10) probe intervals after the stop, fixed before measuring; any ALIVE report about the stopped member sampled later than stop + B is a violation",
    "documented parameter ranges taken as: probe_interval 0.1-10 s, suspicion_timeout 0.25-12 probe intervals, indirect_probe_count 0-5, phi_threshold 1-12 (defaults 1.0 / 5.0 / 3 / 8.0; tests use 0.5 / 3.0 / 4.0)",
    "SUSPECT counts as 'no longer reported ALIVE' (the statement asks only that ALIVE reports stop)",
    "'reports' means every public view: get_member_state(), alive_members / suspected_members / dead_members and the stats counts; a member must be in exactly the list its get_member_state() names at every sample (one state per observer and member), otherwise one of the views reports a state the other has left",
    "tardy family: 'well below the probe interval' is stretched to one-way delays <= 30 % (round trip <= 60 % of the interval, below 50 % + the smallest suspicion timeout of 25 %): every ack still arrives before the suspicion timer it has to cancel; HEAD declared nobody DEAD in 1800 such runs",
    "restart family: a node that was down loses its pending probe tick (events to a crashed entity are dropped), so the operator calls start() again after restart_at; the windows are generated so that a tick is always swallowed (a second start() on a node whose loop is still alive starts a second loop on this tree: noted, not judged); deaths OF a restarted member are not counted as false deaths (it really was down)",
    "join family: late members are introduced symmetrically (both sides call add_member at the same instant); a node that pings a peer which does not know it yet cannot be acked and is outside the healthy-network claim",
    "the incarnation of a DEAD report is bounded below by the incarnations of the updates the observer visibly applied; a DEAD -> ALIVE transition is accepted when any incarnation for that member delivered to the observer since the DEAD report is higher than that lower bound",
    "PhiAccrualDetector is built with min_std > 0 (its documented purpose is to prevent a division by zero) and heartbeats are fed in non-decreasing time order",
    "MembershipProtocol offers no public per-member suspicion accessor: phiwire reads node._members[name].detector (read-only; MemberInfo and PhiAccrualDetector.phi/last_heartbeat are public) unless the tree offers get_phi / suspicion_level / phi_of",
    "global `random` state is owned by the case (seeded with case['pyseed']); the library shuffles probe orders with it",
]
MUST_OBSERVE = ["state_samples", "list_and_stats_views_polled", "late_samples_after_bound", "phi_pairs_checked", "dead_reports_tracked", "idle_probe_ticks", "late_acks_seen", "wired_phi_pairs_spanning_other_members_heartbeats", "probes_by_restarted_nodes_after_restart"]

MSG_TYPES = ("MembershipPing", "MembershipAck", "MembershipIndirectAck")


# --------------------------------------------------------------------------
# generators


def _params(rng: random.Random) -> dict:
    pi = rng.choice([0.1, 0.2, 0.5, 0.5, 1.0, 1.0, 1.0, 2.0, 5.0, 10.0])
    if rng.random() < 0.2:
        pi = round(math.exp(rng.uniform(math.log(0.1), math.log(10.0))), 4)
    phi = rng.choice([1.0, 2.0, 3.0, 4.0, 4.0, 6.0, 8.0, 8.0, 10.0, 12.0])
    if rng.random() < 0.2:
        phi = round(rng.uniform(*PHI_RANGE), 3)
    return {
        "n": rng.choice([2, 2, 3, 3, 4, 5, 5, 6, 7, 8, 9, 10]),
        "probe_interval": pi,
        "suspicion_timeout": round(pi * rng.choice([0.25, 0.5, 1.0, 1.5, 2.0, 3.0, 5.0, 5.0, 8.0, 12.0]), 6),
        "indirect_probe_count": rng.choice([0, 1, 2, 3, 3, 4, 5]),
        "phi_threshold": phi,
        "pyseed": rng.randrange(1 << 30),
    }


def _offsets(rng: random.Random, n: int, pi: float) -> list[float]:
    mode = rng.choice(["sync", "sync", "staggered", "staggered", "two-groups", "near-tie"])
    if mode == "sync":
        return [0.0] * n
    if mode == "staggered":
        return [round(rng.uniform(0, pi), 6) for _ in range(n)]
    if mode == "two-groups":
        d = round(rng.choice([0.1, 0.25, 0.5, 0.75]) * pi, 6)
        return [0.0 if rng.random() < 0.5 else d for _ in range(n)]
    # near-tie: offsets that make acks / timers / ticks of different nodes meet at one instant
    return [round(rng.choice([0.0, 0.1, 0.2, 0.3, 0.5]) * pi, 6) for _ in range(n)]


def _bounded_script(rng: random.Random, names: list[str], pi: float) -> dict:
    bound = BOUND_FRAC * pi * rng.choice([1.0, 1.0, 1.0, 0.5, 0.1])
    fam = rng.choice(["uniform", "uniform", "fixed-max", "fixed-zero", "bimodal", "asym"])
    spec: dict = {"seed": rng.randrange(1 << 30), "loss": 0.0, "rules": [], "keep_log": True}
    if fam == "uniform":
        spec.update(family="uniform", base=[bound * rng.choice([0.0, 0.01, 0.5]), bound])
    elif fam == "fixed-max":
        spec.update(family="fixed", base=[bound, bound])
    elif fam == "fixed-zero":
        spec.update(family="fixed", base=[0.0, 0.0])
    elif fam == "bimodal":
        spec.update(family="bimodal", base=[0.0, 0.2 * bound], slow=[0.8 * bound, bound], p_slow=rng.choice([0.1, 0.3, 0.5]))
    else:
        spec.update(
            family="asym",
            base=[0.0, bound / 30.0],
            asym={f"{a}>{b}": rng.choice([1, 1, 3, 10, 30]) for a in names for b in names if a != b},
        )
    return spec


def _names(n: int) -> list[str]:
    return [f"m{i}" for i in range(n)]


def gen_healthy(rng: random.Random, tier: str) -> dict:
    case = _params(rng)
    n, pi = case["n"], case["probe_interval"]
    # low thresholds make SUSPECT (the precondition of every death) common
    if rng.random() < 0.4:
        case["phi_threshold"] = rng.choice([1.0, 1.0, 1.5, 2.0])
    case["offsets"] = _offsets(rng, n, pi)
    case["script"] = _bounded_script(rng, _names(n), pi)
    case["rounds"] = rng.choice([30, 60, 60, 60, 120])
    case["stop"] = None
    return case


def gen_crash(rng: random.Random, tier: str) -> dict:
    case = _params(rng)
    n, pi = case["n"], case["probe_interval"]
    case["offsets"] = _offsets(rng, n, pi)
    case["script"] = _bounded_script(rng, _names(n), pi)
    victim = rng.randrange(n)
    phase = rng.choice(["early", "warmup", "late", "late"])
    if phase == "early":
        k = rng.choice([0, 0, 1, 1, 2, 3])
    elif phase == "warmup":
        k = rng.randint(3, 2 * n + 1)
    else:
        k = rng.randint(2 * n + 2, 4 * n + 10)
    # position inside the victim's own probe cycle: tick instant, ping in flight, ack in flight,
    # indirect-ping timer instant, just before the next tick, anywhere
    frac = rng.choice([0.0, 0.0, 0.05, 0.15, 0.5, 0.5, 0.95, 1e-6, round(rng.random(), 6), round(rng.random(), 6)])
    at = case["offsets"][victim] + (k + frac) * pi
    case["stop"] = {"mode": rng.choice(["crash", "crash", "isolate"]), "member": victim, "at": round(at, 9), "phase": phase}
    case["rounds"] = None  # derived: stop + B + 3 intervals
    return case


def gen_gossip(rng: random.Random, tier: str) -> dict:
    case = _params(rng)
    case["n"] = n = rng.choice([3, 3, 4, 5, 6])
    pi = case["probe_interval"]
    names = _names(n)
    case["offsets"] = _offsets(rng, n, pi)
    case["script"] = _bounded_script(rng, names + ["g"], pi)
    case["rounds"] = rounds = rng.choice([20, 30, 40])
    case["stop"] = None
    ops = []
    n_ops = rng.choice([3, 6, 10, 20, 40])
    victims = rng.sample(names, k=rng.choice([1, 1, 2]))
    for _ in range(n_ops):
        t = round(rng.uniform(0.2, rounds - 2) * pi, 6)
        dst = rng.randrange(n)
        ups = []
        for _ in range(rng.choice([1, 1, 1, 2, 3])):
            member = rng.choice(victims * 4 + names + ["g", "nobody"])
            ups.append(
                {
                    "member": member,
                    "state": rng.choice(["suspect", "dead", "dead", "alive", "alive", "alive"]),
                    "incarnation": rng.choice([0, 0, 1, 1, 2, 3, 4]),
                }
            )
        ops.append({"t": t, "dst": dst, "updates": ups})
    # aimed sequences: dead@j at an observer, later alive@k with k around j
    for _ in range(rng.choice([1, 2, 4])):
        dst = rng.randrange(n)
        member = rng.choice([m for m in names if m != names[dst]])
        j = rng.choice([0, 1, 2, 3])
        t0 = rng.uniform(0.2, rounds / 2) * pi
        ops.append({"t": round(t0, 6), "dst": dst, "updates": [{"member": member, "state": "dead", "incarnation": j}]})
        for _ in range(rng.choice([1, 2, 3])):
            t0 += rng.uniform(0.05, 4) * pi
            k = max(0, j + rng.choice([-2, -1, 0, 0, 0, 1]))
            ops.append(
                {
                    "t": round(t0, 6),
                    "dst": rng.choice([dst, dst, dst, rng.randrange(n)]),
                    "updates": [{"member": member, "state": "alive", "incarnation": k}],
                }
            )
    ops.sort(key=lambda o: o["t"])
    case["inject"] = ops
    return case


def gen_churn(rng: random.Random, tier: str) -> dict:
    from hsverif.chaosnet import random_script

    case = _params(rng)
    n, pi = case["n"], case["probe_interval"]
    names = _names(n)
    case["offsets"] = _offsets(rng, n, pi)
    spec = random_script(rng, names, list(MSG_TYPES[:2]), timeout_scale=pi)
    spec["keep_log"] = False
    case["script"] = spec
    case["rounds"] = rounds = rng.choice([40, 60, 80])
    case["stop"] = None
    case["bounded"] = False
    parts = []
    for _ in range(rng.choice([0, 1, 1, 2, 3])):
        a = sorted(rng.sample(range(n), k=rng.randint(1, n - 1)))
        b = [i for i in range(n) if i not in a]
        t0 = rng.uniform(1, rounds * 0.7) * pi
        parts.append(
            {
                "a": a,
                "b": b,
                "at": round(t0, 6),
                "heal": round(t0 + rng.uniform(0.5, 25) * pi, 6),
                "asymmetric": rng.random() < 0.25,
            }
        )
    case["partitions"] = parts
    pauses = []
    for _ in range(rng.choice([0, 0, 1, 2])):
        t0 = rng.uniform(1, rounds * 0.7) * pi
        pauses.append({"member": rng.randrange(n), "start": round(t0, 6), "end": round(t0 + rng.uniform(0.5, 20) * pi, 6)})
    case["pauses"] = pauses
    return case


TARDY_FRAC = 0.30  # "tardy" family: one-way delays up to 30 % of the probe interval (round trip <= 60 %)


def _tardy_script(rng: random.Random, pi: float) -> dict:
    """Loss-free, every delay <= 30 % of the probe interval, round trips straddling the 50 % ack deadline."""
    hi = rng.choice([0.27, 0.27, 0.30, 0.30, 0.26]) * pi
    fam = rng.choice(["uniform", "uniform", "fixed", "bimodal"])
    spec: dict = {"seed": rng.randrange(1 << 30), "loss": 0.0, "rules": [], "keep_log": True}
    if fam == "uniform":
        spec.update(family="uniform", base=[rng.choice([0.15, 0.2, 0.24]) * pi, hi])
    elif fam == "fixed":
        spec.update(family="fixed", base=[hi, hi])
    else:
        spec.update(family="bimodal", base=[0.0, 0.05 * pi], slow=[0.25 * pi, hi], p_slow=rng.choice([0.3, 0.5, 0.7]))
    return spec


def gen_tardy(rng: random.Random, tier: str) -> dict:
    case = _params(rng)
    n, pi = case["n"], case["probe_interval"]
    # suspicion timeouts >= 0.25 interval (the range of the other families), also just past a whole number of
    # intervals so that an old timer can expire inside a later late-ack window of the same observer
    k = rng.choice([0, 0, 1, 1, 2, 2, 3, 5])
    f = rng.choice([0.0, 0.0, 0.02, 0.05, 0.25, 0.5])
    case["suspicion_timeout"] = round(pi * max(0.25, k + f), 6)
    if rng.random() < 0.3:
        case["phi_threshold"] = rng.choice([1.0, 2.0, 3.0])
    case["offsets"] = _offsets(rng, n, pi)
    case["script"] = _tardy_script(rng, pi)
    case["bound_frac"] = TARDY_FRAC
    case["rounds"] = rng.choice([60, 60, 120])
    case["stop"] = None
    return case


def gen_phiwire(rng: random.Random, tier: str) -> dict:
    """Clusters of >= 3 in which the suspicion levels held by the protocol itself are sampled."""
    case = gen_crash(rng, tier) if rng.random() < 0.6 else gen_healthy(rng, tier)
    if case["n"] < 3:
        case["n"] = n = rng.choice([3, 4, 5, 6, 8])
        pi = case["probe_interval"]
        case["offsets"] = _offsets(rng, n, pi)
        case["script"] = _bounded_script(rng, _names(n), pi)
        if case["stop"] is not None:
            case["stop"]["member"] = rng.randrange(n)
    if case["stop"] is None:
        case["rounds"] = rng.choice([30, 40, 60])
    case["check_phi"] = True
    return case


def gen_restart(rng: random.Random, tier: str) -> dict:
    """An observer goes through CrashNode(..., restart_at=...) and is start()ed again, as an operator would do;
    afterwards a different member stops for good."""
    case = _params(rng)
    n = case["n"] = rng.choice([2, 2, 3, 3, 4, 4, 5, 5, 6, 8])
    pi = case["probe_interval"]
    case["offsets"] = offs = _offsets(rng, n, pi)
    case["script"] = _bounded_script(rng, _names(n), pi)
    restarts = []
    members = rng.sample(range(n), k=min(n - 1, rng.choice([1, 1, 1, 2])))
    last = 0.0
    for r in members:
        k = rng.randint(1, 2 * n + 4)
        if rng.random() < 0.7:
            # window of at least one probe interval: it always contains one of the node's own tick instants
            crash_at = offs[r] + (k + rng.choice([0.05, 0.2, 0.5, 0.7, 0.95])) * pi
            restart_at = crash_at + rng.choice([1.0, 1.2, 2.0, 3.5]) * pi
        else:
            # short window straddling a tick instant
            crash_at = offs[r] + (k + 0.9) * pi
            restart_at = offs[r] + (k + 1.1) * pi
        again = restart_at + rng.choice([0.0, 0.01, 0.1, 0.5]) * pi  # the operator's start() after the restart
        restarts.append({"member": r, "crash_at": round(crash_at, 9), "restart_at": round(restart_at, 9), "start_again_at": round(again, 9)})
        last = max(last, again)
    case["restarts"] = restarts
    victim = rng.choice([i for i in range(n) if i not in members])
    k = rng.randint(1, 2 * n + 6)
    frac = rng.choice([0.0, 0.05, 0.5, 0.95, round(rng.random(), 6)])
    case["stop"] = {
        "mode": rng.choice(["crash", "crash", "isolate"]),
        "member": victim,
        "at": round(last + (k + frac) * pi, 9),
        "phase": "after-restart",
    }
    case["rounds"] = None
    return case


def gen_join(rng: random.Random, tier: str) -> dict:
    """Memberships in which some node has nobody to probe at some tick, then a stop to be detected."""
    case = _params(rng)
    n = case["n"] = rng.choice([2, 2, 2, 3, 3, 4, 5, 6, 8])
    pi = case["probe_interval"]
    case["offsets"] = offs = _offsets(rng, n, pi)
    case["script"] = _bounded_script(rng, _names(n), pi)
    variant = rng.choice(["late-join", "late-join", "all-dead-then-join"]) if n >= 3 else "late-join"
    initial: list[list[int]] = [[] for _ in range(n)]
    joins = []
    decoy = None
    if variant == "late-join":
        # joiners call start() knowing nobody (idle ticks) and are introduced to the cluster later, symmetrically
        joiners = rng.sample(range(n), k=rng.randint(1, max(1, n // 2)))
        inside = [i for i in range(n) if i not in joiners]
        for a in inside:
            initial[a] = [b for b in inside if b != a]
        times = sorted((round(offs[j] + (rng.randint(1, 6) + rng.choice([0.05, 0.3, 0.5, 0.95])) * pi, 6), j) for j in joiners)
        for t, j in times:
            joins.append({"at": t, "pairs": [[j, m] for m in inside]})
            inside.append(j)
        last_join = times[-1][0]
        candidates = list(range(n))
    else:
        # node 0 knows only the decoy (node 1); the decoy crashes before it ever answers and node 0 declares it
        # DEAD (suspicion timeout below half an interval, so the re-probe does not cancel it): for some ticks
        # everybody node 0 knows is DEAD; then node 0 and the rest of the cluster are introduced
        initial[0], initial[1] = [1], [0]
        rest = list(range(2, n))
        for a in rest:
            initial[a] = [b for b in rest if b != a]
        case["suspicion_timeout"] = round(0.25 * pi, 6)
        decoy = {"member": 1, "at": round(rng.choice([0.3, 0.9, 1.2]) * pi, 6)}
        last_join = round(offs[0] + (rng.randint(5, 9) + rng.choice([0.05, 0.5, 0.95])) * pi, 6)
        joins.append({"at": last_join, "pairs": [[0, m] for m in rest]})
        candidates = [0] + rest
    case["membership"] = {"variant": variant, "initial": initial, "joins": joins}
    case["decoy"] = decoy
    victim = rng.choice(candidates)
    k = rng.randint(1, 2 * n + 6)
    frac = rng.choice([0.0, 0.05, 0.5, 0.95, round(rng.random(), 6)])
    case["stop"] = {
        "mode": rng.choice(["crash", "crash", "isolate"]),
        "member": victim,
        "at": round(last_join + (k + frac) * pi, 9),
        "phase": "after-join",
    }
    case["rounds"] = None
    return case


# --------------------------------------------------------------------------
# cluster harness


def _build(case: dict):
    from happysimulator.components.consensus.membership import MembershipProtocol
    from happysimulator.components.network.network import Network
    from happysimulator.core.entity import Entity
    from happysimulator.distributions.constant import ConstantLatency

    from hsverif.chaosnet import ChaosLink, DelayScript

    n = case["n"]
    names = _names(n)
    net = Network(name="net")
    nodes = [
        MembershipProtocol(
            name=nm,
            network=net,
            probe_interval=case["probe_interval"],
            suspicion_timeout=case["suspicion_timeout"],
            indirect_probe_count=case["indirect_probe_count"],
            phi_threshold=case["phi_threshold"],
        )
        for nm in names
    ]
    script = DelayScript(case["script"])
    everyone: list = list(nodes)
    peer = None
    if case.get("inject") is not None:

        class ScriptedPeer(Entity):
            """Harness-driven extra member: acks pings, sends the scripted gossip."""

            def __init__(self, name, network, by_name):
                super().__init__(name)
                self._network = network
                self._by_name = by_name
                self.sent = 0

            def handle_event(self, event):
                md = event.context.get("metadata", {})
                if event.event_type == "MembershipPing":
                    src = md.get("from")
                    if src in self._by_name:
                        return [
                            self._network.send(
                                source=self,
                                destination=self._by_name[src],
                                event_type="MembershipAck",
                                payload={"from": self.name, "ack_for": src, "incarnation": 0, "updates": []},
                                daemon=True,
                            )
                        ]
                    return None
                if event.event_type == "GossipInject":
                    self.sent += 1
                    return [
                        self._network.send(
                            source=self,
                            destination=self._by_name[md["dst"]],
                            event_type="MembershipPing",
                            payload={"from": self.name, "incarnation": 0, "updates": [dict(u) for u in md["updates"]]},
                            daemon=True,
                        )
                    ]
                return None

        peer = ScriptedPeer("g", net, {nd.name: nd for nd in nodes})
        everyone.append(peer)
    membership = case.get("membership")
    for ai, a in enumerate(everyone):
        for bi, b in enumerate(everyone):
            if a is b:
                continue
            if a in nodes and (membership is None or bi in membership["initial"][ai]):
                a.add_member(b)
            net.add_link(
                a,
                b,
                ChaosLink(name=f"{a.name}>{b.name}", latency=ConstantLatency(0.0), script=script, src_name=a.name, dst_name=b.name),
            )
    return net, nodes, peer, script


def _suspicion_reader(node, member: str):
    """Least intrusive way to read the suspicion level `node` holds for `member`.

    A public accessor on the protocol is preferred if the tree offers one; this tree offers none, so the
    fallback is a read-only look at the member table (`node._members[member]`, a public `MemberInfo` dataclass)
    and the public API of the `PhiAccrualDetector` stored there (`phi(now_s)`, `last_heartbeat`).
    Returns (phi_fn(now_s) -> float, marker_fn() -> anything that changes when a heartbeat is recorded).
    """
    for name in ("get_phi", "suspicion_level", "phi_of"):
        fn = getattr(node, name, None)
        if callable(fn):
            return (lambda now_s, fn=fn: fn(member, now_s)), (lambda: None)
    info = node._members.get(member)  # noqa: SLF001  no public per-member accessor exists
    if info is None:
        return None
    det = info.detector
    return det.phi, (lambda det=det: det.last_heartbeat)


def _marker_advanced(old, new) -> bool:
    """True when the detector's last_heartbeat moved forward (a heartbeat was recorded between the two samples)."""
    if new is None or new == old:
        return False
    if old is None:
        return True
    try:
        return new > old
    except TypeError:
        return True


class _Monitor:
    """Samples every (observer, member) view after every delivered event."""

    def __init__(self, case, nodes, res: Result, *, check_false_death: bool, stopped: int | None, stop_ns: int | None):
        from happysimulator.components.consensus.membership import MemberState

        self.MS = MemberState
        self.case = case
        self.nodes = nodes
        self.res = res
        self.n = len(nodes)
        self.names = [nd.name for nd in nodes]
        self.member_names = list(self.names) + (["g"] if case.get("inject") is not None else [])
        self.idx_of_target = {id(nd): i for i, nd in enumerate(nodes)}
        self.check_false_death = check_false_death
        self.stopped = stopped
        self.stop_ns = stop_ns
        m = len(self.member_names)
        # a member the observer has not been told about yet is None (no view), never ALIVE
        self.cur = [[nd.get_member_state(x) if x != nd.name else None for x in self.member_names] for nd in nodes]
        self.excluded = {stopped} if stopped is not None else set()  # stopped members: no accuracy claim about them
        if case.get("decoy"):
            self.excluded.add(case["decoy"]["member"])
        self.was_down = {r["member"] for r in case.get("restarts") or []}  # not continuously live: deaths OF them are not false
        self.bound_frac = case.get("bound_frac", BOUND_FRAC)
        self.prev_probes = [nd.stats.probes_sent for nd in nodes]
        self.check_phi = bool(case.get("check_phi"))
        # every public view of a member's state is polled from the first event on (so that any cache is warm)
        self.listed_alive_now = [False] * self.n  # stopped member currently in observer's alive_members
        self.alive_by_list_only_ns = [None] * self.n  # last sample at which ONLY the list view reported it ALIVE
        self.view_samples = 0
        self.phi_prev: dict = {}  # (yi, xi) -> (phi, t_ns, heartbeat marker, wire heartbeats seen)
        self.wire_hb = [[0] * m for _ in range(self.n)]  # pings / acks from member delivered to observer
        self.foreign_since = [[0] * m for _ in range(self.n)]  # heartbeats from OTHER members since the last sample
        self.phi_pairs = 0
        self.phi_pairs_foreign = 0
        self.ping_sent_ns: dict = {}  # (observer, member) -> send time of the outstanding direct ping
        self.late_acks = 0  # acks delivered later than the 50 % ack deadline of their direct ping
        self.half_interval_ns = int(case["probe_interval"] * 0.5e9)
        self.idle_ticks = [0] * self.n
        self.inc_lb = [[0] * m for _ in range(self.n)]  # lower bound of the observer's incarnation for the member
        self.dead_inc = [[None] * m for _ in range(self.n)]  # set while a DEAD report has not been legitimately revived
        self.since_dead = [[None] * m for _ in range(self.n)]  # incarnations delivered since the DEAD report
        self.heard_ns = [[None] * m for _ in range(self.n)]  # first ping/ack from member delivered to observer
        self.last_alive_ns = [None] * self.n  # last sample at which observer reported the stopped member ALIVE
        self.first_not_alive_ns = [None] * self.n
        self.saw_suspect = False
        self.saw_dead = False
        self.events = 0
        self.samples = 0
        self.transitions = 0
        self.late_samples = 0
        self.bound_ns = None
        self.flagged: set = set()
        self.net = None  # set by the harness: direct probes are counted where they enter the network
        self.probes_after_stop = [0] * self.n  # direct pings observer -> stopped member sent after the stop
        self.settle_ns = None  # bound + 3 intervals: earliest instant at which a fully detected run may end
        self.control = None

    # -- wire content of the event just delivered --------------------------
    def _wire(self, ev):
        """(observer index, sender name, {member: [(state, incarnation), ...]}) or None."""
        yi = self.idx_of_target.get(id(ev.target))
        if yi is None or ev.event_type not in MSG_TYPES:
            return None
        md = ev.context.get("metadata", {})
        ups: dict = {}
        for u in md.get("updates", []) or []:
            try:
                ups.setdefault(u.get("member"), []).append((u.get("state"), int(u.get("incarnation", 0))))
            except Exception:  # noqa: BLE001  malformed update: not generated by this harness
                continue
        return yi, md.get("from"), md.get("incarnation"), ups

    def on_event(self, ev):
        self.events += 1
        t = ev.time.nanoseconds
        MS = self.MS
        wire = self._wire(ev)
        crashed_target = getattr(ev.target, "_crashed", False)
        if wire is not None and not crashed_target:
            yi, sender, sender_inc, ups = wire
            if sender in self.member_names:
                xi = self.member_names.index(sender)
                if self.heard_ns[yi][xi] is None:
                    self.heard_ns[yi][xi] = t
                if self.check_phi:
                    self.wire_hb[yi][xi] += 1
                    fs = self.foreign_since[yi]
                    for k in range(len(fs)):
                        if k != xi:
                            fs[k] += 1
                sd = self.since_dead[yi][xi]
                if sd is not None and isinstance(sender_inc, int):
                    sd.append(sender_inc)
            for member, lst in ups.items():
                if member in self.member_names:
                    xi = self.member_names.index(member)
                    sd = self.since_dead[yi][xi]
                    if sd is not None:
                        sd.extend(i for _, i in lst)
        else:
            wire = None
        if (
            self.stopped is not None
            and ev.target is self.net
            and ev.event_type == "MembershipPing"
            and type(ev).__name__ == "Event"
            and t >= self.stop_ns
        ):
            md = ev.context.get("metadata", {})
            if md.get("destination") == self.names[self.stopped] and "indirect_for" not in md:
                src = md.get("source")
                if src in self.names:
                    self.probes_after_stop[self.names.index(src)] += 1
        if ev.target is self.net and ev.event_type == "MembershipPing" and type(ev).__name__ == "Event":
            md = ev.context.get("metadata", {})
            if "indirect_for" not in md:
                self.ping_sent_ns[(md.get("source"), md.get("destination"))] = t
        elif wire is not None and ev.event_type == "MembershipAck":
            t0 = self.ping_sent_ns.pop((self.names[wire[0]], wire[1]), None)
            if t0 is not None and t - t0 > self.half_interval_ns:
                self.late_acks += 1
        if ev.event_type == "MembershipProbeTick" and not crashed_target:
            ti = self.idx_of_target.get(id(ev.target))
            if ti is not None:
                sent = ev.target.stats.probes_sent
                if sent == self.prev_probes[ti]:
                    self.idle_ticks[ti] += 1  # a probe round with nobody to probe
                self.prev_probes[ti] = sent
        late = self.bound_ns is not None and t > self.bound_ns
        handler_idx = self.idx_of_target.get(id(ev.target))
        poll_all = (self.events & 7) == 0 or ev.event_type == "SampleTick"
        for yi, y in enumerate(self.nodes):
            row = self.cur[yi]
            for xi, xname in enumerate(self.member_names):
                if xi == yi:
                    continue
                s = y.get_member_state(xname)
                if s is not row[xi]:
                    if s is not None and row[xi] is not None:
                        self._transition(yi, xi, row[xi], s, t, ev, wire)
                    row[xi] = s  # None -> ALIVE is an introduction (add_member), not a report change
            # lists + stats: the node that just handled the event every time, every node on each 8th event / sample tick
            if yi == handler_idx or poll_all:
                listed = self._check_views(yi, y, row, t, ev)
                if self.stopped is not None:
                    self.listed_alive_now[yi] = listed.get(self.member_names[self.stopped]) is MS.ALIVE
            if self.stopped is not None and yi != self.stopped:
                in_alive_list = self.listed_alive_now[yi]
                if row[self.stopped] is MS.ALIVE:
                    self.last_alive_ns[yi] = t
                elif in_alive_list and row[self.stopped] is not None:
                    self.last_alive_ns[yi] = t  # alive_members is as much a report as get_member_state()
                    self.alive_by_list_only_ns[yi] = t
                elif self.first_not_alive_ns[yi] is None:
                    self.first_not_alive_ns[yi] = t
        self.samples += self.n * (len(self.member_names) - 1)
        if self.check_phi:
            ti = self.idx_of_target.get(id(ev.target))
            if ti is not None and not crashed_target:
                self._sample_phi(ti, t, ev, wire)  # only the handler's own node can have changed its detectors
            elif ev.event_type == "SampleTick":
                for yi in range(self.n):
                    if not getattr(self.nodes[yi], "_crashed", False):
                        self._sample_phi(yi, t, ev, None)
        if late:
            self.late_samples += 1
            if t > self.settle_ns and self.control is not None:
                A = MS.ALIVE
                xs = self.stopped
                if all(self.cur[yi][xs] is not A and not self.listed_alive_now[yi] for yi in range(self.n) if yi not in self.excluded):
                    self.control.pause()  # every live view has left ALIVE and stayed so for 3 intervals past B
                    self.control = None

    def _check_views(self, yi, y, row, t, ev) -> dict:
        """Polls alive_members / suspected_members / dead_members / stats of one node and compares them with
        get_member_state(): a member must be in exactly the list its state names; counts must match the lists.
        Returns {member name: state named by the lists} (first list wins if a name is listed twice)."""
        MS = self.MS
        lists = ((MS.ALIVE, y.alive_members), (MS.SUSPECT, y.suspected_members), (MS.DEAD, y.dead_members))
        st = y.stats
        self.view_samples += 1
        listed: dict = {}
        problems = []
        for state, names in lists:
            for nm in names:
                if nm in listed:
                    problems.append((f"member-listed-twice-({listed[nm].name}+{state.name})", nm))
                else:
                    listed[nm] = state
        for xi, xname in enumerate(self.member_names):
            if xi == yi:
                continue
            s = row[xi]
            ls = listed.get(xname)
            if s is not ls:
                problems.append(
                    (f"get_member_state-{getattr(s, 'name', 'unknown')}/listed-as-{getattr(ls, 'name', 'nothing')}", xname)
                )
        counts = (st.alive_count, st.suspect_count, st.dead_count)
        lens = tuple(len(names) for _, names in lists)
        if counts != lens:
            problems.append(("stats-counts-differ-from-list-lengths", f"{counts} vs {lens}"))
        for shape, what in problems:
            key = ("views", shape)
            if key in self.flagged:
                continue
            self.flagged.add(key)
            self.res.add(
                "public-views-of-a-member-disagree",
                "MembershipProtocol",
                shape,
                detail=(
                    f"{self.names[yi]} at t={t / 1e9:.6f}s after {ev.event_type}: {what}: get_member_state says "
                    f"{ {self.member_names[i]: getattr(row[i], 'name', None) for i in range(len(row)) if i != yi} }, alive_members={lists[0][1]}, "
                    f"suspected_members={lists[1][1]}, dead_members={lists[2][1]}, stats alive/suspect/dead={counts}"
                ),
                witness={"observer": self.names[yi], "t_s": t / 1e9, "about": what, "event_type": ev.event_type},
            )
        return listed

    def _sample_phi(self, yi, t, ev, wire):
        """phi(t2) < phi(t1), t1 <= t2, with no heartbeat from that member recorded in between, refutes."""
        y = self.nodes[yi]
        now_s = ev.time.to_seconds()
        for xi, xname in enumerate(self.member_names):
            if xi == yi:
                continue
            rd = _suspicion_reader(y, xname)
            if rd is None:
                continue
            phi_fn, marker_fn = rd
            p = phi_fn(now_s)
            if p != p:
                self.res.count("wired_phi_nan")
                self.phi_prev.pop((yi, xi), None)
                continue
            cur = (p, t, marker_fn(), self.wire_hb[yi][xi])
            prev = self.phi_prev.get((yi, xi))
            foreign = self.foreign_since[yi][xi]
            self.foreign_since[yi][xi] = 0
            self.phi_prev[(yi, xi)] = cur
            if prev is None or prev[3] != cur[3] or _marker_advanced(prev[2], cur[2]):
                continue  # a heartbeat of this member arrived (wire) or was recorded (detector): new episode
            # round 8: a marker that went back to "never heard" (or backwards) without any ping/ack on the wire is not a
            # heartbeat: the detector was replaced or wiped, and a fall of the suspicion level across that is judged
            # (C13-r8-2: a fresh PhiAccrualDetector installed when the local suspicion timer declared the member DEAD)
            self.phi_pairs += 1
            if foreign:
                self.phi_pairs_foreign += 1
            if p < prev[0]:
                if wire is not None and wire[0] == yi and wire[1] in self.member_names and wire[1] != xname:
                    shape = "on-a-heartbeat-from-another-member"
                elif foreign:
                    shape = "after-heartbeats-from-other-members"
                else:
                    shape = f"on-{ev.event_type}"
                key = ("wired-phi", shape)
                if key in self.flagged:
                    continue
                self.flagged.add(key)
                self.res.add(
                    "phi-decreases-without-heartbeat",
                    "MembershipProtocol",
                    shape,
                    detail=(
                        f"{self.names[yi]}: suspicion level for {xname} fell from {prev[0]!r} at t={prev[1] / 1e9:.6f}s to {p!r} at "
                        f"t={t / 1e9:.6f}s; no ping/ack from {xname} was delivered to {self.names[yi]} in between and the detector's "
                        f"last_heartbeat did not change ({cur[2]!r}); event just handled: {ev.event_type}"
                        + (f" from {wire[1]}" if wire is not None and wire[0] == yi else "")
                    ),
                    witness={
                        "observer": self.names[yi],
                        "member": xname,
                        "t1_s": prev[1] / 1e9,
                        "phi1": repr(prev[0]),
                        "t2_s": t / 1e9,
                        "phi2": repr(p),
                        "event_type": ev.event_type,
                        "heartbeats_from_other_members_in_between": foreign,
                    },
                )

    def _transition(self, yi, xi, old, new, t, ev, wire):
        MS = self.MS
        self.transitions += 1
        ups_x = []
        if wire is not None and wire[0] == yi:
            ups_x = wire[3].get(self.member_names[xi], [])
        if new is MS.SUSPECT:
            self.saw_suspect = True
            incs = [i for s, i in ups_x if s == "suspect"]
            if incs:
                self.inc_lb[yi][xi] = max(self.inc_lb[yi][xi], min(incs))
        elif new is MS.DEAD:
            self.saw_dead = True
            incs = [i for s, i in ups_x if s == "dead"]
            if incs:
                self.inc_lb[yi][xi] = max(self.inc_lb[yi][xi], min(incs))
            self.dead_inc[yi][xi] = self.inc_lb[yi][xi]
            self.since_dead[yi][xi] = []
            self.res.count("dead_reports_tracked")
            if self.check_false_death:
                self._false_death(yi, xi, t, ev, bool(incs))
        elif new is MS.ALIVE and self.dead_inc[yi][xi] is not None:
            d = self.dead_inc[yi][xi]
            higher = [i for i in self.since_dead[yi][xi] if i > d]
            self.res.count("dead_to_alive_seen")
            if higher:
                self.res.count("dead_to_alive_with_higher_incarnation")
                self.inc_lb[yi][xi] = max(self.inc_lb[yi][xi], min(higher))
            else:
                alive_incs = [i for s, i in ups_x if s == "alive"]
                if alive_incs:
                    shape = "alive-update-not-above-dead-incarnation"
                elif wire is not None and wire[0] == yi and wire[1] == self.member_names[xi]:
                    shape = "ping-or-ack-from-the-dead-member"
                else:
                    shape = f"on-{ev.event_type}"
                key = ("dead-to-alive", shape)
                if key not in self.flagged:
                    self.flagged.add(key)
                    self.res.add(
                        "dead-to-alive-without-higher-incarnation",
                        "MembershipProtocol",
                        shape,
                        detail=(
                            f"{self.names[yi]} reported {self.member_names[xi]} DEAD (incarnation >= {d}) and reports it ALIVE "
                            f"again at t={t / 1e9:.6f}s after {ev.event_type}; incarnations delivered since the DEAD report: "
                            f"{sorted(set(self.since_dead[yi][xi]))}"
                        ),
                        witness={
                            "observer": self.names[yi],
                            "member": self.member_names[xi],
                            "t_s": t / 1e9,
                            "event_type": ev.event_type,
                            "updates_about_member_in_event": ups_x,
                            "dead_incarnation_lower_bound": d,
                        },
                    )
            self.dead_inc[yi][xi] = None
            self.since_dead[yi][xi] = None
        # DEAD -> SUSPECT is not an ALIVE report: the pending DEAD bookkeeping stays until an ALIVE report

    def _false_death(self, yi, xi, t, ev, by_gossip):
        if xi >= self.n:
            return  # the scripted peer is not a library member
        st = self.case.get("stop")
        if yi in self.excluded or xi in self.excluded or xi in self.was_down:
            return  # views of / by a stopped member are the other clause; a restarted member really was down
        if st is not None:
            ctx = "one-other-member-stopped"
        else:
            ctx = "nobody-stopped"
        if self.bound_frac != BOUND_FRAC:
            ctx += f"/one-way-delays-up-to-{round(self.bound_frac * 100)}pct-of-the-probe-interval"
        cause = "gossiped-dead-update" if by_gossip else ("local-suspicion-timeout" if ev.event_type == "MembershipSuspicionTimeout" else f"on-{ev.event_type}")
        shape = f"{cause}/{ctx}"
        key = ("false-death", shape)
        if key in self.flagged:
            return
        self.flagged.add(key)
        self.res.add(
            "false-death-on-healthy-network",
            "MembershipProtocol",
            shape,
            detail=(
                f"{self.names[yi]} marks live member {self.names[xi]} DEAD at t={t / 1e9:.6f}s "
                f"(probe interval {self.case['probe_interval']}s, every delay <= {self.bound_frac:.0%} of it, no loss) on {ev.event_type}"
            ),
            witness={"observer": self.names[yi], "member": self.names[xi], "t_s": t / 1e9, "event_type": ev.event_type},
        )


def _run_cluster(case: dict, *, check_false_death: bool, check_detection: bool) -> Result:
    from happysimulator.core.event import Event
    from happysimulator.core.simulation import Simulation
    from happysimulator.core.temporal import Instant
    from happysimulator.faults.node_faults import CrashNode, PauseNode
    from happysimulator.faults.schedule import FaultSchedule

    from hsverif.probe import EngineProbe, quiet_library_logging

    quiet_library_logging()
    res = Result()
    random.seed(case["pyseed"])
    n, pi = case["n"], case["probe_interval"]
    net, nodes, peer, script = _build(case)
    stop = case.get("stop")
    B = detection_bound_intervals(n)
    if stop is not None:
        end_s = stop["at"] + (HORIZON_MULT * B + 3) * pi  # the monitor ends the run earlier once everybody detected
    else:
        end_s = case["rounds"] * pi

    fs = None
    decoy = case.get("decoy")
    restarts = case.get("restarts") or []
    if (stop is not None and stop["mode"] == "crash") or case.get("pauses") or decoy or restarts:
        fs = FaultSchedule()
        for r in restarts:
            fs.add(CrashNode(nodes[r["member"]].name, at=r["crash_at"], restart_at=r["restart_at"]))
        if decoy:
            fs.add(CrashNode(nodes[decoy["member"]].name, at=decoy["at"]))
        if stop is not None and stop["mode"] == "crash":
            fs.add(CrashNode(nodes[stop["member"]].name, at=stop["at"]))
        for p in case.get("pauses", []) or []:
            fs.add(PauseNode(nodes[p["member"]].name, start=p["start"], end=p["end"]))
    entities = [net, *nodes] + ([peer] if peer is not None else [])
    ticker = None
    if stop is not None:
        from happysimulator.core.entity import Entity

        class _SampleTicker(Entity):
            """Harness clock: one inert event per probe interval after the stop, so that the views are sampled
            even if every probe loop in the cluster has gone silent."""

            def handle_event(self, event):
                return [Event(time=self.now + pi, event_type="SampleTick", target=self, daemon=True)]

        ticker = _SampleTicker("sample-ticker")
        entities.append(ticker)
    sim = Simulation(entities=entities, end_time=Instant.from_seconds(end_s), fault_schedule=fs)
    if ticker is not None:
        sim.schedule(Event(time=Instant.from_seconds(stop["at"]), event_type="SampleTick", target=ticker, daemon=True))

    # membership start: at offset 0 exactly like the repository's tests; later offsets through a one-shot event
    for nd, off in zip(nodes, case["offsets"]):
        if off <= 0:
            for e in nd.start():
                sim.schedule(e)
        else:
            sim.schedule(Event.once(time=Instant.from_seconds(off), event_type=f"start:{nd.name}", fn=lambda e, nd=nd: nd.start(), daemon=True))
    if stop is not None and stop["mode"] == "isolate":
        x = nodes[stop["member"]]
        others = [nd for nd in nodes if nd is not x]
        sim.schedule(
            Event.once(
                time=Instant.from_seconds(stop["at"]),
                event_type="isolate",
                fn=lambda e: (net.partition([x], others), None)[1],
                daemon=True,
            )
        )
    for j, jn in enumerate((case.get("membership") or {}).get("joins", [])):
        # late introductions: both sides call the public add_member() while the simulation runs
        def introduce(e, pairs=jn["pairs"]):
            for a, b in pairs:
                nodes[a].add_member(nodes[b])
                nodes[b].add_member(nodes[a])

        sim.schedule(Event.once(time=Instant.from_seconds(jn["at"]), event_type=f"introduce{j}", fn=introduce, daemon=True))
    probes_at_restart: dict = {}
    for r in restarts:
        # the restarted node lost its own probe tick while it was down: the operator calls start() again
        def start_again(e, nd=nodes[r["member"]], idx=r["member"]):
            probes_at_restart[idx] = nd.stats.probes_sent
            return nd.start()

        sim.schedule(Event.once(time=Instant.from_seconds(r["start_again_at"]), event_type=f"start-again:{r['member']}", fn=start_again, daemon=True))
    handles: dict = {}
    for i, p in enumerate(case.get("partitions", []) or []):
        ga = [nodes[j] for j in p["a"]]
        gb = [nodes[j] for j in p["b"]]

        def cut(e, i=i, ga=ga, gb=gb, asym=p["asymmetric"]):
            handles[i] = net.partition(ga, gb, asymmetric=asym)

        def heal(e, i=i):
            h = handles.pop(i, None)
            if h is not None:
                h.heal()

        sim.schedule(Event.once(time=Instant.from_seconds(p["at"]), event_type=f"cut{i}", fn=cut, daemon=True))
        sim.schedule(Event.once(time=Instant.from_seconds(p["heal"]), event_type=f"heal{i}", fn=heal, daemon=True))
    for op in case.get("inject", []) or []:
        sim.schedule(
            Event(
                time=Instant.from_seconds(op["t"]),
                event_type="GossipInject",
                target=peer,
                daemon=True,
                context={"metadata": {"dst": nodes[op["dst"]].name, "updates": op["updates"]}},
            )
        )

    stop_ns = Instant.from_seconds(stop["at"]).nanoseconds if stop is not None else None
    mon = _Monitor(
        case,
        nodes,
        res,
        check_false_death=check_false_death,
        stopped=stop["member"] if stop is not None else None,
        stop_ns=stop_ns,
    )
    mon.net = net
    if stop is not None:
        mon.bound_ns = Instant.from_seconds(stop["at"] + B * pi).nanoseconds
        mon.settle_ns = Instant.from_seconds(stop["at"] + (B + 3) * pi).nanoseconds
        mon.control = sim.control
    sim.control.on_event(mon.on_event)
    with EngineProbe(log_deliveries=False, instant_cap=20000, total_cap=1_500_000, record_emissions=False) as p:
        status = p.run(sim)

    res.count("events_monitored", mon.events)
    res.count("state_samples", mon.samples)
    res.count("list_and_stats_views_polled", mon.view_samples)
    res.count("state_transitions", mon.transitions)
    res.count("clusters_run")
    res.count("probes_sent", sum(nd.stats.probes_sent for nd in nodes))
    res.count("acks_received", sum(nd.stats.acks_received for nd in nodes))
    res.count("indirect_probes_sent", sum(nd.stats.indirect_probes_sent for nd in nodes))
    res.seen("cluster_sizes", n)
    if mon.check_phi:
        res.count("wired_phi_pairs_checked", mon.phi_pairs)
        res.count("wired_phi_pairs_spanning_other_members_heartbeats", mon.phi_pairs_foreign)
    for r in restarts:
        idx = r["member"]
        res.count("observer_restarts")
        if idx in probes_at_restart:
            sent = nodes[idx].stats.probes_sent - probes_at_restart[idx]
            res.count("probes_by_restarted_nodes_after_restart", sent)
            if sent == 0 and end_s - r["start_again_at"] > 3 * pi and not res.violations:
                res.inconclusive = f"{nodes[idx].name} was started again after its restart but sent no probe in the rest of the run"
                res.count("restarted_nodes_that_never_probed_again")
    if case.get("membership") is not None:
        res.count("idle_probe_ticks", sum(mon.idle_ticks))
        res.count("late_introductions", sum(len(jn["pairs"]) for jn in case["membership"]["joins"]))
        if sum(mon.idle_ticks) == 0 and not res.violations:
            res.inconclusive = "no node ever had a probe round with nobody to probe"
    if mon.saw_suspect:
        res.count("runs_with_suspect")
    if mon.saw_dead:
        res.count("runs_with_dead")
    res.nontrivial = mon.saw_suspect
    if case.get("bound_frac", BOUND_FRAC) > 0.25:
        res.count("late_acks_seen", mon.late_acks)
        res.nontrivial = mon.saw_suspect and mon.late_acks > 0

    # the "healthy" premise is measured, not assumed
    if case.get("bounded", True):
        delays = [d for (_, _, _, _, _, d) in script.log if d is not None]
        dropped = sum(1 for rec in script.log if rec[5] is None)
        res.count("messages_within_bound", len(delays))
        lim = case.get("bound_frac", BOUND_FRAC) * pi * (1 + 1e-9)
        if dropped or (delays and max(delays) > lim):
            raise RuntimeError(f"delay script broke the healthy-network premise: max={max(delays or [0])} lim={lim} dropped={dropped}")
        if not delays and stop is None:
            res.inconclusive = "no message was sent"
    if status != "completed":
        if not res.violations:
            res.inconclusive = f"engine {status} (deliveries={p.n_deliveries}, max per instant={p.max_instant})"
        return res
    if peer is not None:
        res.count("gossip_messages_injected", peer.sent)

    if check_detection and stop is not None:
        _detection_oracle(case, mon, nodes, res, B, end_s)
    return res


def _detection_oracle(case, mon: _Monitor, nodes, res: Result, B: int, end_s: float):
    stop = case["stop"]
    pi = case["probe_interval"]
    xi = stop["member"]
    xname = nodes[xi].name
    MS = mon.MS
    res.count("late_samples_after_bound", mon.late_samples)
    if mon.late_samples == 0:
        res.inconclusive = "no sample later than the detection bound"
        return
    worst = 0.0
    for yi, y in enumerate(nodes):
        if yi in mon.excluded or mon.cur[yi][xi] is None:
            continue  # stopped itself, or never introduced to the stopped member
        res.count("observer_views_checked")
        la = mon.last_alive_ns[yi]
        if la is None:
            det = 0.0  # never reported ALIVE at any sample (suspected before the stop and never heard again)
        else:
            det = max(0.0, (la - mon.stop_ns) / 1e9 / pi)
        worst = max(worst, det)
        if la is not None and la > mon.bound_ns:
            heard = mon.heard_ns[yi][xi]
            still = mon.cur[yi][xi] is MS.ALIVE or mon.listed_alive_now[yi]  # at the last sample, i.e. at the 3B horizon
            list_only = mon.alive_by_list_only_ns[yi] == la  # the ALIVE report came from alive_members alone
            probes = mon.probes_after_stop[yi]
            if heard is None:
                shape = "observer-never-received-a-ping-or-ack-from-the-stopped-member"
            else:
                shape = (
                    "observer-had-received-messages-from-the-stopped-member/"
                    + ("its-direct-probes-after-the-stop-went-unanswered/" if probes else "it-sent-no-direct-probe-after-the-stop/")
                    + (f"still-alive-at-{HORIZON_MULT}B" if still else f"detected-late-between-B-and-{HORIZON_MULT}B")
                )
            if list_only:
                shape += "/reported-by-alive_members-while-get_member_state-had-left-ALIVE"
            if yi in mon.was_down:
                shape += "/observer-went-through-crash-restart-and-start()-again"
            res.count("views_still_alive_at_horizon" if still else "views_detected_late_after_bound")
            key = ("detect", shape)
            if key not in mon.flagged:
                mon.flagged.add(key)
                res.add(
                    "stopped-member-still-reported-alive-after-bound",
                    "MembershipProtocol",
                    shape,
                    detail=(
                        f"{xname} stopped for good ({stop['mode']}) at t={stop['at']}s; {y.name} still reports it ALIVE at "
                        f"t={la / 1e9:.6f}s = stop + {det:.1f} probe intervals (> B = {B}); state at the end of the run "
                        f"({HORIZON_MULT}B horizon unless everybody detected earlier) {y.get_member_state(xname).name}; first message from "
                        f"{xname} delivered to {y.name}: {'never' if heard is None else f'{heard / 1e9:.6f}s'}; direct probes "
                        f"{y.name}->{xname} sent after the stop: {probes}"
                    ),
                    witness={
                        "stopped": xname,
                        "mode": stop["mode"],
                        "stop_s": stop["at"],
                        "observer": y.name,
                        "last_alive_report_s": la / 1e9,
                        "last_alive_report_intervals_after_stop": round(det, 2),
                        "bound_intervals": B,
                        "direct_probes_after_stop": probes,
                        "final_views_of_stopped": {nd.name: str(getattr(nd.get_member_state(xname), "name", None)) for i, nd in enumerate(nodes) if i != xi},
                        "idle_probe_ticks_of_observer": mon.idle_ticks[yi],
                    },
                )
            res.count("views_undetected_after_bound")
        else:
            res.count("views_detected_within_bound")
            b = min(9, int(10 * det / B))
            res.count(f"detection_time_{b * 10:02d}_to_{b * 10 + 10}_pct_of_B")
    res.seen("max_last_alive_report_intervals_after_stop", int(math.ceil(worst)))


def run_healthy(case: dict) -> Result:
    return _run_cluster(case, check_false_death=True, check_detection=False)


def run_crash(case: dict) -> Result:
    return _run_cluster(case, check_false_death=True, check_detection=True)


def run_tardy(case: dict) -> Result:
    return _run_cluster(case, check_false_death=True, check_detection=False)


def run_phiwire(case: dict) -> Result:
    res = _run_cluster(case, check_false_death=True, check_detection=case.get("stop") is not None)
    res.nontrivial = res.obs.get("wired_phi_pairs_spanning_other_members_heartbeats", 0) > 0
    return res


def run_restart(case: dict) -> Result:
    return _run_cluster(case, check_false_death=True, check_detection=True)


def run_join(case: dict) -> Result:
    return _run_cluster(case, check_false_death=True, check_detection=True)


def run_gossip(case: dict) -> Result:
    return _run_cluster(case, check_false_death=False, check_detection=False)


def run_churn(case: dict) -> Result:
    return _run_cluster(case, check_false_death=False, check_detection=False)


# --------------------------------------------------------------------------
# phi accrual detector alone


def gen_phi(rng: random.Random, tier: str) -> dict:
    kind = rng.choice(["regular", "bursty", "single", "zero-variance", "exponential", "drifting", "tiny", "huge"])
    t = rng.choice([0.0, 0.0, round(rng.uniform(0, 1000), 6), 1e6, 1e9])
    nhb = 1 if kind == "single" else rng.choice([2, 3, 5, 10, 30, 80, 250])
    beats = []
    for i in range(nhb):
        beats.append(t)
        if kind == "regular":
            t += 1.0 + rng.uniform(-0.05, 0.05)
        elif kind == "bursty":
            t += rng.choice([0.0, 0.001, 0.01, 0.01, 5.0, 30.0])
        elif kind == "zero-variance":
            t += 0.5
        elif kind == "exponential":
            t += rng.expovariate(1.0)
        elif kind == "drifting":
            t += 0.1 * (1.1**i)
        elif kind == "tiny":
            t += rng.choice([1e-9, 1e-6, 1e-7])
        else:
            t += rng.choice([1e3, 1e5, 1e7])
    return {
        "kind": kind,
        "threshold": rng.choice([1.0, 4.0, 8.0, 12.0, 16.0]),
        "max_sample_size": rng.choice([1, 2, 5, 200, 200]),
        "min_std": rng.choice([0.1, 0.1, 0.1, 0.01, 1e-6, 1e-12, 1.0, 50.0]),
        "initial_interval": rng.choice([None, None, 0.1, 1.0, 5.0]),
        "heartbeats": beats,
        "grid": rng.choice(["fine", "fine", "geometric", "geometric", "ulps", "mixed"]),
        "grid_seed": rng.randrange(1 << 30),
        "between": rng.random() < 0.5,
    }


def _grid(mode: str, start: float, stop: float | None, rng: random.Random) -> list[float]:
    """Increasing time points in [start, stop) (stop None = open tail)."""
    pts: list[float] = []
    if mode == "mixed":
        mode = rng.choice(["fine", "geometric", "ulps"])
    if mode == "fine":
        step = rng.choice([1e-6, 1e-3, 0.01, 0.1, 1.0])
        pts = [start + i * step for i in range(600)]
    elif mode == "geometric":
        g = rng.choice([1e-9, 1e-6, 1e-3])
        ratio = rng.choice([1.05, 1.2, 2.0])
        while g < 1e13 and len(pts) < 1200:
            pts.append(start + g)
            g *= ratio
    else:
        base = start + rng.choice([0.0, rng.uniform(0, 3), rng.uniform(0, 60), rng.uniform(0, 2000)])
        pts = [base]
        for _ in range(600):
            pts.append(math.nextafter(pts[-1], math.inf))
    out = []
    prev = None
    for x in pts:
        if stop is not None and x >= stop:
            break
        if prev is None or x > prev:
            out.append(x)
            prev = x
    return out


def run_phi(case: dict) -> Result:
    from happysimulator.components.consensus.phi_accrual_detector import PhiAccrualDetector

    res = Result()
    rng = random.Random(case["grid_seed"])
    d = PhiAccrualDetector(
        threshold=case["threshold"],
        max_sample_size=case["max_sample_size"],
        min_std=case["min_std"],
        initial_interval=case["initial_interval"],
    )
    beats = case["heartbeats"]
    flagged: set = set()
    crossed = False
    for bi, hb in enumerate(beats):
        d.heartbeat(hb)
        last = bi == len(beats) - 1
        if not last and not case["between"]:
            continue
        nxt = None if last else beats[bi + 1]
        if nxt is not None and nxt <= hb:
            continue
        grid = _grid(case["grid"], hb, nxt, rng)
        st = d.stats
        mean, std = st.mean_interval, max(st.std_interval, case["min_std"])
        prev_t = prev_p = None
        lo = hi = None
        for t in grid:
            p = d.phi(t)
            res.count("phi_evaluations")
            if p != p:
                res.count("phi_nan")
                res.inconclusive = f"phi({t}) is NaN"
                prev_t = prev_p = None
                continue
            lo = p if lo is None else min(lo, p)
            hi = p if hi is None else max(hi, p)
            if prev_p is not None:
                res.count("phi_pairs_checked")
                if p < prev_p:
                    el = prev_t - hb
                    if not st.heartbeats_received or mean == 0 and std == 0:
                        region = "no-interval-data"
                    elif el < mean:
                        region = "elapsed-below-mean-interval"
                    elif prev_p == float("inf") or el > mean + 38 * std:
                        region = "far-tail-erfc-underflow"
                    else:
                        region = "elapsed-above-mean-interval"
                    if region not in flagged:
                        flagged.add(region)
                        res.add(
                            "phi-decreases-without-heartbeat",
                            "PhiAccrualDetector",
                            region,
                            detail=(
                                f"phi({prev_t!r})={prev_p!r} > phi({t!r})={p!r}; last heartbeat {hb!r}, mean interval {mean!r}, "
                                f"std {std!r} (after heartbeat #{bi + 1} of {len(beats)})"
                            ),
                            witness={"t1": prev_t, "phi1": repr(prev_p), "t2": t, "phi2": repr(p), "last_heartbeat": hb, "mean": mean, "std": std},
                        )
            prev_t, prev_p = t, p
        if lo is not None and lo < case["threshold"] <= hi:
            crossed = True
    res.nontrivial = crossed
    return res


# --------------------------------------------------------------------------

FAMILIES = {
    "healthy": Family("healthy", gen_healthy, run_healthy, case_timeout=60.0),
    "crash": Family("crash", gen_crash, run_crash, case_timeout=60.0),
    "gossip": Family("gossip", gen_gossip, run_gossip, case_timeout=60.0),
    "churn": Family("churn", gen_churn, run_churn, case_timeout=60.0),
    "tardy": Family("tardy", gen_tardy, run_tardy, case_timeout=60.0),
    "join": Family("join", gen_join, run_join, case_timeout=60.0),
    "phiwire": Family("phiwire", gen_phiwire, run_phiwire, case_timeout=90.0),
    "restart": Family("restart", gen_restart, run_restart, case_timeout=60.0),
    "phi": Family("phi", gen_phi, run_phi, case_timeout=30.0),
}

BUDGET = {
    "quick": {"healthy": 500, "crash": 500, "gossip": 300, "churn": 200, "tardy": 300, "join": 300, "phiwire": 200, "restart": 300, "phi": 1500},
    "thorough": {"healthy": 12000, "crash": 12000, "gossip": 6000, "churn": 4000, "tardy": 8000, "join": 8000, "phiwire": 5000, "restart": 8000, "phi": 40000},
}

"""C01  Every live event is delivered exactly once, in time order with FIFO ties.

Monitor shape: history + executable reference model.  A generated program is
executed by the real engine (harness script entities log every delivery from
inside handle_event / generator bodies; the EngineProbe logs every depth-0
invoke independently) and by the reference interpreter of the documented
semantics (hsverif.progmodel.Reference).  The two logs must be equal on live
events.
"""

from __future__ import annotations

import random
from collections import Counter

from hsverif.core import Family, Result
from hsverif.proggen import gen_program, shrink_program
from hsverif.progmodel import RealRun, program_is_valid, run_reference

PID = "C01"
LEVEL = "exploration"
RULE = (
    "Generated programs: 1-6 script entities whose reaction to (entity, event type) is none / return one or many "
    "events / a generator yielding delays and (delay, events); delays and offsets from {0, 1ns, 999ns, 1ms, 1s} and "
    "0-40 pre-run events on 1-3 distinct nanoseconds (created before and after Simulation() is constructed, scheduled "
    "in creation or shuffled order), so same-nanosecond ties between pre-run events, run-created events and process "
    "resumptions are the norm; daemon flags, events cancelled before the run and by handlers during it, events stamped "
    "in the past, end_time absent / on / 1ns before / 1ns after event times. Real delivery log (from handlers and from "
    "the engine probe) compared with a reference interpreter of the documented semantics. Non-trivial: the run had a "
    "same-nanosecond tie between a pre-run and a run-created event, or popped a cancelled event, or ended with only "
    "daemon events pending. Family `rerun`: the same Simulation object is run, reset through the control surface and "
    "run again; both runs are compared with the reference (events built in one order and scheduled in another, some "
    "cancelled before the first run). Distinct by hash of the program."
)
ASSUMPTIONS = [
    "an event later than end_time is not live; its delivery (the engine's one-event overshoot) is counted, not judged",
    "a cancelled non-daemon event still in the heap counts as pending for the auto-termination clause (lazy deletion is documented)",
    "a process resumption is an event created at the instant of the yield, after the side-effect events of that yield",
]
MUST_OBSERVE = ["deliveries_compared"]


def gen(rng: random.Random, tier: str) -> dict:
    return gen_program(rng, futures=False, hooks=False)


def _origin(ref, entry):
    if entry[0] == "D":
        rec = ref.events.get(entry[3])
        if rec is None:
            return "unknown"
        if rec["origin"] == "pre":
            spec = ref.p["pre"][entry[3]] if entry[3] < len(ref.p["pre"]) else {}
            return "pre-" + spec.get("phase", "after")
        return "run"
    return "cont"


def compare_logs(res: Result, real_log, ref, end_ns, component="Simulation") -> bool:
    """Sequence equality on live entries; classifies the first divergence. Returns True if equal."""
    real = [tuple(_j(e)) for e in real_log if end_ns is None or e[1] <= end_ns]
    want = [tuple(_j(e)) for e in ref.log if end_ns is None or e[1] <= end_ns]
    res.count("deliveries_compared", len(want))
    if real == want:
        return True
    i = 0
    while i < len(real) and i < len(want) and real[i] == want[i]:
        i += 1
    r = real[i] if i < len(real) else None
    w = want[i] if i < len(want) else None
    ctx = {"index": i, "real": real[max(0, i - 3) : i + 4], "reference": want[max(0, i - 3) : i + 4]}
    if r is None:
        oracle, shape = "missing-delivery", f"run-stopped-early-{ref.stop_reason}"
        if end_ns is None and w is not None:
            shape = "stopped-with-work-pending"
    elif w is None:
        oracle = "extra-delivery"
        shape = "ran-past-termination" if end_ns is None else "after-reference-end"
    else:
        rest_real = Counter(real[i:])
        rest_want = Counter(want[i:])
        if r[1] == w[1] and rest_want[r] > 0 and rest_real[w] > 0:
            oracle = "tie-order"
            kinds = sorted({_origin(ref, r), _origin(ref, w)})
            shape = "same-instant-" + "-vs-".join(kinds)
        elif rest_want[r] > 0 and rest_real[w] > 0:
            oracle, shape = "time-order", "different-instants"
        elif rest_real[w] == 0:
            oracle = "missing-delivery"
            shape = {"D": "event", "R": "resumption", "H": "hook", "F": "finish"}[w[0]] + "-never-delivered"
            if w[0] == "D":
                rec = ref.events.get(w[3])
                if rec and rec["origin"] != "pre":
                    shape += "-run-created"
        else:
            oracle = "extra-delivery"
            shape = {"D": "event", "R": "resumption", "H": "hook", "F": "finish"}[r[0]] + "-not-in-reference"
            if r[0] == "D":
                rec = ref.events.get(r[3])
                if rec is not None and rec["cancelled"]:
                    oracle, shape = "cancelled-delivered", "cancelled-event"
                elif rec is not None and rec.get("discarded"):
                    shape = "event-stamped-in-the-past"
    res.add(oracle, component, shape, detail=f"first divergence at log index {i}: real={r} reference={w}", witness=ctx)
    return False


def _j(e):
    return [_deep(x) for x in e]


def _deep(x):
    return tuple(_deep(y) for y in x) if isinstance(x, (list, tuple)) else x


def run(case: dict) -> Result:
    from hsverif.probe import EngineProbe, quiet_library_logging

    quiet_library_logging()
    res = Result()
    if not program_is_valid(case):
        res.inconclusive = "invalid program (two processes on one future)"
        return res
    ref = run_reference(case)
    rr = RealRun(case)
    sim = rr.make()
    with EngineProbe(log_deliveries=True, instant_cap=50000, total_cap=200000) as p:
        status = p.run(sim, (lambda: _drive_with_injections(rr, sim, case)) if case.get("inject") else None)
    if status != "completed":
        if status == "spin":
            res.add("frozen-clock", "Simulation", "finite-program", detail=str(p.spin))
        else:
            res.inconclusive = "delivery budget exceeded"
        return res
    end_ns = case.get("end_ns")
    summary = sim.summary
    res.count("events_monitored", p.n_deliveries)
    res.count("probe_evaluations", p.n_deliveries + p.n_pushes)
    if p.n_deliveries == 0 and ref.processed > 0:
        res.inconclusive = "delivery probe never fired"

    # (1) the log itself
    compare_logs(res, rr.log, ref, end_ns)

    # (2) clock == event.time at each delivery, clock never decreases (whole run, beyond the horizon too)
    prev = None
    for e in rr.log:
        if e[0] == "D" and e[1] != e[2]:
            res.add("clock-mismatch", "Simulation", "clock-differs-from-event-time", detail=str(e))
            break
        if prev is not None and e[1] < prev:
            res.add("clock-regress", "Simulation", "clock-moved-backwards", detail=f"{prev} -> {e}")
            break
        prev = e[1]
    if p.clock_mismatch:
        res.add("clock-mismatch", "Simulation", "probe-clock-differs-from-event-time", detail=str(p.clock_mismatch[:2]))
    if p.clock_regress:
        res.add("clock-regress", "Simulation", "probe-clock-moved-backwards", detail=str(p.clock_regress[:2]))

    # (3) exactly once / never a cancelled one, counted on payload ids over the whole real run
    counts = Counter(e[3] for e in rr.log if e[0] == "D")
    dup = [pid for pid, n in counts.items() if n > 1]
    if dup:
        res.add("duplicate-delivery", "Simulation", "event-delivered-twice", detail=f"pids {dup[:5]}")
    # a delivered event must not have been cancelled before its delivery: the reference knows
    # which pids are cancelled before their turn (it delivered them or not in the same order)
    ref_delivered = {e[3] for e in ref.log if e[0] == "D"}
    for pid in counts:
        rec = ref.events.get(pid)
        if rec is not None and rec["cancelled"] and pid not in ref_delivered and (end_ns is None or rec["t"] <= end_ns):
            real_ev = rr.events.get(pid)
            if real_ev is not None and real_ev.cancelled:
                res.add("cancelled-delivered", "Simulation", "cancelled-event", detail=f"pid {pid}")
                break

    # (4) probe vs harness agreement and summary counters
    probe_events = sum(1 for d in p.deliveries if not d[4])
    harness_events = sum(counts.values())
    if probe_events != harness_events:
        res.add(
            "probe-harness-disagree",
            "Simulation",
            "invoke-count-differs-from-handler-entries",
            detail=f"probe saw {probe_events} event invocations, handlers logged {harness_events}",
        )
    if summary is not None:
        if summary.total_events_processed != p.n_deliveries:
            res.add(
                "summary-counter",
                "SimulationSummary",
                "total_events_processed",
                detail=f"summary {summary.total_events_processed} vs probe {p.n_deliveries}",
            )
        live_cancelled = ref.cancelled_popped
        all_cancelled = sum(1 for r_ in ref.events.values() if r_["cancelled"])
        # real events beyond the horizon may add cancelled pops; events only the real run created cannot exist
        if not (live_cancelled <= summary.events_cancelled <= max(all_cancelled, live_cancelled)):
            if compare_ok(res):
                res.add(
                    "summary-counter",
                    "SimulationSummary",
                    "events_cancelled",
                    detail=f"summary {summary.events_cancelled}, reference popped {live_cancelled} of {all_cancelled} cancelled",
                )
    beyond = sum(1 for e in rr.log if end_ns is not None and e[1] > end_ns)
    res.count("beyond_horizon_deliveries", beyond)

    # non-triviality, measured on the reference run
    by_instant: dict[int, set] = {}
    for e in ref.log:
        if e[0] == "D":
            by_instant.setdefault(e[1], set()).add("pre" if ref.events[e[3]]["origin"] == "pre" else "run")
    tie = any(len(s) == 2 for s in by_instant.values())
    daemon_tail = ref.stop_reason == "no_primary" and bool(ref.heap)
    if tie:
        res.count("cases_with_prerun_runcreated_tie")
    if ref.cancelled_popped:
        res.count("cases_with_cancelled_pop")
    if daemon_tail:
        res.count("cases_with_daemon_only_tail")
    res.nontrivial = tie or ref.cancelled_popped > 0 or daemon_tail
    return res


def _drive_with_injections(rr, sim, case):
    """Pause before the first event, step to each injection point, create + schedule the events
    from outside the run loop (the way a user of the control surface would), then resume."""
    ctl = sim.control
    ctl.pause()
    sim.run()
    done = 0
    for inj in sorted(case["inject"], key=lambda i: i["after"]):
        need = inj["after"] - done
        if need > 0:
            if not ctl.is_paused:
                break
            ctl.step(need)
            done = inj["after"]
        if not ctl.is_paused or ctl.get_state().events_processed != inj["after"]:
            break
        now = sim._clock.now.nanoseconds
        look = inj.get("look")
        if look is None:
            look = (inj["after"] + len(inj["events"])) % 3
        if look == 1:
            # round 8: the user inspects the calendar while paused; looking must not change what is delivered
            # (C01-r8-2: peek_next() put the events back with a raw heappush after pop() had already taken them off
            # the pending-primary count, so a run without end_time stopped with live events still pending)
            ctl.peek_next(1 + inj["after"] % 5)
            ctl.get_state()
        elif look == 2:
            ctl.find_events(lambda e: True)
        sim.schedule([rr._mk(s, now + s["dt"]) for s in inj["events"]])
        if look == 1:
            ctl.peek_next(2)
    while ctl.is_paused:
        ctl.resume()


def _gen_inject(rng: random.Random, tier: str) -> dict:
    """Programs plus events created and scheduled while the run is paused (ties with pending run-created events)."""
    from hsverif.proggen import _evspec

    prog = gen_program(rng, futures=False, hooks=False, max_pre=12)
    ref = run_reference(prog, exact_overshoot=True)
    n = ref.processed
    inj = []
    for _ in range(rng.randrange(1, 4)):
        k = rng.randrange(0, max(1, n))
        evs = [_evspec(rng, prog["n_ent"], rng.randrange(0, 3), set(), allow_past=False) for _ in range(rng.randrange(1, 4))]
        for e in evs:
            e["dt"] = rng.choice([0, 0, 0, 1, 999, 1_000_000])
            e["handle"] = None
        inj.append({"after": k, "events": evs})
    # at most one injection per point keeps creation order unambiguous
    seen, out = set(), []
    for i in sorted(inj, key=lambda i: i["after"]):
        if i["after"] not in seen:
            seen.add(i["after"])
            out.append(i)
    prog["inject"] = out
    return prog


def compare_ok(res: Result) -> bool:
    return not any(v.oracle in ("tie-order", "time-order", "missing-delivery", "extra-delivery", "cancelled-delivered") for v in res.violations)


def _gen_boundary(rng: random.Random, tier: str) -> dict:
    """Boundary family: everything on one nanosecond, or end_time equal to an event time."""
    prog = gen_program(rng, futures=False, hooks=False, max_pre=25)
    mode = rng.choice(["one-ns", "end-at-event", "end-at-event"])
    if mode == "one-ns":
        t = rng.choice([0, 1, 10**9])
        for spec in prog["pre"]:
            spec["t"] = t
        for act in prog["table"].values():
            for ev in act.get("events") or []:
                ev["dt"] = 0
            for st in act.get("body") or []:
                if st["op"] == "delay":
                    st["d"] = 0.0
                    for ev in st.get("side") or []:
                        ev["dt"] = 0
            for ev in act.get("ret") or []:
                ev["dt"] = 0
        prog["end_ns"] = rng.choice([None, t, t + 1, max(0, t - 1)])
    else:
        ref = run_reference({**prog, "end_ns": None})
        times = sorted({e[1] for e in ref.log})
        if times:
            prog["end_ns"] = max(0, rng.choice(times) + rng.choice([0, 0, -1, 1]))
    return prog


def _gen_rerun(rng: random.Random, tier: str) -> dict:
    """The same Simulation object run, reset through the control surface, and run again."""
    prog = gen_program(rng, futures=False, hooks=False, max_pre=20)
    # the harness keeps handles to the first run's event objects: no in-run cancels through them
    for act in prog["table"].values():
        act["cancel"] = []
        if act.get("body"):
            act["body"] = [s for s in act["body"] if s["op"] != "cancel"]
    prog["rerun"] = True
    return prog


def run_rerun(case: dict) -> Result:
    """Second run of a reused Simulation (after control.reset()) against the same reference."""
    from hsverif.probe import EngineProbe, quiet_library_logging

    quiet_library_logging()
    res = Result()
    if not program_is_valid(case):
        res.inconclusive = "invalid program"
        return res
    ref = run_reference(case)
    rr = RealRun(case)
    sim = rr.make()
    end_ns = case.get("end_ns")
    with EngineProbe(log_deliveries=False, instant_cap=50000, total_cap=400000) as p:

        def go():
            sim.run()
            first = rr.log
            rr.log = []
            rr.pid = len(case["pre"])  # run-created payload ids restart where the first run's started
            sim.control.reset()
            sim.run()
            return first

        box = {}
        status = p.run(sim, lambda: box.setdefault("first", go()))
    if status != "completed":
        res.inconclusive = f"run did not complete: {status}"
        return res
    res.count("events_monitored", p.n_deliveries)
    res.count("reruns_compared")
    if compare_logs(res, box["first"], ref, end_ns):
        compare_logs(res, rr.log, ref, end_ns, component="Simulation(reused after reset)")
    counts = Counter(e[3] for e in rr.log if e[0] == "D")
    dup = [pid for pid, n in counts.items() if n > 1]
    if dup:
        res.add("duplicate-delivery", "Simulation(reused after reset)", "event-delivered-twice", detail=f"pids {dup[:5]}")
    res.nontrivial = any(s.get("cancel_pre") for s in case["pre"]) or case["sched_order"] != sorted(case["sched_order"])
    return res


def _gen_bulk(rng: random.Random, tier: str) -> dict:
    """Thousands of pending events (request + timeout-timer style: a third cancelled before they are due), a
    daemon stream reaching beyond the last primary event, usually no end_time: heap sizes in the thousands."""
    for _attempt in range(20):
        prog = gen_program(rng, futures=False, hooks=False, max_pre=5)
        n = rng.choice([4200, 5000, 6500, 9000])
        base = rng.choice([0, 1000, 10**9])
        slots = rng.choice([50, 400, 3000])
        step = rng.choice([1, 1000, 10**6])
        pre = []
        for i in range(n):
            daemon = rng.random() < 0.12
            pre.append(
                {
                    "t": base + rng.randrange(slots + (slots // 2 if daemon else 0)) * step,
                    "dt": 0,
                    "ent": rng.randrange(prog["n_ent"]),
                    "type": rng.choice(["T2", "T3", "T3", "T4", "T4", "T4"]),
                    "daemon": daemon,
                    "handle": f"h{rng.randrange(6)}" if rng.random() < 0.01 else None,
                    "phase": "after",
                    "cancel_pre": rng.random() < 0.35,
                }
            )
        order = list(range(n))
        if rng.random() < 0.3:
            rng.shuffle(order)
        prog.update(pre=pre, sched_order=order, end_ns=None if rng.random() < 0.8 else base + (slots // 2) * step)
        prog.pop("start_ns", None)
        try:
            ref = run_reference(prog, max_deliveries=150000)
        except Exception:  # noqa: BLE001
            continue
        if len(ref.log) <= 60000 and program_is_valid(prog):
            return prog
    return prog


FAMILIES = {
    "bulk": Family("bulk", _gen_bulk, run, case_timeout=120.0),
    "rerun": Family("rerun", _gen_rerun, run_rerun, shrink=shrink_program, case_timeout=30.0),
    "programs": Family("programs", gen, run, shrink=shrink_program, case_timeout=30.0),
    "boundary": Family("boundary", _gen_boundary, run, shrink=shrink_program, case_timeout=30.0),
    "inject": Family("inject", _gen_inject, run, case_timeout=30.0),
}

BUDGET = {
    "quick": {"programs": 3000, "boundary": 600, "inject": 600, "rerun": 800, "bulk": 40},
    "thorough": {"programs": 150000, "boundary": 30000, "inject": 30000, "rerun": 30000, "bulk": 1500},
}

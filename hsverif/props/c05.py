"""C05  Partitioned parallel execution is equivalent to sequential execution.

Monitor shape: differential history.  Every case is a generated *event script*
(JSON): partitions of stateless script entities, links, window size, pre-run
events and, per unique payload id, the list of events its delivery produces.
The script is executed

  * once by ONE sequential ``Simulation`` over all entities (the reference the
    property names),
  * once by ``ParallelSimulation`` under the default thread schedule,
  * K more times by ``ParallelSimulation`` under perturbed thread schedules
    (switch interval 1 us, ``sleep(0)`` injected at random LINE events of
    ``happysimulator/parallel/*.py`` and ``core/simulation.py`` through
    ``sys.monitoring``).

Observed: per-entity delivery logs written by the script entities themselves,
per-partition logs (deliveries and cross-partition sends in execution order),
the barrier times the coordinator really used (transparent wrapper around
``WindowedCoordinator._exchange_events``), every "Time travel detected" record
of the engine with its exact nanosecond arguments, exceptions escaping
``ParallelSimulation.run``.
"""

from __future__ import annotations

import logging
import os
import random
import sys
import time
import traceback
import warnings
from collections import Counter

from hsverif.core import Family, Result, ddmin, ensure_repo_on_path

ensure_repo_on_path()

PID = "C05"
LEVEL = "exploration"
RULE = (
    "Generated event scripts: 2-4 partitions of 1-3 stateless script entities; directed links (pair, chain, ring, "
    "random, all-to-all) with min_latency from {0.1, 0.25, 1e-3, 0.07, 0.29, 0.3, 1/3, 0.05}; window_size None or "
    "min_latency/{1,2,3,7} or random below it; pre-run events and a finite tree of reactions keyed by unique payload "
    "id; local delays arbitrary (0, 1 ns, random, aimed at window barriers -1/0/+1 ns, ties with other events, long "
    "idle gaps); cross-partition delays exactly the smallest delay respecting the declared minimum, +1 ns, larger or "
    "aimed at barriers; some reactions are generator processes (yield, then emit); end_time absent, at / 1 ns around "
    "a barrier or an event, mid-run, or a nanosecond value that does not survive the float-seconds round trip; "
    "start_time 0 (family far_epoch: >= 1e15 ns). Each case = 1 sequential run + 1 parallel run + K perturbed "
    "parallel runs (K=3 quick, 20 thorough). Non-trivial (measured on the parallel run): a cross-partition event "
    "was delivered in a window in which the receiving partition also delivered an event of local origin, or some "
    "delivery lies within 1 ns of a barrier the coordinator really used; for family independent: >= 2 partitions "
    "each delivering >= 2 events; for family config: the constructor was exercised with an out-of-contract "
    "configuration. Distinct by hash of the case."
)
ASSUMPTIONS = [
    "script entities are stateless: a reaction is a pure function of (entity, event type, payload id), so the permitted reordering inside one timestamp cannot change behaviour",
    "'respects the declared minimum' = the nanosecond delay d satisfies d/1e9 >= min_latency as floats (the smallest such d is used for 'exactly min_latency')",
    "only deliveries with timestamp <= end_time are compared (the suite pins a one-event overshoot of whole runs)",
    "window_size >= 1 microsecond; window sizes <= 0 or below 1 ns (coordinator cannot advance) are not generated",
    "links have packet_loss 0; links with a latency distribution use ConstantLatency >= min_latency",
    "thread interleavings: only those the GIL build produces under switch interval 1e-6 and injected sleep(0)",
    "config family: rejecting window_size > min(link.min_latency) and events to unlinked partitions is treated as part of the property's enabling mechanism (anchor validation.py:107-115)",
]
MUST_OBSERVE = [
    "deliveries_compared",
    "cross_deliveries_checked",
    "perturbed_runs",
    "barriers_seen",
    "daemon_deliveries_compared",
    "cancellations_applied",
    "duplicate_link_cases",
    "future_resumes_compared",
    "source_probe_cross_deliveries",
    "sent_while_target_down_delivered_after_restart",
    "private_reference_cases",
    "permuted_partition_order_cases",
    "cross_events_cancelled_by_sender",
]

NS = 1_000_000_000
LATENCIES = [0.1, 0.25, 1e-3, 0.07, 0.29, 0.3, 1 / 3, 0.05]
TYPES = ["A", "B", "C"]


# --------------------------------------------------------------------------
# arithmetic helpers (generator side: used for aiming only, never by oracles)


def min_delay_ns(lat: float) -> int:
    """Smallest integer nanosecond delay d with d/1e9 >= lat (as floats)."""
    d = int(lat * NS)
    while d / NS < lat:
        d += 1
    while d > 0 and (d - 1) / NS >= lat:
        d -= 1
    return d


def roundtrips(ns: int) -> bool:
    return int((ns / NS) * NS) == ns


def predict_barriers(start_ns: int, window: float, n: int) -> list[int]:
    """Barrier times the coordinator's float arithmetic will produce (for aiming)."""
    out, cur = [], start_ns
    for _ in range(n):
        nxt = int((cur / NS + window) * NS)
        if nxt <= cur:
            break
        out.append(nxt)
        cur = nxt
    return out


# --------------------------------------------------------------------------
# generators


def _topology(rng: random.Random, nparts: int) -> list[tuple[int, int]]:
    kind = rng.choice(["all", "chain", "ring", "random", "pair", "star"])
    pairs: set[tuple[int, int]] = set()
    if kind == "all":
        pairs = {(a, b) for a in range(nparts) for b in range(nparts) if a != b}
    elif kind == "chain":
        pairs = {(a, a + 1) for a in range(nparts - 1)}
        if rng.random() < 0.5:
            pairs |= {(b, a) for a, b in pairs}
    elif kind == "ring":
        pairs = {(a, (a + 1) % nparts) for a in range(nparts)}
    elif kind == "pair":
        a, b = rng.sample(range(nparts), 2)
        pairs = {(a, b), (b, a)}
    elif kind == "star":
        pairs = {(0, b) for b in range(1, nparts)} | {(b, 0) for b in range(1, nparts)}
    else:
        allp = [(a, b) for a in range(nparts) for b in range(nparts) if a != b]
        pairs = set(rng.sample(allp, rng.randint(1, len(allp))))
    return sorted(pairs)


def _gen_script_inner(rng: random.Random, tier: str, profile: str) -> dict:
    nparts = rng.choice([2, 2, 3, 3, 4])
    parts, names, part_of = [], [], {}
    for p in range(nparts):
        k = rng.choice([1, 1, 2, 3])
        ents = [f"e{len(names) + i}" for i in range(k)]
        names += ents
        parts.append(ents)
        for e in ents:
            part_of[e] = p

    lat_mode = profile == "latency_link"
    if profile == "idle":
        lats = [1e-3, 1e-3, 0.05]
    else:
        lats = LATENCIES
    common = rng.choice(lats)
    links = []
    for a, b in _topology(rng, nparts):
        lat = common if rng.random() < 0.7 or profile == "chain" else rng.choice(lats)
        const = None
        if lat_mode and rng.random() < 0.8:
            d = min_delay_ns(lat) + rng.choice([0, 0, 1, 7, int(lat * NS * rng.random())])
            const = d / NS
            while int(const * NS) < min_delay_ns(lat):  # the library truncates float seconds
                d += 1
                const = d / NS
        links.append([a, b, lat, const])
    minlat = min(l[2] for l in links)
    wchoice = rng.choice(["none", "min", "half", "third", "seventh", "rand", "none", "min"])
    if profile == "chain":  # windows as long as the smallest legal cross-partition delay
        wchoice = rng.choice(["none", "min", "min", "half"])
    if profile == "xcancel":  # cross-partition delays of several windows
        wchoice = rng.choice(["half", "third", "seventh", "seventh", "rand"])
    window = {
        "none": None,
        "min": minlat,
        "half": minlat / 2,
        "third": minlat / 3,
        "seventh": minlat / 7,
        "rand": max(1e-6, minlat * rng.uniform(0.2, 1.0)),
    }[wchoice]
    weff = window if window is not None else minlat
    w_ns = max(1, int(weff * NS))

    if profile == "far_epoch":
        start_ns = rng.choice([10**15, 10**16, 10**16 + 123456789, 10**17, 3 * 10**17 + 1])
    else:
        start_ns = rng.choice([0] * 8 + [1, NS, 123456789])

    if profile == "idle":
        span_windows = rng.choice([300, 800, 2000])
        budget = rng.choice([4, 8, 14])
    else:
        span_windows = rng.choice([3, 6, 12, 40, 120])
        budget = rng.choice([6, 15, 40, 90])
    barriers = predict_barriers(start_ns, weff, span_windows + 4)
    if not barriers:
        barriers = [start_ns + w_ns * (i + 1) for i in range(span_windows + 4)]
    horizon = start_ns + w_ns * span_windows
    times_used: list[int] = []
    p_boundary = {"boundary": 0.7, "idle": 0.3, "chain": 0.8}.get(profile, 0.35)
    offsets = [0, 0, 0, 0, 0, -1, 1] if profile == "chain" else [-1, 0, 0, 1]
    p_exact = 0.85 if profile == "chain" else 0.4

    def aim(lo: int) -> int:
        """Pick an absolute time >= lo."""
        if profile == "idle" and rng.random() < 0.5:  # long silence: many windows without any event
            return lo + rng.randrange(20 * w_ns, max(21 * w_ns, w_ns * span_windows // 2))
        r = rng.random()
        if r < p_boundary:
            cands = [b for b in barriers if b + 1 >= lo]
            if cands:
                b = rng.choice(cands[: max(1, rng.choice([1, 2, 3, len(cands)]))])
                t = b + rng.choice(offsets)
                if t >= lo:
                    return t
        if r < p_boundary + 0.12 and times_used:
            t = rng.choice(times_used)
            if t >= lo:
                return t
        if r < p_boundary + 0.2:
            return lo + rng.choice([0, 1, 2])
        if r < p_boundary + 0.3:
            return lo + rng.randrange(0, max(2, w_ns * rng.choice([8, 30, span_windows])))
        return lo + rng.randrange(0, max(2, 2 * w_ns))

    links_from: dict[int, list] = {}
    for a, b, lat, const in links:
        links_from.setdefault(a, []).append((b, lat, const))

    next_pid = [0]

    def new_pid() -> int:
        next_pid[0] += 1
        return next_pid[0]

    init, react = [], {}
    queue: list[tuple[int, str, int]] = []  # (pid, entity, time)
    for _ in range(rng.choice([1, 2, 3, 5])):
        e = rng.choice(names)
        if profile == "idle":
            t = start_ns + rng.randrange(0, w_ns * span_windows)
        else:
            t = aim(start_ns if rng.random() < 0.3 else start_ns + rng.randrange(0, max(2, w_ns * min(span_windows, 6))))
        pid = new_pid()
        init.append([t, e, rng.choice(TYPES), pid])
        times_used.append(t)
        queue.append((pid, e, t))
    made = len(queue)
    p_cross = 0.9 if profile == "chain" else rng.choice([0.3, 0.5, 0.8])
    p_yield = rng.choice([0.0, 0.0, 0.15, 0.4])
    while queue:
        pid, ent, t = queue.pop(0 if rng.random() < 0.7 else rng.randrange(len(queue)))
        if made >= budget or t > horizon:
            continue
        nkids = rng.choice([1, 1, 2, 2, 3]) if made < budget // 2 else rng.choice([0, 0, 1, 1, 2])
        if nkids == 0:
            continue
        y = None
        send_t = t
        if rng.random() < p_yield:
            y = rng.choice([0.0, 1e-9, weff / 2, weff, rng.uniform(0, 2 * weff)])
            send_t = t + int(y * NS)
        out = []
        for _ in range(nkids):
            p = part_of[ent]
            if p in links_from and rng.random() < p_cross:
                dst, lat, const = rng.choice(links_from[p])
                tgt = rng.choice(parts[dst])
                dmin = min_delay_ns(lat)
                r = rng.random()
                if r < p_exact:
                    delay = dmin
                elif r < p_exact + 0.1:
                    delay = dmin + 1
                elif r < 0.8:
                    delay = max(dmin, aim(send_t + dmin) - send_t)
                else:
                    delay = dmin + rng.randrange(0, max(2, 3 * w_ns))
                arrival = send_t + (int(const * NS) if const is not None else delay)
            else:
                tgt = rng.choice(parts[p])
                arrival = aim(send_t)
                delay = arrival - send_t
            cpid = new_pid()
            out.append([delay, tgt, rng.choice(TYPES), cpid])
            times_used.append(arrival)
            queue.append((cpid, tgt, arrival))
            made += 1
        react[str(pid)] = {"y": y, "out": out}

    # end time
    all_times = sorted(times_used)
    tmax = all_times[-1]
    choice = rng.choice(["none", "all", "barrier", "event", "event-1", "event+1", "mid", "nrt", "barrier", "all"])
    if profile == "chain" and rng.random() < 0.7:
        choice = rng.choice(["barrier", "event"])
    if choice == "none":
        end_ns = None
    elif choice == "all":
        end_ns = tmax + rng.choice([0, 1, w_ns, 3 * w_ns])
    elif choice == "barrier":
        cands = [b for b in barriers if b <= tmax + w_ns] or barriers[:1]
        end_ns = rng.choice(cands) + rng.choice(offsets)
    elif choice == "event":
        end_ns = rng.choice(all_times)
    elif choice == "event-1":
        end_ns = rng.choice(all_times) - 1
    elif choice == "event+1":
        end_ns = rng.choice(all_times) + 1
    elif choice == "mid":
        end_ns = rng.randrange(start_ns + 1, max(start_ns + 2, tmax))
    else:
        end_ns = rng.choice(all_times)
        for _ in range(400):
            if not roundtrips(end_ns):
                break
            end_ns += 1
    if end_ns is not None and end_ns <= start_ns:
        end_ns = start_ns + 1
    case = {
        "v": 2,
        "mode": "linked",
        "profile": profile,
        "start_ns": start_ns,
        "end_ns": end_ns,
        "parts": parts,
        "links": links,
        "window": window,
        "max_workers": rng.choice([None, None, 1, 2]),
        "init": init,
        "react": react,
        "K": 3 if tier == "quick" else 20,
        "pseed": rng.randrange(1 << 30),
    }
    _decorate(rng, case, profile, weff, next_pid[0])
    return case


def _decorate(rng: random.Random, case: dict, profile: str, weff: float, last_pid: int) -> None:
    """Widening added after independently seeded changes were missed: daemon flags, cancellations
    (before the run and by handlers), duplicate link declarations.  Works on the finished script."""
    w_ns = max(1, int(weff * NS))
    start_ns = case["start_ns"]
    part_of = {e: p for p, ents in enumerate(case["parts"]) for e in ents}
    flags: dict[str, dict] = {}
    cancels: dict[str, list] = {}
    pid_box = [last_pid]

    def new_pid() -> int:
        pid_box[0] += 1
        return pid_box[0]

    def flag(pid, key):
        flags.setdefault(str(pid), {})[key] = True

    # -- duplicate declarations of one directed partition pair (validation accepts them)
    if case["links"] and rng.random() < (0.5 if profile == "duplinks" else 0.15):
        mode = rng.choice(["one", "all", "some"])
        base = list(case["links"])
        if mode == "one":
            case["links"].append(list(rng.choice(base)))
        elif mode == "all":
            case["links"].extend(list(l) for l in base)
        else:
            case["links"].extend(list(l) for l in base if rng.random() < 0.5)
        if rng.random() < 0.3:
            rng.shuffle(case["links"])

    def descendants(root):
        out, todo = [], [root]
        while todo:
            x = todo.pop()
            out.append(x)
            r = case["react"].get(str(x))
            if r:
                todo.extend(o[3] for o in r["out"])
        return out

    # -- partition members registered as sources= / probes= (targets of local and cross-partition events)
    if profile == "members" or rng.random() < 0.15:
        roles = {}
        for e in part_of:
            r = rng.random()
            if r < (0.35 if profile == "members" else 0.2):
                roles[e] = "source"
            elif r < (0.55 if profile == "members" else 0.3):
                roles[e] = "probe"
        if profile == "members":
            # make sure at least one target of a cross-partition event is a source or probe
            t0 = _script_times(case)
            cross_targets = [
                o[1]
                for pid_s, r in case["react"].items()
                for o in r["out"]
                if int(pid_s) in t0 and part_of[t0[int(pid_s)][2]] != part_of[o[1]]
            ]
            if cross_targets and not any(roles.get(e) for e in cross_targets):
                roles[rng.choice(cross_targets)] = rng.choice(["source", "probe"])
        if roles:
            case["roles"] = roles

    # -- processes that park on a SimFuture, resolved by another delivery in the same partition
    if profile == "futures" or rng.random() < (0.4 if profile == "independent" else 0.15):
        t0 = _script_times(case)
        by_part0: dict[int, list] = {}
        for pid, (t, _c, e) in t0.items():
            by_part0.setdefault(part_of[e], []).append(pid)
        tainted: set[int] = set()
        used: set[int] = set()
        waits, resolves = {}, {}
        order = sorted(t0)
        rng.shuffle(order)
        want = rng.choice([1, 2, 3, 5]) if profile == "futures" else rng.choice([1, 2])
        for w in order:
            if len(waits) >= want:
                break
            if w in tainted or w in used:
                continue
            tw, _c, ew = t0[w]
            doomed = set(descendants(w))
            if (doomed - {w}) & used:
                continue  # an already chosen resolver or waiter must stay independent of this future
            cands = [x for x in by_part0[part_of[ew]] if x not in tainted and x not in doomed and x not in used and str(x) not in waits]
            if cands and rng.random() < 0.5:
                rsv = rng.choice(cands)
            else:  # a dedicated resolving delivery: later (possibly windows later), same instant, or earlier
                tr = tw + rng.choice([0, 0, 1, w_ns // 2, w_ns, w_ns + 1, 3 * w_ns, rng.randrange(0, 4 * w_ns + 1), -1, -(w_ns // 2)])
                tr = max(tr, start_ns)
                rsv = new_pid()
                case["init"].append([tr, rng.choice(case["parts"][part_of[ew]]), "R", rsv])
            fid = f"f{len(waits)}"
            waits[str(w)] = fid
            resolves.setdefault(str(rsv), []).append(fid)
            used.update((w, rsv))
            tainted.update(doomed - {w})
        if waits:
            case["waits"], case["resolves"] = waits, resolves

    times = _script_times(case)
    tmax = max(t for t, _c, _e in times.values())
    info_parent = {}
    for pid_s, r in case["react"].items():
        for _d, _tgt, _typ, cpid in r["out"]:
            info_parent[cpid] = int(pid_s)

    # -- daemon events: only with a finite end_time (see ASSUMPTIONS: auto-termination is not compared)
    want_daemon = profile == "daemon" or rng.random() < 0.2
    if want_daemon:
        if case["end_ns"] is None:
            if profile == "daemon":
                case["end_ns"] = tmax + rng.choice([0, 1, w_ns, 3 * w_ns])
            else:
                want_daemon = False
    if want_daemon:
        mode = rng.choice(["tail", "tail", "subtree", "random"])
        if mode == "tail":
            cut = rng.choice(sorted(t for t, _c, _e in times.values()))
            if rng.random() < 0.5:
                cut -= 1
            for pid, (t, _c, _e) in times.items():
                if t > cut:
                    flag(pid, "daemon")
            if rng.random() < 0.6:  # the daemon-only tail is due before end_time
                case["end_ns"] = max(case["end_ns"], tmax + rng.choice([0, 1, w_ns]))
        elif mode == "subtree":
            for root in rng.sample(sorted(times), min(len(times), rng.choice([1, 2, 3]))):
                for pid in descendants(root):
                    flag(pid, "daemon")
        else:
            for pid in times:
                if rng.random() < 0.3:
                    flag(pid, "daemon")

    # -- cancellations
    if profile == "cancel" or rng.random() < 0.2:
        live_init = [i for i in case["init"]]
        for _t, _e, _typ, pid in live_init[1:]:
            if rng.random() < 0.2:
                flag(pid, "cancelled")  # cancelled before the run
        by_part: dict[int, list] = {}
        for pid, (t, _c, e) in times.items():
            by_part.setdefault(part_of[e], []).append((t, pid))
        local = [
            pid
            for pid, (t, c, e) in times.items()
            if (pid not in info_parent or part_of[times[info_parent[pid]][2]] == part_of[e]) and t - (c if c is not None else start_ns - 1) >= 2
        ]
        rng.shuffle(local)
        for y in local[: rng.choice([1, 1, 2, 4])]:
            t, c, e = times[y]
            lo = c if c is not None else start_ns - 1
            doomed = set(descendants(y))
            cands = [x for tx, x in by_part[part_of[e]] if lo < tx < t and x not in doomed]
            if cands and rng.random() < 0.5:
                x = rng.choice(cands)
            else:  # a dedicated 'disarm' event, strictly between creation and due time
                tx = rng.choice([t - 1, lo + 1, rng.randrange(lo + 1, t)])
                tx = max(tx, start_ns)
                if tx >= t:
                    continue
                x = new_pid()
                case["init"].append([tx, rng.choice(case["parts"][part_of[e]]), "K", x])
            cancels.setdefault(str(x), []).append(y)

    # -- the sender cancels a cross-partition event it emitted earlier.  Only timings whose outcome a barrier
    #    decides: cancel in the window of the send, in a window strictly between send and arrival, or in a window
    #    after the arrival's.  (Cancel and arrival inside ONE window is a cross-thread race in the library itself.)
    if case["links"] and (profile == "xcancel" or rng.random() < 0.12):
        tm = _script_times(case)

        def win(t):
            return max(1, -(-(t - start_ns) // w_ns))

        cross_ys = [
            pid
            for pid, (t, c, e) in tm.items()
            if pid in info_parent and info_parent[pid] in tm and part_of[tm[info_parent[pid]][2]] != part_of[e]
        ]
        rng.shuffle(cross_ys)
        already = {y for ys in cancels.values() for y in ys}
        for y in cross_ys[: (rng.choice([2, 3, 5]) if profile == "xcancel" else rng.choice([1, 2]))]:
            if y in already:
                continue
            a, c0, _e = tm[y]
            sp = part_of[tm[info_parent[y]][2]]
            wa, wc = win(a), win(c0)
            opts = ["after"]
            if wa - wc >= 2:
                opts += ["between"] * 4
            if wc < wa and start_ns + wc * w_ns > c0:
                opts.append("same")
            timing = rng.choice(opts)
            if timing == "between":
                k = rng.randrange(wc + 1, wa)
                lo, hi = start_ns + (k - 1) * w_ns + 1, start_ns + k * w_ns
            elif timing == "same":
                lo, hi = c0 + 1, start_ns + wc * w_ns
            else:
                k = wa + rng.choice([1, 1, 2])
                lo, hi = start_ns + (k - 1) * w_ns + 1, start_ns + k * w_ns
            tx = rng.choice([lo, hi, rng.randrange(lo, hi + 1)])
            x = new_pid()
            case["init"].append([tx, rng.choice(case["parts"][sp]), "K", x])
            cancels.setdefault(str(x), []).append(y)

    # -- barrier gadget: a cancelled event is the partition's last heap entry at / just before a barrier,
    #    the next live event lies beyond it, and a cross-partition event becomes due in between
    if profile == "cancel" and rng.random() < 0.75:
        link = rng.choice(case["links"])
        q, p, lat, const = link
        deff = int(const * NS) if const is not None else min_delay_ns(lat)
        n = (tmax - start_ns) // w_ns + 12
        if n < 6000:
            bars = [b for b in predict_barriers(start_ns, weff, n) if b > tmax + w_ns]
            if bars:
                bk = rng.choice(bars[:3])
                ty = bk + rng.choice([0, 0, -1, -(w_ns // 2), -(w_ns - 1)])
                lo_a = max(0, deff - w_ns)
                dz = rng.choice([2, w_ns // 2, deff + 5, 3 * w_ns])
                if dz <= lo_a + 1:
                    dz = lo_a + rng.choice([2, w_ns])
                da = rng.choice([lo_a + 1, dz - 1, rng.randrange(lo_a + 1, dz)])
                ep, eq = rng.choice(case["parts"][p]), rng.choice(case["parts"][q])
                y, z, snd, msg = new_pid(), new_pid(), new_pid(), new_pid()
                case["init"].append([ty, ep, "T", y])
                case["init"].append([bk + dz, ep, "H", z])
                case["init"].append([bk + da - deff, eq, "S", snd])
                case["react"][str(snd)] = {"y": None, "out": [[min_delay_ns(lat), ep, "M", msg]]}
                if rng.random() < 0.5:
                    flag(y, "cancelled")
                else:
                    x = new_pid()
                    case["init"].append([max(start_ns, ty - rng.choice([1, max(1, w_ns // 3), w_ns])), ep, "K", x])
                    cancels.setdefault(str(x), []).append(y)
                if case["end_ns"] is not None or rng.random() < 0.6:
                    case["end_ns"] = bk + dz + rng.choice([0, 1, w_ns])
                    if rng.random() < 0.25:
                        case["end_ns"] = bk + da

    # -- wiring: where an entity keeps the references to the entities it sends to (public dict, private dict,
    #    private list, one private attribute per target) and in which order the partitions are listed
    if profile == "wiring" or rng.random() < 0.3:
        styles = ["private-dict", "private-list", "private-attr"] + ([] if profile == "wiring" else ["public", "public"])
        case["peer_style"] = {e: rng.choice(styles) for e in sorted(part_of)}
    if profile == "wiring" or rng.random() < 0.5:
        order = list(range(len(case["parts"])))
        rng.shuffle(order)
        if profile == "wiring" and rng.random() < 0.3:
            order.reverse()
        case["order"] = order

    if flags:
        case["flags"] = flags
    if cancels:
        case["cancels"] = cancels

    # -- node faults (CrashNode / PauseNode) on entities that receive events, aimed at cross-partition messages:
    #    sent while the target is down and due after the restart, and the converse shapes.  Fault instants never
    #    coincide with a possible delivery / resumption instant (inside one timestamp the order is free).
    if case["links"] and (profile == "faults" or rng.random() < 0.1):
        tm = _script_times(case)
        busy = {t for t, _c, _e in tm.values()} | {c for _t, c, _e in tm.values() if c is not None}

        def free(ns):
            ns = max(ns, start_ns + 1)
            for _ in range(50):
                at = ns / NS
                if _fault_ns(at) not in busy and _fault_ns(at) > start_ns:
                    return at
                ns += 1
            return None

        cross = [
            (pid, c, t, e)
            for pid, (t, c, e) in tm.items()
            if pid in info_parent and part_of[tm[info_parent[pid]][2]] != part_of[e] and t - c >= 4
        ]
        faults = []
        for _ in range(rng.choice([1, 1, 2, 3])):
            if cross and rng.random() < 0.85:
                pid, snd, arr, ent = rng.choice(cross)
                shape = rng.choice(["down-at-send", "down-at-send", "down-at-send", "down-at-arrival", "down-throughout", "down-in-between"])
                gap = arr - snd
                if shape == "down-at-send":
                    a, b = snd - rng.choice([1, 2, gap // 2, gap, 3 * gap]), snd + rng.randrange(1, gap)
                elif shape == "down-at-arrival":
                    a, b = snd + rng.randrange(1, gap), arr + rng.choice([1, gap, 5 * gap])
                    if rng.random() < 0.3:
                        b = None
                elif shape == "down-throughout":
                    a, b = snd - rng.choice([1, gap]), arr + rng.choice([1, gap])
                else:
                    a = snd + rng.randrange(1, max(2, gap - 1))
                    b = a + rng.randrange(1, max(2, arr - a))
            else:
                ent = rng.choice(sorted(part_of))
                a = start_ns + rng.randrange(1, max(2, tmax - start_ns + w_ns))
                b = a + rng.randrange(1, 4 * w_ns + 2)
            fa = free(a)
            fb = None if b is None else free(max(b, (a if fa is None else _fault_ns(fa)) + 1))
            if fa is None or (b is not None and (fb is None or _fault_ns(fb) <= _fault_ns(fa))):
                continue
            kind = "pause" if (fb is not None and rng.random() < 0.4) else "crash"
            faults.append([kind, ent, fa, fb])
        if faults:
            case["faults"] = faults
    if any(f.get("daemon") for f in flags.values()) and case["end_ns"] is None:
        case["end_ns"] = max(t for t, _c, _e in _script_times(case).values()) + w_ns


def _gen_script(rng: random.Random, tier: str, profile: str) -> dict:
    case = _gen_script_inner(rng, tier, profile)
    # long idle stretches: the perturbed repetitions are what costs; keep one (quick) / five (thorough)
    if _expected_windows(case) > 400:
        case["K"] = 1 if tier == "quick" else 5
    return case


def gen_profile(profile):
    def gen(rng: random.Random, tier: str) -> dict:
        return _gen_script(rng, tier, profile)

    return gen


def gen_independent(rng: random.Random, tier: str) -> dict:
    nparts = rng.choice([1, 2, 3, 4])
    parts, n = [], 0
    for _ in range(nparts):
        k = rng.choice([1, 2, 3])
        parts.append([f"e{n + i}" for i in range(k)])
        n += k
    start_ns = rng.choice([0, 0, 0, NS, 7])
    unit = rng.choice([1, 1000, 10**6, 10**8])
    next_pid = [0]

    def new_pid():
        next_pid[0] += 1
        return next_pid[0]

    init, react, times = [], {}, []
    for p, ents in enumerate(parts):
        queue = []
        for _ in range(rng.choice([0, 1, 2, 4])):
            t = start_ns + rng.choice([0, 1, unit, rng.randrange(0, 20 * unit)])
            pid = new_pid()
            init.append([t, rng.choice(ents), rng.choice(TYPES), pid])
            queue.append((pid, t))
            times.append(t)
        made = len(queue)
        budget = rng.choice([3, 10, 30])
        while queue:
            pid, t = queue.pop(0)
            if made >= budget:
                continue
            out = []
            y = rng.choice([None, None, None, 0.0, unit / NS])
            st = t + (int(y * NS) if y is not None else 0)
            for _ in range(rng.choice([0, 1, 2, 3])):
                delay = rng.choice([0, 0, 1, unit, rng.randrange(0, 5 * unit + 1)])
                cpid = new_pid()
                out.append([delay, rng.choice(ents), rng.choice(TYPES), cpid])
                queue.append((cpid, st + delay))
                times.append(st + delay)
                made += 1
            if out:
                react[str(pid)] = {"y": y, "out": out}
    rng.shuffle(init)
    times = sorted(times) or [start_ns + 1]
    end_ns = rng.choice([None, times[-1] + 1, rng.choice(times), rng.choice(times) - 1, rng.choice(times) + 1])
    if end_ns is not None and end_ns <= start_ns:
        end_ns = start_ns + 1
    case = {
        "v": 2,
        "mode": "independent",
        "profile": "independent",
        "start_ns": start_ns,
        "end_ns": end_ns,
        "parts": parts,
        "links": [],
        "window": None,
        "max_workers": rng.choice([None, None, 1, 2]),
        "init": init,
        "react": react,
        "K": 3 if tier == "quick" else 20,
        "pseed": rng.randrange(1 << 30),
    }
    if init:
        _decorate(rng, case, "independent", max(unit, 1) / NS, next_pid[0])
    return case


def gen_config(rng: random.Random, tier: str) -> dict:
    """Out-of-contract configurations the library must refuse rather than run."""
    import math

    lat = rng.choice(LATENCIES)
    kind = rng.choice(["oversized-window", "oversized-window", "unlinked-target", "reverse-link-only", "window-at-limit"])
    if kind == "oversized-window":
        factor = rng.choice(["ulp", 1.0001, 1.5, 2, 10])
        window = math.nextafter(lat, math.inf) if factor == "ulp" else lat * factor
    elif kind == "window-at-limit":
        window = lat
    else:
        window = None
    return {
        "v": 1,
        "mode": "config",
        "kind": kind,
        "lat": lat,
        "window": window,
        "nparts": rng.choice([2, 3]),
        "private_ref": rng.random() < 0.6,
    }


# --------------------------------------------------------------------------
# the script entity and the runs


def _lib():
    from happysimulator.core.entity import Entity
    from happysimulator.core.event import Event
    from happysimulator.core.simulation import Simulation
    from happysimulator.core.temporal import Duration, Instant
    from happysimulator.parallel import ParallelSimulation, PartitionLink, SimulationPartition

    return Entity, Event, Simulation, Duration, Instant, ParallelSimulation, PartitionLink, SimulationPartition


_ENTITY_CLS = None


def _entity_cls():
    global _ENTITY_CLS
    if _ENTITY_CLS is not None:
        return _ENTITY_CLS
    Entity, Event, _, Duration, _, _, _, _ = _lib()
    from happysimulator.core.sim_future import SimFuture
    from happysimulator.load.source import Source

    class ScriptEntity(Entity):
        """Stateless: the reaction depends on the payload id only (unique per event)."""

        def __init__(self, name, part, react, part_of, plog, seq_latency, flags=None, cancels=None, registry=None):
            Entity.__init__(self, name)  # explicit: the Source variant must not run Source.__init__
            self._flags = flags or {}  # pid -> {"daemon": bool, "cancelled": bool}
            self._cancels = cancels or {}  # pid of the cancelling delivery -> [pids of pending local events]
            self._registry = registry if registry is not None else {}  # pid -> Event, per partition (harness bookkeeping)
            self._waits = {}  # pid of a delivery whose process parks -> future id
            self._resolves = {}  # pid of a delivery -> [future ids it resolves]
            self._futs = {}  # future id -> SimFuture, per partition
            self.rlog = []  # (clock.now ns, pid, value) at every resumption from a future
            self.peers = {}  # public on purpose: the library's validation walks it
            self._hidden_peers = {}  # config family only: references validation cannot see
            self.log = []  # (clock.now ns, event.time ns, type, pid)
            self._part = part
            self._react = react
            self._part_of = part_of
            self._plog = plog
            self._seq_latency = seq_latency  # {(src,dst): Duration} applied by the entity itself (sequential run)

        _caps = None  # class attribute: the _CapProbe of the run in progress

        def handle_event(self, event):
            caps = ScriptEntity._caps
            if caps is not None:
                caps.n += 1
                if caps.n > caps.total_cap:
                    raise DeliveryBudget(f"{caps.n} deliveries")
            pid = event.context["metadata"]["pid"]
            now = self._clock.now.nanoseconds
            self.log.append((now, event.time.nanoseconds, event.event_type, pid))
            self._plog.append(("d", now, pid))
            for tp in self._cancels.get(str(pid), ()):
                pending = self._registry.get(tp)
                if pending is not None:
                    pending.cancel()
                    self._plog.append(("c", now, tp))
            for fid in self._resolves.get(str(pid), ()):
                fut = self._futs.get(fid)
                if fut is None:
                    fut = self._futs[fid] = SimFuture()
                fut.resolve(pid)
            r = self._react.get(str(pid))
            fid = self._waits.get(str(pid))
            if fid is not None or (r and r.get("y") is not None):
                return self._process(r, pid, fid)
            if not r:
                return None
            return self._emit(r)

        def _process(self, r, pid, fid):
            if r and r.get("y") is not None:
                yield r["y"]
                # the resumption is an executed event too (it moves the partition clock)
                self._plog.append(("r", self._clock.now.nanoseconds, pid))
            if fid is not None:
                fut = self._futs.get(fid)
                if fut is None:
                    fut = self._futs[fid] = SimFuture()
                value = yield fut  # parks; resumed by the delivery that resolves the future (or at once)
                now = self._clock.now.nanoseconds
                self.rlog.append((now, pid, value))
                self._plog.append(("r", now, pid))
            return self._emit(r) if r else None

        def _peer(self, name):
            """The entity this one sends to, wherever the case's wiring style keeps the reference."""
            ent = self.peers.get(name) or self._hidden_peers.get(name)
            if ent is None:
                ent = getattr(self, "_downstream_" + name, None)
            if ent is None:
                pd = getattr(self, "_peers", None)
                ent = pd.get(name) if pd else None
            if ent is None:
                ent = next(e for e in getattr(self, "_peer_list", ()) if e.name == name)
            return ent

        def wire(self, name, ent, style):
            if style == "private-dict":
                if not hasattr(self, "_peers"):
                    self._peers = {}
                self._peers[name] = ent
            elif style == "private-list":
                if not hasattr(self, "_peer_list"):
                    self._peer_list = []
                if ent not in self._peer_list:
                    self._peer_list.append(ent)
            elif style == "private-attr":
                setattr(self, "_downstream_" + name, ent)
            else:
                self.peers[name] = ent

        def _emit(self, r):
            now = self._clock.now
            out = []
            for delay_ns, tgt, typ, cpid in r["out"]:
                t = now + Duration(delay_ns)
                dst = self._part_of[tgt]
                if dst != self._part:
                    if self._seq_latency is not None:
                        lat = self._seq_latency.get((self._part, dst))
                        if lat is not None:
                            t = now + lat
                    self._plog.append(("x", now.nanoseconds, cpid, t.nanoseconds))
                ev = Event(
                    time=t,
                    event_type=typ,
                    target=self._peer(tgt),
                    daemon=bool(self._flags.get(str(cpid), {}).get("daemon")),
                    context={"metadata": {"pid": cpid}},
                )
                # the SENDER's partition keeps the reference (timeout / lease-expiry pattern), also for events
                # that travel to another partition
                self._registry[cpid] = ev
                out.append(ev)
            return out

    class ScriptSource(ScriptEntity, Source):
        """The same script entity registered under sources= / probes= of a partition: a load generator or
        probe that accepts (cross-partition) control events.  It never ticks by itself (finite by construction)."""

        def __init__(self, *a, **kw):
            ScriptEntity.__init__(self, *a, **kw)
            self._event_provider = None
            self._time_provider = None
            self._generated_count = 0

        def start(self, start_time):
            return []

        def downstream_entities(self):
            return []

    ScriptEntity.SourceVariant = ScriptSource
    _ENTITY_CLS = ScriptEntity
    return ScriptEntity


def _build_entities(case, sequential: bool):
    Entity, Event, Simulation, Duration, Instant, *_ = _lib()
    cls = _entity_cls()
    part_of = {e: p for p, ents in enumerate(case["parts"]) for e in ents}
    seq_latency = None
    if sequential:
        from happysimulator.distributions.constant import ConstantLatency

        seq_latency = {}
        for a, b, _lat, const in case["links"]:
            if const is not None:
                seq_latency[(a, b)] = ConstantLatency(const).get_latency(Instant.Epoch)
    plogs = [[] for _ in case["parts"]]
    regs = [{} for _ in case["parts"]]
    futs = [{} for _ in case["parts"]]
    ents = {}
    for p, names in enumerate(case["parts"]):
        for n in names:
            klass = cls.SourceVariant if (case.get("roles") or {}).get(n) in ("source", "probe") else cls
            ents[n] = klass(n, p, case["react"], part_of, plogs[p], seq_latency, case.get("flags"), case.get("cancels"), regs[p])
            ents[n]._waits = case.get("waits") or {}
            ents[n]._resolves = case.get("resolves") or {}
            ents[n]._futs = futs[p]
    # peers: exactly the entities this one ever sends to (so validation sees only real references)
    target_of = {pid: e for _t, e, _typ, pid in case["init"]}
    for r in case["react"].values():
        for _d, tgt, _typ, cpid in r["out"]:
            target_of[cpid] = tgt
    for pid_s, r in case["react"].items():
        src = target_of.get(int(pid_s))
        if src is None:
            continue
        for _d, tgt, _typ, _cpid in r["out"]:
            ents[src].wire(tgt, ents[tgt], (case.get("peer_style") or {}).get(src, "public"))
    return ents, plogs, part_of


def _members(case, ents, names):
    """kwargs entities= / sources= / probes= for one Simulation or SimulationPartition."""
    roles = case.get("roles") or {}
    return {
        "entities": [ents[n] for n in names if roles.get(n) not in ("source", "probe")],
        "sources": [ents[n] for n in names if roles.get(n) == "source"],
        "probes": [ents[n] for n in names if roles.get(n) == "probe"],
    }


def _fault_ns(x: float) -> int:
    """Nanosecond at which the library stamps a fault given in float seconds (Instant.from_seconds truncates)."""
    return int(x * NS)


def _down_windows(case) -> dict:
    """entity -> [(down_from_ns, up_at_ns | None)] of the generated CrashNode / PauseNode faults."""
    out: dict = {}
    for _kind, ent, at, end in case.get("faults") or []:
        out.setdefault(ent, []).append((_fault_ns(at), None if end is None else _fault_ns(end)))
    return out


def _is_down(windows, ent, t_ns) -> bool:
    return any(a <= t_ns and (b is None or t_ns < b) for a, b in windows.get(ent, ()))


def _fault_schedule(case, names):
    """A FaultSchedule holding the case's node faults for the given entities (None if there are none)."""
    mine = [f for f in case.get("faults") or [] if f[1] in names]
    if not mine:
        return None
    from happysimulator.faults.node_faults import CrashNode, PauseNode
    from happysimulator.faults.schedule import FaultSchedule

    fs = FaultSchedule()
    for kind, ent, at, end in mine:
        fs.add(PauseNode(ent, start=at, end=end) if kind == "pause" else CrashNode(ent, at=at, restart_at=end))
    return fs


def _init_events(case, ents):
    """Pre-run events, in case order; daemon flags applied, pre-run cancellations done, all registered
    in their partition's registry so that handlers can cancel them."""
    _, Event, _, _, Instant, *_ = _lib()
    flags = case.get("flags") or {}
    out = []
    for t, e, typ, pid in case["init"]:
        f = flags.get(str(pid), {})
        ev = Event(
            time=Instant(t), event_type=typ, target=ents[e], daemon=bool(f.get("daemon")), context={"metadata": {"pid": pid}}
        )
        if f.get("cancelled"):
            ev.cancel()
        ents[e]._registry[pid] = ev
        out.append((e, ev))
    return out


class _TTCapture(logging.Handler):
    """Exact-argument capture of the engine's 'Time travel detected' admission."""

    def __init__(self):
        super().__init__(level=logging.WARNING)
        self.records = []

    def emit(self, record):
        try:
            if "Time travel detected" not in str(record.msg):
                return
            a = record.args
            self.records.append((a[0].nanoseconds, a[1].nanoseconds, a[2]))
        except Exception:  # noqa: BLE001
            self.records.append((None, None, None))


class WindowCap(Exception):
    pass


class DeliveryBudget(Exception):
    pass


class _CapProbe:
    """Delivery cap without touching engine internals (the shared EngineProbe reads private names of
    core/sim_future.py, which a seeded change legitimately removed): every delivery goes to a script entity,
    which counts itself here.  Scripts are finite trees, so the cap only fires when the library multiplies events."""

    def __init__(self, total_cap=200000):
        self.total_cap = total_cap
        self.n = 0

    def __enter__(self):
        _entity_cls()._caps = self
        return self

    def __exit__(self, *exc):
        _entity_cls()._caps = None
        return False

    def run(self, _sim, fn=None) -> str:
        try:
            (fn or _sim.run)()
            return "completed"
        except DeliveryBudget:
            return "budget"


class _BarrierWatch:
    """Transparent wrapper around WindowedCoordinator._exchange_events: records the barrier
    time of every window and how long each partition log was at that barrier."""

    def __init__(self, plogs, cap):
        self.plogs = plogs
        self.cap = cap
        self.barriers = []  # (window_end_ns, [len(plog_p) ...])

    def __enter__(self):
        from happysimulator.parallel import coordinator as co

        self._co = co
        self._orig = co.WindowedCoordinator._exchange_events
        watch, orig = self, self._orig

        def exchange(coord, window_end):
            watch.barriers.append((window_end.nanoseconds, [len(pl) for pl in watch.plogs]))
            if len(watch.barriers) > watch.cap:
                raise WindowCap(f"{len(watch.barriers)} windows")
            return orig(coord, window_end)

        co.WindowedCoordinator._exchange_events = exchange
        return self

    def __exit__(self, *exc):
        self._co.WindowedCoordinator._exchange_events = self._orig
        return False


class Perturber:
    """Thread-schedule perturbation: tiny switch interval + GIL release at random LINE events
    of happysimulator/parallel/*.py and core/simulation.py: sleep(0) (about 60 us away from the
    CPU here, so another partition thread runs for a long stretch) with probability p_sleep,
    os.sched_yield() (cheap hand-over) with probability p."""

    def __init__(self, seed, p=0.06, p_sleep=0.012):
        self.rng = random.Random(seed)
        self.p = p
        self.p_sleep = p_sleep
        self.lines = 0
        self.yields = 0
        self.tool = None

    def __enter__(self):
        mon = sys.monitoring
        self._old = sys.getswitchinterval()
        sys.setswitchinterval(1e-6)
        for tid in (3, 4, 5, 2, 1):
            try:
                mon.use_tool_id(tid, "hsverif-c05")
                self.tool = tid
                break
            except ValueError:
                continue
        if self.tool is None:
            return self
        rnd, p, sleep, me = self.rng.random, self.p + self.p_sleep, time.sleep, self
        p_sleep, sched_yield = self.p_sleep, os.sched_yield
        disable = mon.DISABLE

        def on_line(code, line):
            fn = code.co_filename
            if "/happysimulator/parallel/" not in fn and not fn.endswith("/happysimulator/core/simulation.py"):
                return disable
            me.lines += 1
            r = rnd()
            if r < p:
                me.yields += 1
                if r < p_sleep:
                    sleep(0)
                else:
                    sched_yield()
            return None

        mon.register_callback(self.tool, mon.events.LINE, on_line)
        mon.set_events(self.tool, mon.events.LINE)
        return self

    def __exit__(self, *exc):
        mon = sys.monitoring
        if self.tool is not None:
            mon.set_events(self.tool, 0)
            mon.register_callback(self.tool, mon.events.LINE, None)
            mon.free_tool_id(self.tool)
        sys.setswitchinterval(self._old)
        return False


def _lib_frame(exc: BaseException) -> str | None:
    tb = traceback.extract_tb(exc.__traceback__)
    for fr in reversed(tb):
        if "/happysimulator/" in fr.filename:
            return f"{fr.filename.split('/happysimulator/')[-1]}:{fr.name}"
    return None


def _script_times(case) -> dict:
    """pid -> (due time, creation time, target entity) if every ancestor is delivered (generator-side arithmetic).
    A process that waits on a future emits at max(own time, time of the resolving delivery); resolvers never
    depend on a future themselves (generator invariant), so two passes suffice."""
    const_of = {(a, b): c for a, b, _l, c in case["links"]}
    part_of = {e: p for p, ents in enumerate(case["parts"]) for e in ents}
    waits = case.get("waits") or {}
    resolver_of = {fid: int(r) for r, fids in (case.get("resolves") or {}).items() for fid in fids}

    def walk(resolved_at):
        out = {pid: (t, None, e) for t, e, _typ, pid in case["init"]}
        pending = list(out)
        while pending:
            pid = pending.pop()
            r = case["react"].get(str(pid))
            if not r:
                continue
            t, _c, ent = out[pid]
            st = t + (int(r["y"] * NS) if r.get("y") is not None else 0)
            fid = waits.get(str(pid))
            if fid is not None and resolved_at is not None:
                rt = resolved_at.get(resolver_of.get(fid))
                if rt is not None:
                    st = max(st, rt[0])
            for d, tgt, _typ, cpid in r["out"]:
                c = const_of.get((part_of[ent], part_of[tgt]))
                out[cpid] = (st + (int(c * NS) if c is not None else d), st, tgt)
                pending.append(cpid)
        return out

    first = walk(None)
    return walk(first) if waits else first


def _expected_windows(case) -> int:
    w = case["window"] if case["window"] is not None else min(l[2] for l in case["links"])
    w_ns = max(1, int(w * NS))
    tmax = max([t for t, _c, _e in _script_times(case).values()] + [case["start_ns"]])
    for a, b in (w for ws in _down_windows(case).values() for w in ws):  # fault events keep the heaps non-empty
        tmax = max(tmax, a, b or 0)
    last = tmax if case["end_ns"] is None else min(case["end_ns"], tmax + w_ns)
    return (last - case["start_ns"]) // w_ns + 3


def run_sequential(case, groups=None):
    """Reference: ONE Simulation over all entities (groups=None) or one per partition."""
    _, Event, Simulation, _, Instant, *_ = _lib()
    ents, plogs, part_of = _build_entities(case, sequential=True)
    end = None if case["end_ns"] is None else Instant(case["end_ns"])
    tt = _TTCapture()
    lg = logging.getLogger("happysimulator.core.simulation")
    lg.addHandler(tt)
    status = "completed"
    try:
        with _CapProbe() as probe:
            if groups is None:
                sim = Simulation(
                    start_time=Instant(case["start_ns"]),
                    end_time=end,
                    fault_schedule=_fault_schedule(case, list(ents)),
                    **_members(case, ents, list(ents)),
                )
                for _e, ev in _init_events(case, ents):
                    sim.schedule(ev)
                status = probe.run(sim)
            else:
                sims = []
                for names in case["parts"]:
                    sims.append(
                        Simulation(
                            start_time=Instant(case["start_ns"]),
                            end_time=end,
                            fault_schedule=_fault_schedule(case, names),
                            **_members(case, ents, names),
                        )
                    )
                for e, ev in _init_events(case, ents):
                    sims[part_of[e]].schedule(ev)
                for sim in sims:
                    st = probe.run(sim)
                    if st != "completed":
                        status = st
    finally:
        lg.removeHandler(tt)
    return {
        "logs": {n: e.log for n, e in ents.items()},
        "rlogs": {n: e.rlog for n, e in ents.items()},
        "plogs": plogs,
        "tt": tt.records,
        "status": status,
    }


def run_parallel(case, perturb_seed=None):
    _, Event, _, _, Instant, ParallelSimulation, PartitionLink, SimulationPartition = _lib()
    ents, plogs, part_of = _build_entities(case, sequential=False)
    links = []
    for a, b, lat, const in case["links"]:
        dist = None
        if const is not None:
            from happysimulator.distributions.constant import ConstantLatency

            dist = ConstantLatency(const)
        links.append(PartitionLink(f"P{a}", f"P{b}", lat, latency=dist))
    partitions = [
        SimulationPartition(name=f"P{p}", fault_schedule=_fault_schedule(case, names), **_members(case, ents, names))
        for p, names in enumerate(case["parts"])
    ]
    if case.get("order"):  # the order in which the partitions are LISTED (names and logs keep their index)
        partitions = [partitions[p] for p in case["order"]]
    out = {"exc": None, "exc_type": None, "exc_text": None, "status": "completed", "barriers": [], "lines": 0, "yields": 0}
    tt = _TTCapture()
    lg = logging.getLogger("happysimulator.core.simulation")
    lg.addHandler(tt)
    cap = _expected_windows(case) * 2 + 50 if case["links"] else 10**9
    pert = Perturber(perturb_seed) if perturb_seed is not None else None
    watch = _BarrierWatch(plogs, cap)
    try:
        with warnings.catch_warnings():
            warnings.simplefilter("ignore")
            ps = ParallelSimulation(
                partitions,
                start_time=Instant(case["start_ns"]),
                end_time=None if case["end_ns"] is None else Instant(case["end_ns"]),
                links=links or None,
                window_size=case["window"],
                max_workers=case["max_workers"],
            )
        for e, ev in _init_events(case, ents):
            ps.schedule(ev, partition=f"P{part_of[e]}")
        with _CapProbe() as probe, watch:
            try:
                if pert is not None:
                    with pert:
                        out["status"] = probe.run(None, ps.run)
                else:
                    out["status"] = probe.run(None, ps.run)
            except WindowCap:
                out["status"] = "window-cap"
    except Exception as exc:  # noqa: BLE001
        where = _lib_frame(exc)
        if where is None:
            raise
        out["exc"] = where
        out["exc_type"] = type(exc).__name__
        out["exc_text"] = "".join(traceback.format_exception(type(exc), exc, exc.__traceback__))[-900:]
        out["status"] = "exception"
    finally:
        lg.removeHandler(tt)
    if pert is not None:
        out["lines"], out["yields"] = pert.lines, pert.yields
    out["barriers"] = watch.barriers  # also when the run raised: loss attribution needs them
    out["logs"] = {n: e.log for n, e in ents.items()}
    out["rlogs"] = {n: e.rlog for n, e in ents.items()}
    out["plogs"] = plogs
    out["tt"] = tt.records
    return out


# --------------------------------------------------------------------------
# oracles


def _script_index(case):
    """pid -> (parent pid | None, target entity, is_cross, src partition, dst partition)."""
    part_of = {e: p for p, ents in enumerate(case["parts"]) for e in ents}
    info = {}
    for _t, e, _typ, pid in case["init"]:
        info[pid] = {"parent": None, "target": e, "cross": False, "src": part_of[e], "dst": part_of[e]}
    todo = [pid for _t, _e, _typ, pid in case["init"]]
    while todo:
        pid = todo.pop()
        r = case["react"].get(str(pid))
        if not r:
            continue
        src = info[pid]["dst"]
        for _d, tgt, _typ, cpid in r["out"]:
            info[cpid] = {"parent": pid, "target": tgt, "cross": part_of[tgt] != src, "src": src, "dst": part_of[tgt]}
            todo.append(cpid)
    return info, part_of


def _restrict(log, end_ns):
    if end_ns is None:
        return log
    return [r for r in log if r[0] <= end_ns]


def canonical(logs, end_ns, rlogs=None):
    out = {n: sorted(_restrict(l, end_ns)) for n, l in logs.items()}
    for n, l in (rlogs or {}).items():
        out["resume:" + n] = sorted(_restrict(l, end_ns), key=repr)
    return out


def _link_kind(case):
    return "latency-distribution-link" if any(l[3] is not None for l in case["links"]) else "plain-link"


def check_parallel_against(case, par, seq, res: Result, tag: str):
    """All oracles of one parallel run against the sequential reference. Returns canonical par form."""
    end_ns = case["end_ns"]
    info, part_of = _script_index(case)
    comp_sim = "Simulation"
    comp_co = "WindowedCoordinator"
    barriers = par["barriers"]
    res.count("barriers_seen", len(barriers))
    down = _down_windows(case)

    # -- the run itself
    if par["status"] == "exception":
        res.add(
            "parallel-run-raises",
            par["exc"],
            f"{par['exc_type']};{_link_kind(case)}",
            detail=f"[{tag}] {par['exc_text']}",
        )
    elif par["status"] == "window-cap":
        shape = "end-time-not-float-roundtrippable" if end_ns is not None and not roundtrips(end_ns) else "other"
        if case["start_ns"] >= 10**15:
            shape += ";far-from-epoch"
        last = barriers[-3:]
        res.add(
            "parallel-run-does-not-terminate",
            comp_co,
            shape,
            detail=f"[{tag}] {len(barriers)} windows for an expected {_expected_windows(case)}; last barriers {[b for b, _ in last]} end_ns={end_ns}",
        )
    elif par["status"] in ("spin", "budget"):
        res.inconclusive = f"parallel run hit probe cap: {par['status']}"

    # -- per entity: clock, time order
    for n, log in par["logs"].items():
        prev = None
        for now, et, typ, pid in log:
            if now != et:
                res.add("clock-differs-from-event-time", comp_sim, "partition-clock", f"[{tag}] {n}: pid {pid} clock {now} event.time {et}")
                break
        for now, et, typ, pid in log:
            if prev is not None and now < prev:
                res.add("delivery-out-of-time-order", comp_sim, "partition-entity-log", f"[{tag}] {n}: pid {pid} at {now} after {prev}")
                break
            prev = now

    # -- time-travel discards, classified
    explained: set[int] = set()
    seq_deliv = {}  # pid -> (time, type, entity)
    for n, log in seq["logs"].items():
        for now, et, typ, pid in _restrict(log, end_ns):
            seq_deliv[pid] = (now, typ, n)
    par_count = Counter()
    for n, log in par["logs"].items():
        for now, et, typ, pid in log:
            par_count[pid] += 1
    # where each cross send sits in its partition log
    send_pos = {}
    for p, pl in enumerate(par["plogs"]):
        for i, rec in enumerate(pl):
            if rec[0] == "x":
                send_pos[rec[2]] = (p, i, rec[1], rec[3])  # partition, index, send time, stamped arrival
    def window_barrier(p, i):
        """Barrier time that closed the window in which record i of partition p was executed."""
        for b, marks in barriers:
            if marks[p] > i:
                return b
        return None  # executed after the last exchange (final drain)

    def loss_mechanism(pid, arrival):
        """Why a cross-partition event that was sent did not get delivered: (component, shape, text)."""
        sp, si, stime, _ = send_pos[pid]
        dst = info[pid]["dst"]
        bidx = next((k for k, (_b, marks) in enumerate(barriers) if marks[sp] > si), None)
        if bidx is None:
            return comp_co, "exchange-barrier-not-seen", f"pid {pid} sent at {stime} from P{sp} to P{dst}: no exchange followed"
        b_ns = barriers[bidx][0]
        prev_b = barriers[bidx - 1][0] if bidx > 0 else case["start_ns"]
        text = f"pid {pid} sent at {stime} from P{sp} to P{dst}, due {arrival}, exchanged at barrier {b_ns} (window began {prev_b})"
        overshoot = None
        for k, rec in enumerate(par["plogs"][dst]):
            if rec[0] in ("d", "r") and rec[1] > arrival:
                wb = window_barrier(dst, k)
                if wb is not None and rec[1] > wb:
                    overshoot = (rec[1], wb)
                    break
        if arrival < b_ns:
            shape = "arrival-before-exchange-barrier"
            if case["start_ns"] >= 10**15:
                shape += ";far-from-epoch"
            return comp_co, shape, text
        if overshoot is not None:
            return comp_sim, "dest-ran-past-window-barrier", text + f"; P{dst} delivered an event stamped {overshoot[0]} in the window that ended at {overshoot[1]}"
        if end_ns is not None and arrival == end_ns and bidx == len(barriers) - 1:
            return comp_co, "due-at-end-time-exchanged-at-final-barrier", text
        if _is_down(down, info[pid]["target"], stime):
            return "make_event_router", "target-down-at-send-time-up-at-arrival", text + "; the target was crashed/paused when the event was sent"
        return comp_co, "other", text

    for etime, cur, typ in par["tt"]:
        res.count("time_travel_records")
        if end_ns is not None and etime is not None and etime > end_ns:
            continue  # beyond the horizon: the property does not require its delivery
        cands = [
            pid
            for pid, inf in info.items()
            if par_count[pid] == 0 and pid in send_pos and pid not in explained and _arrival(case, info, send_pos, pid) == etime
        ]
        detail = f"[{tag}] event at {etime} ns type {typ} discarded: partition clock already {cur} ns"
        if cands:
            pid = cands[0]
            explained.add(pid)
            comp, shape, text = loss_mechanism(pid, etime)
            res.add("cross-event-discarded-as-past", comp, "cross-event;" + shape, detail + "; " + text)
            continue
        local = [pid for pid, inf in info.items() if par_count[pid] == 0 and not inf["cross"] and pid in seq_deliv and seq_deliv[pid][0] == etime]
        if local:
            explained.add(local[0])
        res.add("event-discarded-as-past", comp_sim, "local-event" if local else "unmatched-event", detail)

    # -- process resumptions from futures: per process (= waiting delivery) the same resume time and value
    waits = case.get("waits") or {}
    seq_res = {pid: (now, val) for l in seq.get("rlogs", {}).values() for now, pid, val in _restrict(l, end_ns)}
    par_res: dict = {}
    for n, l in par.get("rlogs", {}).items():
        for now, pid, val in _restrict(l, end_ns):
            par_res.setdefault(pid, []).append((now, val))
    res.count("future_resumes_compared", len(seq_res))

    def resume_ok(pid):
        return str(pid) not in waits or par_res.get(pid, [None])[0] == seq_res.get(pid)

    # -- equivalence with the sequential run (deliveries with timestamp <= end_time)
    n_cmp = 0
    missing_roots, extra, moved, dup = [], [], [], []
    par_restricted = {}
    for n, log in par["logs"].items():
        for now, et, typ, pid in _restrict(log, end_ns):
            par_restricted.setdefault(pid, []).append((now, typ, n))
    for pid, (t, typ, n) in seq_deliv.items():
        n_cmp += 1
        got = par_restricted.get(pid)
        if not got:
            # consequential if an ancestor is missing / moved / explained
            a = info[pid]["parent"]
            consequential = False
            while a is not None:
                if a not in par_restricted or par_restricted[a][0][0] != seq_deliv.get(a, (None,))[0] or not resume_ok(a):
                    consequential = True
                    break
                a = info[a]["parent"]
            if pid in explained or consequential:
                continue
            missing_roots.append(pid)
        else:
            if len(got) > 1:
                dup.append(pid)
            if got[0] != (t, typ, n):
                a = info[pid]["parent"]
                if a is None or (a in par_restricted and a in seq_deliv and par_restricted[a][0][0] == seq_deliv[a][0] and resume_ok(a)):
                    moved.append(pid)
    for pid, got in par_restricted.items():
        if pid not in seq_deliv:
            a = info.get(pid, {}).get("parent")
            if a is None or (a in seq_deliv and resume_ok(a)):
                extra.append(pid)
    res.count("deliveries_compared", n_cmp)
    if par["status"] == "completed":
        resolver_of = {fid: int(r) for r, fids in (case.get("resolves") or {}).items() for fid in fids}
        n_bad = 0
        for pid in sorted(set(seq_res) | set(par_res)):
            got, want = par_res.get(pid, []), seq_res.get(pid)
            if got == ([want] if want is not None else []):
                continue
            # root cause only: the waiting delivery and the resolving delivery happened as in the sequential run
            deps = [pid, resolver_of.get(waits.get(str(pid)))]
            if any(d is not None and (par_restricted.get(d, [(None,)])[0][0] != seq_deliv.get(d, (None,))[0]) for d in deps):
                continue
            n_bad += 1
            if n_bad <= 3:
                kind = "missing" if not got else "duplicated" if len(got) > 1 else "extra" if want is None else "time-or-value-differs"
                res.add(
                    "process-resume-differs",
                    "SimFuture",
                    f"resume-{kind};" + ("independent" if not case["links"] else "linked"),
                    f"[{tag}] process started by pid {pid}: sequential resume {want}, parallel {got} (resolver pid {deps[1]})",
                )
    res.count("cross_deliveries_checked", sum(1 for pid in seq_deliv if info[pid]["cross"]))
    res.count("events_monitored", sum(len(l) for l in par["logs"].values()))
    if par["status"] == "completed":
        for pid in missing_roots[:3]:
            t, typ, n = seq_deliv[pid]
            where = f"[{tag}] pid {pid} type {typ} delivered to {n} at {t} ns sequentially, never in the parallel run (end_ns={end_ns}, barriers tail {[b for b, _ in barriers[-3:]]})"
            if info[pid]["cross"] and pid in send_pos:
                comp, shape, text = loss_mechanism(pid, _arrival(case, info, send_pos, pid))
                res.add("cross-event-never-delivered", comp, "cross-event;" + shape, where + "; " + text)
                continue
            at = "at-end-time" if t == end_ns else "before-end-time"
            rt = ";end-time-not-float-roundtrippable" if end_ns is not None and not roundtrips(end_ns) else ""
            res.add("delivery-missing", comp_co if rt else comp_sim, f"local-event;{at}{rt}", where)
        for pid in moved[:3]:
            res.add(
                "delivery-time-differs",
                comp_co if info[pid]["cross"] else comp_sim,
                ("cross-event" if info[pid]["cross"] else "local-event") + ";" + _link_kind(case),
                f"[{tag}] pid {pid}: sequential {seq_deliv[pid]} parallel {par_restricted[pid]}",
            )
        for pid in extra[:3]:
            res.add(
                "delivery-extra",
                comp_co,
                "cross-event" if info.get(pid, {}).get("cross") else "local-event",
                f"[{tag}] pid {pid} delivered in parallel {par_restricted[pid]} but not sequentially before end_ns={end_ns}",
            )
    for pid in dup[:3]:
        res.add(
            "delivery-duplicated",
            comp_co if info[pid]["cross"] else comp_sim,
            "cross-event" if info[pid]["cross"] else "local-event",
            f"[{tag}] pid {pid} delivered {len(par_restricted[pid])} times: {par_restricted[pid]}",
        )
    cancelled_by_sender = {r[2] for pl in par["plogs"] for r in pl if r[0] == "c"}
    # -- conservation from the parallel run alone: every cross event sent, due <= end, delivered exactly once
    if par["status"] == "completed":
        for pid, (sp, si, stime, _stamped) in send_pos.items():
            arr = _arrival(case, info, send_pos, pid)
            if end_ns is not None and arr > end_ns:
                continue
            res.count("cross_sends_checked")
            if _is_down(down, info[pid]["target"], arr):
                continue  # the target is crashed / paused when it arrives: dropped in every engine
            if pid in cancelled_by_sender:
                continue  # cancelled by its sender: the equivalence oracle judges whether it had to arrive
            if par_count[pid] == 0 and pid not in explained and pid not in missing_roots:
                res.add(
                    "cross-event-lost",
                    comp_co,
                    "sent-but-never-delivered;" + _link_kind(case),
                    f"[{tag}] pid {pid} sent from P{sp} at {stime} due {arr} <= end {end_ns}: no delivery, no discard record",
                )
    return canonical(par["logs"], end_ns, par.get("rlogs"))


def _arrival(case, info, send_pos, pid):
    """Arrival time a cross event must have: stamped time, or send + constant latency of its link."""
    sp, _si, stime, stamped = send_pos[pid]
    for a, b, _lat, const in case["links"]:
        if a == sp and b == info[pid]["dst"] and const is not None:
            return stime + int(const * NS)
    return stamped


def _nontrivial(case, par) -> bool:
    info, _ = _script_index(case)
    barriers = par["barriers"]
    if not barriers:
        return False
    bset = set()
    for b, _ in barriers:
        bset.update((b - 1, b, b + 1))
    for log in par["logs"].values():
        for now, *_ in log:
            if now in bset:
                return True
    for p, pl in enumerate(par["plogs"]):
        lo = 0
        for _b, marks in barriers:
            hi = marks[p]
            win = [r for r in pl[lo:hi] if r[0] == "d"]
            lo = hi
            if len(win) < 2:
                continue
            has_cross = any(info[r[2]]["cross"] for r in win)
            has_local = any(not info[r[2]]["cross"] for r in win)
            if has_cross and has_local:
                return True
    return False


def run_linked(case: dict) -> Result:
    res = Result()
    seq = run_sequential(case)
    if seq["status"] != "completed":
        res.inconclusive = f"sequential reference did not complete: {seq['status']}"
        return res
    if seq["tt"]:
        res.inconclusive = "sequential reference itself discarded an event"
        return res
    res.count("seq_deliveries", sum(len(l) for l in seq["logs"].values()))
    fl = case.get("flags") or {}
    res.count(
        "daemon_deliveries_compared",
        sum(1 for l in seq["logs"].values() for r in _restrict(l, case["end_ns"]) if fl.get(str(r[3]), {}).get("daemon")),
    )
    res.count(
        "cancellations_applied",
        sum(1 for pl in seq["plogs"] for r in pl if r[0] == "c") + sum(1 for f in fl.values() if f.get("cancelled")),
    )
    res.count("duplicate_link_cases", int(len({(l[0], l[1]) for l in case["links"]}) < len(case["links"])))
    info2, _ = _script_index(case)
    res.count(
        "cross_events_cancelled_by_sender",
        sum(1 for pl in seq["plogs"] for r in pl if r[0] == "c" and r[2] in info2 and info2[r[2]]["cross"]),
    )
    ps_ = case.get("peer_style") or {}
    res.count("private_reference_cases", int(any(v != "public" for v in ps_.values())))
    res.count("permuted_partition_order_cases", int(bool(case.get("order")) and case["order"] != sorted(case["order"])))
    if case.get("faults"):
        dw = _down_windows(case)
        info1, _ = _script_index(case)
        delivered = {r[3] for l in seq["logs"].values() for r in _restrict(l, case["end_ns"])}
        res.count(
            "sent_while_target_down_delivered_after_restart",
            sum(1 for pl in seq["plogs"] for r in pl if r[0] == "x" and r[2] in delivered and _is_down(dw, info1[r[2]]["target"], r[1])),
        )
        res.count("fault_windows", len(case["faults"]))
    roles = case.get("roles") or {}
    if roles:
        info0, _ = _script_index(case)
        res.count(
            "source_probe_cross_deliveries",
            sum(1 for n, l in seq["logs"].items() if roles.get(n) for r in _restrict(l, case["end_ns"]) if info0[r[3]]["cross"]),
        )
    par0 = run_parallel(case)
    order0 = [[r[2] for r in pl if r[0] == "d"] for pl in par0["plogs"]]
    base = check_parallel_against(case, par0, seq, res, "default-schedule")
    res.count("parallel_runs")
    res.count("windows_run", len(par0["barriers"]))
    if par0["status"] == "completed" and _nontrivial(case, par0):
        res.nontrivial = True
    if par0["status"] == "window-cap":
        return res  # perturbed runs would only spin the same way
    for k in range(case.get("K", 0)):
        par = run_parallel(case, perturb_seed=case["pseed"] * 1000 + k)
        res.count("perturbed_runs")
        res.count("line_callbacks", par["lines"])
        res.count("yields_injected", par["yields"])
        sub = Result()
        canon = check_parallel_against(case, par, seq, sub, f"perturbed-{k}")
        for key in ("deliveries_compared", "cross_deliveries_checked", "events_monitored", "barriers_seen", "time_travel_records", "cross_sends_checked"):
            if key in sub.obs:
                res.count(key, sub.obs[key])
        have = {v.key() for v in res.violations}
        for v in sub.violations:
            if v.key() not in have:
                res.violations.append(v)
                have.add(v.key())
        if sub.inconclusive and not res.inconclusive:
            res.inconclusive = sub.inconclusive
        if canon != base or par["status"] != par0["status"] or len(par["tt"]) != len(par0["tt"]):
            diff = [n for n in canon if canon[n] != base.get(n)]
            res.add(
                "schedule-dependent-result",
                "ParallelSimulation",
                "perturbed-run-differs-from-default-schedule",
                f"perturbed run {k}: entities differing {diff[:4]}, status {par['status']} vs {par0['status']}, discards {len(par['tt'])} vs {len(par0['tt'])}",
            )
            break
        if par["status"] == "completed" and par["lines"] == 0:
            res.count("perturbation_inactive")
        if [[r[2] for r in pl if r[0] == "d"] for pl in par["plogs"]] != order0:
            # same deliveries, other order inside one timestamp: permitted by C05 (it is C03's subject); evidence only
            res.count("same_instant_order_varies_with_schedule")
    return res


def run_independent(case: dict) -> Result:
    """No links: ParallelSimulation must behave exactly like one Simulation per partition."""
    res = Result()
    ref = run_sequential(case, groups=True)
    if ref["status"] != "completed":
        res.inconclusive = f"reference did not complete: {ref['status']}"
        return res
    res.count("seq_deliveries", sum(len(l) for l in ref["logs"].values()))
    busy = sum(1 for pl in ref["plogs"] if len(pl) >= 2)
    res.nontrivial = busy >= 2
    for k in range(-1, case.get("K", 0)):
        par = run_parallel(case, perturb_seed=None if k < 0 else case["pseed"] * 1000 + k)
        tag = "default-schedule" if k < 0 else f"perturbed-{k}"
        res.count("parallel_runs")
        if k >= 0:
            res.count("perturbed_runs")
            res.count("line_callbacks", par["lines"])
            res.count("yields_injected", par["yields"])
        if par["status"] == "exception":
            res.add("parallel-run-raises", par["exc"], f"{par['exc_type']};independent", detail=f"[{tag}] {par['exc_text']}")
            break
        if par["status"] != "completed":
            res.inconclusive = f"parallel run: {par['status']}"
            break
        n = sum(len(l) for l in par["logs"].values())
        res.count("deliveries_compared", n)
        res.count("independent_deliveries_compared", n)
        res.count("future_resumes_compared", sum(len(l) for l in par["rlogs"].values()))
        res.count("events_monitored", n)
        if par["tt"] or ref["tt"]:
            res.add("event-discarded-as-past", "Simulation", "independent-partitions", f"[{tag}] {par['tt'][:2]}")
        bad = [e for e in ref["logs"] if ref["logs"][e] != par["logs"][e]]
        if bad:
            e = bad[0]
            a, b = ref["logs"][e], par["logs"][e]
            i = next((i for i in range(min(len(a), len(b))) if a[i] != b[i]), min(len(a), len(b)))
            same_multiset = sorted(a) == sorted(b)
            res.add(
                "independent-partitions-differ-from-separate-simulations",
                "ParallelSimulation",
                "same-deliveries-different-order" if same_multiset else "different-deliveries",
                f"[{tag}] entity {e}: first difference at index {i}: separate {a[i:i+2]} parallel {b[i:i+2]} (lengths {len(a)}/{len(b)})",
            )
            break
        if [list(pl) for pl in ref["plogs"]] != [list(pl) for pl in par["plogs"]]:
            res.add(
                "independent-partitions-differ-from-separate-simulations",
                "ParallelSimulation",
                "partition-interleaving-differs",
                f"[{tag}] per-partition delivery order differs",
            )
            break
    return res


def run_config(case: dict) -> Result:
    """Out-of-contract configurations must be refused (ValueError / RuntimeError), not run."""
    Entity, Event, _, Duration, Instant, ParallelSimulation, PartitionLink, SimulationPartition = _lib()
    res = Result()
    res.nontrivial = True
    res.count("config_checks")
    cls = _entity_cls()
    n = case["nparts"]
    part_of = {f"e{i}": i for i in range(n)}
    kind = case["kind"]
    react = {"1": {"y": None, "out": [[min_delay_ns(case["lat"]), "e1", "A", 2]]}}
    if kind == "reverse-link-only":
        link_pairs = [(1, 0)]
    elif kind == "unlinked-target":
        link_pairs = [(0, n - 1), (n - 1, 0)] if n > 2 else []
        if n == 2:
            link_pairs = [(1, 0)]
    else:
        link_pairs = [(0, 1), (1, 0)]
    plogs = [[] for _ in range(n)]
    ents = {name: cls(name, p, react, part_of, plogs[p], None) for name, p in part_of.items()}
    hidden = kind in ("unlinked-target", "reverse-link-only")
    if hidden and case.get("private_ref", True):
        ents["e0"]._hidden_peers["e1"] = ents["e1"]  # validation cannot see it; the router must refuse
    else:
        ents["e0"].peers["e1"] = ents["e1"]
    partitions = [SimulationPartition(name=f"P{p}", entities=[ents[f"e{p}"]]) for p in range(n)]
    links = [PartitionLink(f"P{a}", f"P{b}", case["lat"]) for a, b in link_pairs]
    refused = None
    delivered = None
    try:
        with warnings.catch_warnings():
            warnings.simplefilter("ignore")
            ps = ParallelSimulation(partitions, end_time=Instant.from_seconds(5 * case["lat"] + 1), links=links, window_size=case["window"])
        ps.schedule(Event(time=Instant(1), event_type="A", target=ents["e0"], context={"metadata": {"pid": 1}}), partition="P0")
        with _CapProbe(100000) as probe, _BarrierWatch(plogs, 5000):
            try:
                probe.run(None, ps.run)
            except WindowCap:
                pass
        delivered = len(ents["e1"].log)
    except (ValueError, RuntimeError) as exc:
        if _lib_frame(exc) is None:
            raise
        refused = f"{type(exc).__name__}: {str(exc)[:120]}"
    if kind == "oversized-window" and refused is None:
        res.add(
            "oversized-window-not-rejected",
            "validate_partitions",
            "window-above-min-latency",
            f"window_size={case['window']!r} accepted with min_latency={case['lat']!r}",
        )
    elif kind == "window-at-limit":
        if refused is not None:
            res.add("legal-window-rejected", "validate_partitions", "window-equals-min-latency", refused)
        elif delivered != 1:
            res.add("cross-event-lost", "WindowedCoordinator", "window-equals-min-latency", f"e1 got {delivered} deliveries")
    elif hidden and refused is None and delivered == 0:
        res.add(
            "cross-event-lost",
            "make_event_router",
            "target-in-unlinked-partition-silently-dropped",
            "event to an entity of a partition without link neither delivered nor refused",
        )
    return res


# --------------------------------------------------------------------------
# shrinking: remove events (with their subtrees) while the same key still fires


def _prune(case, keep: set[int]) -> dict:
    c = dict(case)
    c["init"] = [i for i in case["init"] if i[3] in keep]
    react = {}
    alive = {i[3] for i in c["init"]}
    todo = list(alive)
    while todo:
        pid = todo.pop()
        r = case["react"].get(str(pid))
        if not r:
            continue
        out = [o for o in r["out"] if o[3] in keep]
        if out or r.get("y") is not None:
            react[str(pid)] = {"y": r.get("y"), "out": out}
        for o in out:
            todo.append(o[3])
    c["react"] = react
    return c


_SHRUNK_KEYS: set = set()  # per worker process: one shrunken witness per mechanism key is enough


def shrink_script(case, still_fails, budget_s: float = 2.5):
    """Remove events (with their subtrees) while the same mechanism key still fires.
    Wall-clock bounded: shrinking is a convenience, never part of a verdict.  Only the first
    case per mechanism key in a worker process is shrunk (the runner keeps one replay per key,
    taken from the lowest case index, i.e. from the first shard)."""
    if not _SHRUNK_KEYS:
        # mechanisms that already have a pinned, hand-minimised witness need no second one
        try:
            from hsverif import findings as _kf

            _SHRUNK_KEYS.update(_kf.key_of(e) for e in _kf.for_property(PID) if e.get("status") == "known")
        except Exception:  # noqa: BLE001
            pass
        _SHRUNK_KEYS.add(("", "", ""))
    probe_case = dict(case)
    probe_case["K"] = 0
    keys = {v.key() for v in run_linked(probe_case).violations}
    if keys and keys <= _SHRUNK_KEYS:
        return case
    _SHRUNK_KEYS.update(keys)
    deadline = time.monotonic() + budget_s
    info, _ = _script_index(case)
    pids = sorted(info)
    small = dict(case)
    small["K"] = 0
    if not still_fails(small):
        small["K"] = min(case.get("K", 0), 3)
        if not still_fails(small):
            return case

    def fails(sub):
        if time.monotonic() > deadline:
            return False
        return still_fails(_prune(small, set(sub)))

    kept = ddmin(pids, fails, max_tests=80)
    out = _prune(small, set(kept))
    if time.monotonic() < deadline:
        trial = dict(out)
        trial["max_workers"] = None
        if still_fails(trial):
            out = trial
    return out


FAMILIES = {
    "linked": Family("linked", gen_profile("linked"), run_linked, shrink=shrink_script, case_timeout=120.0),
    "boundary": Family("boundary", gen_profile("boundary"), run_linked, shrink=shrink_script, case_timeout=120.0),
    "idle": Family("idle", gen_profile("idle"), run_linked, shrink=shrink_script, case_timeout=180.0),
    "far_epoch": Family("far_epoch", gen_profile("far_epoch"), run_linked, shrink=shrink_script, case_timeout=120.0),
    "latency_link": Family("latency_link", gen_profile("latency_link"), run_linked, shrink=shrink_script, case_timeout=120.0),
    "chain": Family("chain", gen_profile("chain"), run_linked, shrink=shrink_script, case_timeout=120.0),
    "daemon": Family("daemon", gen_profile("daemon"), run_linked, shrink=shrink_script, case_timeout=120.0),
    "cancel": Family("cancel", gen_profile("cancel"), run_linked, shrink=shrink_script, case_timeout=120.0),
    "duplinks": Family("duplinks", gen_profile("duplinks"), run_linked, shrink=shrink_script, case_timeout=120.0),
    "futures": Family("futures", gen_profile("futures"), run_linked, shrink=shrink_script, case_timeout=120.0),
    "members": Family("members", gen_profile("members"), run_linked, shrink=shrink_script, case_timeout=120.0),
    "faults": Family("faults", gen_profile("faults"), run_linked, shrink=shrink_script, case_timeout=120.0),
    "wiring": Family("wiring", gen_profile("wiring"), run_linked, shrink=shrink_script, case_timeout=120.0),
    "xcancel": Family("xcancel", gen_profile("xcancel"), run_linked, shrink=shrink_script, case_timeout=120.0),
    "independent": Family("independent", gen_independent, run_independent, case_timeout=120.0),
    "config": Family("config", gen_config, run_config, case_timeout=60.0),
}

BUDGET = {
    "quick": {
        "linked": 75,
        "boundary": 60,
        "idle": 24,
        "far_epoch": 40,
        "latency_link": 40,
        "chain": 50,
        "daemon": 35,
        "cancel": 45,
        "duplinks": 20,
        "futures": 40,
        "members": 30,
        "faults": 40,
        "wiring": 30,
        "xcancel": 40,
        "independent": 50,
        "config": 30,
    },
    "thorough": {
        "linked": 1500,
        "boundary": 1200,
        "idle": 150,
        "far_epoch": 500,
        "latency_link": 500,
        "chain": 700,
        "daemon": 500,
        "cancel": 600,
        "duplinks": 200,
        "futures": 600,
        "members": 400,
        "faults": 500,
        "wiring": 400,
        "xcancel": 500,
        "independent": 600,
        "config": 100,
    },
}

"""C09  Capacity primitives never over-admit or leak, wake in order, and let time pass.

Monitor shape: generated worker processes (generator handlers of a harness
entity) call the real primitives inside a real Simulation under the engine
probe.  A holder ledger is written at the client boundary (request before the
call, grant after the primitive answered, release after the call returned);
public counters are sampled after every delivery and at every clock advance
(= end of the previous instant).  Oracles are the clauses of the property
statement, nothing else; see notes/design-C09.md.
"""

from __future__ import annotations

import random

from hsverif.core import Family, Result
from hsverif.c09_common import TS, Run, at, drive, max_overlap_blocked, simultaneous

PID = "C09"
LEVEL = "exploration"
RULE = (
    "Each case is a JSON script: primitive + parameters, and per worker an arrival tick (1 tick = 1/512 s, many "
    "workers on the same tick) and a list of steps (blocking acquire / try_acquire, amount, priority, hold ticks "
    "0 or positive, gap ticks); for request-shaped components (Bulkhead, ThreadPool, Server) a list of arrivals "
    "with service times and weights.  The script is executed by harness worker processes inside a real Simulation "
    "(auto-terminating, control hooks attached) under EngineProbe with an instant cap.  Non-trivial: at some logical "
    "moment >= 2 acquirers were blocked by the primitive at once while a holder with a positive scripted hold held "
    "it (measured from the ledger; for Barrier/Condition: >= 2 parties parked at once and simulated time had to "
    "pass before their release).  Distinct by hash of the case."
)
ASSUMPTIONS = [
    "clients follow the API: every grant is released exactly once by its holder (double release of one Grant is "
    "exercised separately because Grant.release documents idempotence), amounts are within capacity",
    "sim.control hooks do not change behaviour (C04) and same-instant delivery is FIFO among run-created events (C01)",
    "an instant with more than instant_cap (2500) deliveries under a workload of <= 14 processes is a frozen clock",
    "ConnectionPool waiters poll every min(0.1, timeout/10) s by design: the notice delay of a handed-over "
    "connection is not counted as a violation, the hand-over order (on_acquire callback) is what is checked",
    "eventually = at the fixpoint of an auto-terminating run (no primary event left)",
]
MUST_OBSERVE = ["grants_checked", "counter_samples", "end_of_instant_checks"]

EPS = 1e-9


# ==========================================================================
# Resource / PreemptibleResource  (SimFuture based)


def _gen_steps(rng, cap, floaty, n_steps, preemptible):
    steps = []
    for _ in range(n_steps):
        if floaty == "binary":
            amt = rng.choice([0.25, 0.5, 0.75, 1.0, 1.5, cap])
            amt = min(amt, cap)
        elif floaty == "decimal":
            amt = rng.choice([0.1, 0.2, 0.3, 0.7, cap])
            amt = min(amt, cap)
        else:
            amt = rng.choice([1, 1, 1, 2, 3, cap]) if cap > 1 else 1
            amt = min(amt, cap)
        st = {
            "op": "try" if rng.random() < 0.15 and not preemptible else "acq",
            "amt": amt,
            "hold": rng.choice([0, 0, 1, 2, 3, 5, 8]),
            "gap": rng.choice([0, 0, 0, 1, 2, 4]),
            "twice": rng.random() < 0.1,
        }
        if preemptible:
            st["prio"] = rng.choice([0, 1, 1, 2, 3, 5])
            st["preempt"] = rng.random() < 0.6
        steps.append(st)
    return steps


def gen_resource(rng: random.Random, tier: str) -> dict:
    floaty = rng.choices(["int", "binary", "decimal"], [0.7, 0.15, 0.15])[0]
    if floaty == "int":
        cap = rng.choice([1, 1, 2, 3, 4, 6])
    elif floaty == "binary":
        cap = rng.choice([1.0, 1.5, 2.0, 2.5])
    else:
        cap = rng.choice([0.3, 0.7, 1.0, 1.2])
    nw = rng.randint(2, 12)
    base = rng.choice([0, 0, 3])
    spread = rng.choice([0, 0, 1, 2, 6])
    workers = []
    for _ in range(nw):
        workers.append({"at": base + rng.randint(0, spread), "steps": _gen_steps(rng, cap, floaty, rng.randint(1, 3), False)})
    return {"kind": "Resource", "capacity": cap, "amounts": floaty, "workers": workers}


def gen_preemptible(rng: random.Random, tier: str) -> dict:
    cap = rng.choice([1, 2, 3, 4, 5])
    nw = rng.randint(2, 10)
    spread = rng.choice([0, 1, 2, 6])
    workers = []
    for _ in range(nw):
        workers.append({"at": rng.randint(0, spread), "steps": _gen_steps(rng, cap, "int", rng.randint(1, 3), True)})
    return {"kind": "PreemptibleResource", "capacity": cap, "amounts": "int", "workers": workers}


def _key(r):
    return (r.prio, r.s_req)


def run_resource(case: dict) -> Result:
    from happysimulator.components.industrial.preemptible_resource import PreemptibleResource
    from happysimulator.components.resource import Resource

    res = Result()
    comp = case["kind"]
    cap = case["capacity"]
    pre = comp == "PreemptibleResource"
    prim = PreemptibleResource("prim", capacity=cap) if pre else Resource("prim", capacity=cap)
    run = Run(res, [prim])
    led = run.ledger
    amounts = case.get("amounts", "int")
    tol = EPS * max(1.0, cap) if amounts == "decimal" else 0
    kind_shape = {"int": "int-amounts", "binary": "float-amounts-exact", "decimal": "float-amounts-decimal"}[amounts]
    arrivals_sim = simultaneous([w["at"] for w in case["workers"]])
    flagged: set = set()

    def flag(oracle, shape, detail, witness=None):
        k = (oracle, shape)
        if k in flagged:
            return
        flagged.add(k)
        res.add(oracle, comp, shape, detail, witness if witness is not None else {"history": led.history()})

    preempt_seen = [0]
    corrupt = [False]  # set after a release raised: later counter mismatches are consequences, not new findings

    def worker(wi, spec):
        def proc():
            first = True
            for st in spec["steps"]:
                if not first or st["gap"]:
                    yield st["gap"] * TS
                first = False
                r = led.request(wi, amount=st["amt"], prio=st.get("prio", 0), hold=st["hold"], how=st["op"])
                grant = None
                if st["op"] == "try":
                    avail_before = prim.available
                    try:
                        grant = prim.try_acquire(st["amt"])
                    except ValueError as exc:
                        r.outcome = "error"
                        flag("acquire-raises", kind_shape, f"try_acquire({st['amt']}) raised {exc!r} with capacity {cap}")
                        continue
                    r.blocked = False
                    if grant is None:
                        r.outcome = "denied"
                        if avail_before + tol >= st["amt"]:
                            flag("try-denied-although-fits", kind_shape, f"try_acquire({st['amt']}) denied with available={avail_before}")
                        continue
                    r.extra = grant
                    led.granted(r)
                    r.d_res = led.delivery
                else:
                    try:
                        if pre:
                            fut = prim.acquire(st["amt"], priority=st["prio"], preempt=st["preempt"], on_preempt=_mk_on_preempt(r))
                        else:
                            fut = prim.acquire(st["amt"])
                    except ValueError as exc:
                        r.outcome = "error"
                        flag("acquire-raises", kind_shape, f"acquire({st['amt']}) raised {exc!r} with capacity {cap}")
                        continue
                    r.fut = fut
                    r.blocked = not fut.is_resolved
                    grant = yield fut
                    led.granted(r)
                    r.extra = grant
                    if pre and grant.preempted:
                        r.outcome = "preempted"
                        led.released(r)
                t0 = run.now_ns()
                yield st["hold"] * TS
                if run.now_ns() - t0 != st["hold"] * 1_953_125:
                    flag("duplicate-wake", kind_shape, f"a hold of {st['hold']} ticks lasted {run.now_ns() - t0} ns: the process was resumed twice", None)
                try:
                    grant.release()
                    if st.get("twice"):
                        grant.release()
                except ValueError as exc:
                    flag("release-raises", kind_shape, f"release of {r.amount} raised {exc!r}; available={prim.available} capacity={cap}")
                    corrupt[0] = True
                if r.outcome == "granted":
                    led.released(r)
                elif r.outcome == "preempted" and r.s_rel is None:
                    led.released(r)

        return proc

    def _mk_on_preempt(r):
        def cb():
            preempt_seen[0] += 1
            if r.s_grant is not None and r.s_rel is None:
                r.outcome = "preempted"
                led.released(r)
            else:
                r.outcome = "preempted"

        return cb

    for wi, spec in enumerate(case["workers"]):
        run.spawn(spec["at"], worker(wi, spec))

    def resource_side_held():
        tot = 0
        for r in led.reqs:
            if r.fut is not None:
                if r.fut.is_resolved and not r.fut.value.released:
                    tot += r.amount
            elif r.extra is not None and not r.extra.released:
                tot += r.amount
        return tot

    def after_delivery(ev):
        d = led.delivery
        newly = []
        unresolved = []
        for r in led.reqs:
            if r.fut is None:
                continue
            if r.fut.is_resolved:
                if r.d_res is None:
                    r.d_res = d
                    newly.append(r)
            else:
                unresolved.append(r)
        # arrival (priority) order among blocked acquirers
        for b in newly:
            if not b.blocked:
                continue
            res.count("grants_checked")
            for a in unresolved:
                if a.d_req < d and _key(a) < _key(b):
                    flag(
                        "grant-out-of-order",
                        ("priority-then-arrival" if pre else "arrival-order") + "/" + kind_shape,
                        f"request {b.rid} (key {_key(b)}) granted while earlier/better request {a.rid} (key {_key(a)}, amount {a.amount}) still waits",
                    )
        # counters
        res.count("counter_samples")
        if corrupt[0]:
            return
        avail = prim.available
        if avail < -tol or avail > cap + tol:
            flag("available-out-of-range", kind_shape, f"available={avail} capacity={cap}")
        held_r = resource_side_held()
        if abs(held_r + avail - cap) > tol:
            flag("held-plus-available", kind_shape, f"granted-and-unreleased {held_r} + available {avail} != capacity {cap}")
        held_c = sum(r.amount for r in led.holders())
        if held_c > cap + tol:
            flag("over-admission", kind_shape, f"clients hold {held_c} of capacity {cap}")

    def head_check(where):
        res.count("end_of_instant_checks")
        waiting = [r for r in led.reqs if r.fut is not None and not r.fut.is_resolved]
        if not waiting or corrupt[0]:
            return
        head = min(waiting, key=_key)
        if head.amount <= prim.available + tol:
            partial = pre and preempt_seen[0] > 0
            shape = ("after-preemption/" if partial else "") + kind_shape
            flag(
                "head-waiter-fits-free-capacity",
                shape,
                f"{where}: head waiter {head.rid} wants {head.amount}, available={prim.available}, capacity={cap}",
            )

    status = run.go(after_delivery, lambda t: head_check("end-of-instant"))
    if status == "spin":
        flag("frozen-clock", "waiter-blocked/" + kind_shape, "instant cap exceeded", run.spin_witness())
    elif status == "completed":
        head_check("fixpoint")
        if not led.pending() and not led.holders() and not corrupt[0]:
            if abs(prim.available - cap) > tol:
                flag("leak", kind_shape, f"all holders released but available={prim.available} capacity={cap}")
    for r in led.reqs:
        if r.how == "try" and r.outcome == "denied":
            res.count("try_denied")
    res.count("requests", len(led.reqs))
    res.count("blocked_requests", sum(1 for r in led.reqs if r.blocked))
    res.count("preemptions_seen", preempt_seen[0])
    mb = max_overlap_blocked(led.reqs)
    res.nontrivial = mb >= 2 and any(r.hold > 0 and r.s_grant is not None for r in led.reqs)
    res.seen("components", comp)
    _ = arrivals_sim
    return res



# ==========================================================================
# Mutex / Semaphore / RWLock  (generator based acquire)


def gen_lock(rng: random.Random, tier: str) -> dict:
    kind = rng.choice(["Mutex", "Semaphore", "Semaphore", "RWLock", "RWLock"])
    case = {"kind": kind}
    cap = 1
    if kind == "Semaphore":
        cap = rng.choice([1, 2, 3, 4])
        case["cap"] = cap
    if kind == "RWLock":
        case["max_readers"] = rng.choice([None, None, 1, 2, 3])
    nw = rng.randint(2, 12)
    spread = rng.choice([0, 0, 1, 3, 8])
    # a third of the cases keep every hold at zero: those run to completion on a tree whose waits spin
    zero_holds = rng.random() < 0.35
    workers = []
    for _ in range(nw):
        steps = []
        for _ in range(rng.randint(1, 3)):
            st = {
                "op": "try" if rng.random() < 0.15 else "acq",
                "hold": 0 if zero_holds else rng.choice([0, 1, 2, 3, 5, 8]),
                "gap": rng.choice([0, 0, 0, 1, 2, 4]),
            }
            if kind == "Semaphore":
                st["amt"] = min(cap, rng.choice([1, 1, 1, 2, 3]))
            if kind == "RWLock":
                st["mode"] = rng.choice(["r", "r", "w"])
            steps.append(st)
        workers.append({"at": rng.randint(0, spread), "steps": steps})
    case["workers"] = workers
    return case


def run_lock(case: dict) -> Result:
    from happysimulator.components.sync.mutex import Mutex
    from happysimulator.components.sync.rwlock import RWLock
    from happysimulator.components.sync.semaphore import Semaphore

    res = Result()
    comp = case["kind"]
    if comp == "Mutex":
        prim = Mutex("prim")
        cap = 1
    elif comp == "Semaphore":
        cap = case["cap"]
        prim = Semaphore("prim", initial_count=cap)
    else:
        prim = RWLock("prim", max_readers=case.get("max_readers"))
        cap = case.get("max_readers")
    run = Run(res, [prim])
    led = run.ledger
    flagged: set = set()
    variant = comp if comp != "RWLock" else ("RWLock/max_readers" if cap else "RWLock/unbounded")

    def flag(oracle, shape, detail, witness=None):
        k = (oracle, shape)
        if k in flagged:
            return
        flagged.add(k)
        res.add(oracle, comp, shape, detail, witness if witness is not None else {"history": led.history()})

    def do_acquire(r, wi):
        if comp == "Mutex":
            return prim.acquire(owner=f"w{wi}")
        if comp == "Semaphore":
            return prim.acquire(r.amount)
        return prim.acquire_read() if r.mode == "r" else prim.acquire_write()

    def do_try(r, wi):
        if comp == "Mutex":
            free = not prim.is_locked
            return prim.try_acquire(owner=f"w{wi}"), free
        if comp == "Semaphore":
            free = prim.available >= r.amount
            return prim.try_acquire(r.amount), free
        if r.mode == "r":
            free = not prim.is_write_locked and prim.waiters == 0 and (not cap or prim.active_readers < cap)
            return prim.try_acquire_read(), free
        free = not prim.is_write_locked and prim.active_readers == 0 and prim.waiters == 0
        return prim.try_acquire_write(), free

    def do_release(r):
        if comp == "Mutex":
            return prim.release()
        if comp == "Semaphore":
            return prim.release(r.amount)
        return prim.release_read() if r.mode == "r" else prim.release_write()

    def worker(wi, spec):
        def proc():
            first = True
            for st in spec["steps"]:
                if not first or st["gap"]:
                    yield st["gap"] * TS
                first = False
                mode = st.get("mode", "x")
                r = led.request(wi, mode=mode, amount=st.get("amt", 1), hold=st["hold"], how=st["op"])
                if st["op"] == "try":
                    ok, free = do_try(r, wi)
                    r.blocked = False
                    if not ok:
                        r.outcome = "denied"
                        if free:
                            flag("try-denied-although-free", variant, f"try ({mode}, {r.amount}) denied on a free primitive")
                        continue
                    led.granted(r)
                else:
                    w_before = prim.waiters

                    def after_first(_yielded, r=r, w_before=w_before):
                        r.blocked = prim.waiters > w_before

                    yield from drive(do_acquire(r, wi), after_first)
                    led.granted(r)
                t0 = run.now_ns()
                yield st["hold"] * TS
                if run.now_ns() - t0 != st["hold"] * 1_953_125:
                    flag("duplicate-wake", variant, f"a hold of {st['hold']} ticks lasted {run.now_ns() - t0} ns")
                try:
                    evs = do_release(r)
                except (RuntimeError, ValueError) as exc:
                    flag("release-raises", variant, f"release by holder {r.rid} raised {exc!r}")
                    evs = None
                led.released(r)
                if evs:
                    yield 0.0, evs

        return proc

    for wi, spec in enumerate(case["workers"]):
        run.spawn(spec["at"], worker(wi, spec))

    def client_state():
        hs = led.holders()
        nr = sum(1 for r in hs if r.mode == "r")
        nw = sum(1 for r in hs if r.mode == "w")
        amt = sum(r.amount for r in hs if r.mode == "x")
        return nr, nw, amt

    def after_delivery(ev):
        res.count("counter_samples")
        nr, nw, amt = client_state()
        if comp == "Mutex":
            if amt > 1:
                flag("over-admission", variant, f"{amt} clients hold the mutex")
            if amt == 1 and not prim.is_locked:
                flag("held-plus-available", variant, "a client holds the mutex but is_locked is False")
        elif comp == "Semaphore":
            if amt > cap:
                flag("over-admission", variant, f"clients hold {amt} permits of {cap}")
            a = prim.available
            if a < 0 or a > cap:
                flag("available-out-of-range", variant, f"available={a} capacity={cap}")
            if amt + a > cap:
                flag("held-plus-available", variant, f"client-held {amt} + available {a} > capacity {cap}")
        else:
            if nw > 1 or (nw == 1 and nr > 0):
                flag("over-admission", variant, f"writer not exclusive: {nw} writers, {nr} readers hold")
            if cap and nr > cap:
                flag("over-admission", variant, f"{nr} readers hold with max_readers={cap}")
            if nr > prim.active_readers or (nw == 1 and not prim.is_write_locked):
                flag("held-plus-available", variant, f"clients hold r={nr} w={nw}; lock says readers={prim.active_readers} write_locked={prim.is_write_locked}")

    def head_fits(head):
        if comp == "Mutex":
            return not prim.is_locked
        if comp == "Semaphore":
            return prim.available >= head.amount
        if head.mode == "r":
            return not prim.is_write_locked and (not cap or prim.active_readers < cap)
        return not prim.is_write_locked and prim.active_readers == 0

    def quiescent_check(where):
        res.count("end_of_instant_checks")
        nr, nw, amt = client_state()
        if comp == "Mutex":
            if prim.is_locked != (amt == 1):
                flag("held-plus-available", variant, f"{where}: is_locked={prim.is_locked} but {amt} client holders")
        elif comp == "Semaphore":
            if amt + prim.available != cap:
                flag("held-plus-available", variant, f"{where}: client-held {amt} + available {prim.available} != capacity {cap}")
        else:
            if prim.active_readers != nr or prim.is_write_locked != (nw == 1):
                flag("held-plus-available", variant, f"{where}: lock readers={prim.active_readers} write_locked={prim.is_write_locked}; clients r={nr} w={nw}")
        pend = [r for r in led.pending() if r.blocked]
        if pend:
            head = min(pend, key=lambda r: r.s_req)
            if head_fits(head):
                flag("head-waiter-fits-free-capacity", variant, f"{where}: head waiter {head.rid} ({head.mode},{head.amount}) fits the free capacity")

    status = run.go(after_delivery, lambda t: quiescent_check("end-of-instant"))
    if status == "spin":
        pend = [r for r in led.pending() if r.blocked]
        shape = "waiter-blocked-behind-positive-hold" if pend else "no-waiter"
        flag("frozen-clock", shape, f"{len(pend)} blocked waiter(s); holder is inside a positive hold", run.spin_witness())
    elif status == "completed":
        quiescent_check("fixpoint")
        # arrival order among blocked acquirers, judged on simulated time (same-instant notice order is not judged)
        bl = [r for r in led.reqs if r.blocked]
        for i, a in enumerate(bl):
            for b in bl[i + 1:]:
                if b.t_grant is None:
                    continue
                res.count("grants_checked")
                if a.t_grant is None or a.t_grant > b.t_grant:
                    flag("grant-out-of-order", variant + "/later-arrival-served-at-earlier-time",
                         f"blocked request {b.rid} (arrived later) granted at {b.t_grant} ns, earlier request {a.rid} at {a.t_grant}")
        if led.pending() and not led.holders():
            flag("stranded-waiter", variant, f"{len(led.pending())} acquirers never served although nobody holds the primitive")
    res.count("requests", len(led.reqs))
    res.count("blocked_requests", sum(1 for r in led.reqs if r.blocked))
    res.count("grants_checked", sum(1 for r in led.reqs if r.s_grant is not None))
    mb = max_overlap_blocked(led.reqs)
    res.nontrivial = mb >= 2 and any(r.hold > 0 and r.s_grant is not None for r in led.reqs)
    res.seen("components", variant)
    return res


# ==========================================================================
# Barrier


def gen_barrier(rng: random.Random, tier: str) -> dict:
    parties = rng.choice([1, 2, 2, 3, 4, 5])
    groups = rng.choice([1, 1, 2])
    nw = parties * groups
    rounds = rng.randint(1, 3)
    same = rng.random() < 0.3
    workers = []
    for _ in range(nw):
        workers.append({"at": 0 if same else rng.randint(0, 4),
                        "rounds": [0 if same else rng.choice([0, 0, 1, 2, 5]) for _ in range(rounds)]})
    return {"kind": "Barrier", "parties": parties, "workers": workers}


def run_barrier(case: dict) -> Result:
    from happysimulator.components.sync.barrier import Barrier

    res = Result()
    comp = "Barrier"
    n = case["parties"]
    prim = Barrier("prim", parties=n)
    run = Run(res, [prim])
    led = run.ledger
    flagged: set = set()

    def flag(oracle, shape, detail, witness=None):
        k = (oracle, shape)
        if k in flagged:
            return
        flagged.add(k)
        res.add(oracle, comp, shape, detail, witness if witness is not None else {"history": led.history()})

    def worker(wi, spec):
        def proc():
            for work in spec["rounds"]:
                yield work * TS
                r = led.request(wi)

                def after_first(yielded, r=r):
                    r.blocked = yielded

                try:
                    yield from drive(prim.wait(), after_first)
                except RuntimeError as exc:
                    r.outcome = "error"
                    flag("wait-raises", "no-abort-no-reset", f"wait() raised {exc!r}")
                    return
                group = r.rid // n
                if len(led.reqs) < (group + 1) * n:
                    flag("over-admission", "passed-before-all-parties-arrived",
                         f"arrival #{r.rid} passed with only {len(led.reqs)} arrivals, its generation needs {(group + 1) * n}")
                led.granted(r)
                res.count("grants_checked")

        return proc

    for wi, spec in enumerate(case["workers"]):
        run.spawn(spec["at"], worker(wi, spec))

    def after_delivery(ev):
        res.count("counter_samples")
        if prim.waiting > n - 1:
            flag("over-admission", "more-waiting-than-parties", f"waiting={prim.waiting} parties={n}")

    def quiescent(where):
        res.count("end_of_instant_checks")
        arrivals = len(led.reqs)
        for r in led.reqs:
            if r.s_grant is None and r.outcome is None and arrivals >= (r.rid // n + 1) * n:
                flag("party-not-released", "generation-complete",
                     f"{where}: arrival #{r.rid} still waits although {arrivals} parties arrived (parties={n})")
                break
        if prim.waiting != arrivals % n:
            flag("held-plus-available", "waiting-count", f"{where}: waiting={prim.waiting}, arrivals={arrivals}, parties={n}")

    status = run.go(after_delivery, lambda t: quiescent("end-of-instant"))
    if status == "spin":
        pend = led.pending()
        flag("frozen-clock", "party-waiting-for-later-arrival" if pend else "no-waiter",
             f"{len(pend)} parties parked at the barrier", run.spin_witness())
    elif status == "completed":
        quiescent("fixpoint")
    res.count("requests", len(led.reqs))
    res.count("blocked_requests", sum(1 for r in led.reqs if r.blocked))
    mb = max_overlap_blocked(led.reqs)
    waited = any(r.blocked and r.t_grant is not None and r.t_grant > r.t_req for r in led.reqs)
    later = len({w["at"] + sum(w["rounds"][:1]) for w in case["workers"]}) > 1
    res.nontrivial = mb >= 2 and (waited or (status == "spin" and later))
    res.seen("components", comp)
    return res


# ==========================================================================
# Condition (+ its Mutex)


def gen_condition(rng: random.Random, tier: str) -> dict:
    nc = rng.randint(1, 6)
    np_ = rng.randint(1, 4)
    same = rng.random() < 0.3
    consumers = [{"at": 0 if same else rng.randint(0, 3), "hold": 0 if same else rng.choice([0, 0, 1, 2])} for _ in range(nc)]
    producers = []
    for i in range(np_):
        producers.append({
            "at": 0 if same else rng.randint(1, 8),
            "n": rng.choice([1, 1, 2, 3, "all"]),
            "hold": 0 if same else rng.choice([0, 0, 1, 3]),
        })
    # a last notify_all so that every consumer can finish
    producers.append({"at": 0 if same else rng.randint(9, 12), "n": "all", "hold": 0})
    return {"kind": "Condition", "consumers": consumers, "producers": producers}


def run_condition(case: dict) -> Result:
    from happysimulator.components.sync.condition import Condition
    from happysimulator.components.sync.mutex import Mutex

    res = Result()
    comp = "Condition"
    mutex = Mutex("lock")
    cond = Condition("cond", lock=mutex)
    run = Run(res, [mutex, cond])
    led = run.ledger
    flagged: set = set()
    in_cs = [0]           # clients inside a critical section (hold the mutex at the client boundary)
    model_q: list = []    # consumers waiting, in wait order (what "arrival order" refers to)
    allowed: list = []    # consumers that some notify has selected, in selection order
    woke: list = []

    def flag(oracle, shape, detail, witness=None):
        k = (oracle, shape)
        if k in flagged:
            return
        flagged.add(k)
        res.add(oracle, comp, shape, detail, witness if witness is not None else {"history": led.history(), "woke": woke[:20], "allowed": [r.rid for r in allowed][:20]})

    def enter():
        in_cs[0] += 1
        if in_cs[0] > 1:
            flag("over-admission", "mutex-shared", f"{in_cs[0]} processes are inside the critical section")

    def consumer(wi, spec):
        def proc():
            yield from mutex.acquire(owner=f"c{wi}")
            enter()
            r = led.request(wi, mode="wait")
            model_q.append(r)
            in_cs[0] -= 1  # wait() releases the mutex in its first step

            def after_first(yielded, r=r):
                r.blocked = True

            try:
                yield from drive(cond.wait(), after_first)
            except RuntimeError as exc:
                flag("wait-raises", "holding-mutex", f"wait() raised {exc!r}")
                return
            enter()
            led.granted(r)
            woke.append(r.rid)
            res.count("grants_checked")
            if r not in allowed:
                flag("over-admission", "woken-without-notify", f"consumer {r.rid} returned from wait() but no notify selected it")
            if not mutex.is_locked:
                flag("held-plus-available", "woken-without-mutex", f"consumer {r.rid} returned from wait() and the mutex is not locked")
            yield spec["hold"] * TS
            in_cs[0] -= 1
            mutex.release()
            led.released(r)

        return proc

    def producer(wi, spec):
        def proc():
            yield from mutex.acquire(owner=f"p{wi}")
            enter()
            yield spec["hold"] * TS
            k = len(model_q) if spec["n"] == "all" else min(spec["n"], len(model_q))
            for _ in range(k):
                allowed.append(model_q.pop(0))
            if spec["n"] == "all":
                cond.notify_all()
            else:
                cond.notify(spec["n"])
            in_cs[0] -= 1
            mutex.release()

        return proc

    for wi, spec in enumerate(case["consumers"]):
        run.spawn(spec["at"], consumer(wi, spec))
    for wi, spec in enumerate(case["producers"]):
        run.spawn(spec["at"], producer(wi, spec))

    def after_delivery(ev):
        res.count("counter_samples")
        if in_cs[0] == 1 and not mutex.is_locked:
            flag("held-plus-available", "mutex-flag", "a client is inside the critical section but is_locked is False")
        if cond.waiters != len(model_q):
            flag("held-plus-available", "waiter-count", f"Condition.waiters={cond.waiters}, consumers waiting={len(model_q)}")

    def quiescent(where):
        res.count("end_of_instant_checks")
        if mutex.is_locked != (in_cs[0] == 1):
            flag("held-plus-available", "mutex-flag", f"{where}: is_locked={mutex.is_locked}, clients in critical section={in_cs[0]}")

    status = run.go(after_delivery, lambda t: quiescent("end-of-instant"))
    if status == "spin":
        wit = run.spin_witness()
        if cond.waiters > 0:
            flag("frozen-clock", "waiter-parked-until-later-notify", f"{cond.waiters} consumers wait for a notify", wit)
        if mutex.waiters > 0:
            # the Condition's mutex spins on its own (same mechanism and key as in the lock family)
            res.add("frozen-clock", "Mutex", "waiter-blocked-behind-positive-hold",
                    f"{mutex.waiters} processes wait for the condition's mutex", wit)
        if cond.waiters == 0 and mutex.waiters == 0:
            flag("frozen-clock", "no-waiter", "nobody waits", wit)
    elif status == "completed":
        quiescent("fixpoint")
        for r in allowed:
            if r.s_grant is None:
                flag("stranded-waiter", "notified-never-returned", f"consumer {r.rid} was selected by a notify and never returned from wait()")
                break
        # wake order = wait order, judged on simulated time
        for i, a in enumerate(allowed):
            for b in allowed[i + 1:]:
                if a.t_grant is not None and b.t_grant is not None and a.t_grant > b.t_grant:
                    flag("grant-out-of-order", "later-waiter-returned-at-earlier-time",
                         f"consumer {b.rid} returned at {b.t_grant} ns before earlier waiter {a.rid} at {a.t_grant}")
    res.count("requests", len(led.reqs))
    res.count("blocked_requests", sum(1 for r in led.reqs if r.blocked))
    mb = max_overlap_blocked(led.reqs)
    res.nontrivial = mb >= 2 and (any(r.t_grant is not None and r.t_grant > r.t_req for r in led.reqs) or status == "spin")
    res.seen("components", comp)
    return res


FAMILIES = {
    "resource": Family("resource", gen_resource, run_resource, case_timeout=30.0),
    "preemptible": Family("preemptible", gen_preemptible, run_resource, case_timeout=30.0),
    "lock": Family("lock", gen_lock, run_lock, case_timeout=30.0),
    "barrier": Family("barrier", gen_barrier, run_barrier, case_timeout=30.0),
    "condition": Family("condition", gen_condition, run_condition, case_timeout=30.0),
}
BUDGET = {
    "quick": {"resource": 400, "preemptible": 300, "lock": 500, "barrier": 150, "condition": 150},
    "thorough": {"resource": 20000, "preemptible": 12000, "lock": 20000, "barrier": 5000, "condition": 5000},
}
